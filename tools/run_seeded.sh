#!/bin/bash
# tools/run_seeded.sh <seed dir name> <ID> [tier] : run check <ID> against /verif/seeded/<name>/patch.diff (scratch copy of /repo)
HERE="$(cd "$(dirname "$0")/.." && pwd)"
P="$HERE/seeded/$1/patch.diff"; [ -f "$HERE/seeded/$1/patch_current.diff" ] && P="$HERE/seeded/$1/patch_current.diff"
exec "$HERE/selftest/run_mutant.sh" "$P" "$2" "${3:-quick}"
