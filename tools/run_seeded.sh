#!/bin/bash
# tools/run_seeded.sh <seed dir name> <ID> [tier] : run check <ID> against /verif/seeded/<name>/patch.diff (scratch copy of /repo)
HERE="$(cd "$(dirname "$0")/.." && pwd)"
exec "$HERE/selftest/run_mutant.sh" "$HERE/seeded/$1/patch.diff" "$2" "${3:-quick}"
