#!/bin/bash
# tools/ingest.sh <worktree prefix> <first output index> <PROP>... : verify the two changes of each agent worktree
# <prefix><PROP> (tools/verify_seed.sh), store them as seeded/<PROP>_<n>, <PROP>_<n+1>, keep a baseline report
# (observations/) and run the quick check of the property against each.
HERE="$(cd "$(dirname "$0")/.." && pwd)"; PRE="$1"; N="$2"; shift 2
for P in "$@"; do
  WT="$PRE$P"
  "$HERE/tools/verify_seed.sh" "$WT" 1 "$P" "$N"
  "$HERE/tools/verify_seed.sh" "$WT" 2 "$P" "$((N+1))"
  for f in baseline_violation.py baseline_violation.txt; do
    [ -f "$WT/seeded_out/$f" ] && cp "$WT/seeded_out/$f" "$HERE/observations/${P}_r${N}_$f"
  done
done
names=""; for P in "$@"; do names="$names ${P}_$N ${P}_$((N+1))"; done
/venv/bin/python "$HERE/tools/run_all_seeded.py" $names 2>&1 | grep -v "^WARNING" | tail -$(( 2 * $# + 2 ))
