#!/usr/bin/env python3
"""Generator-blindness audit: which lines / branch arcs of usim do the checks actually execute?

Not a check and not evidence: a development aid used to find behaviour no generator reaches (DESIGN.md 2.13).

  VERIF_COV=<dir> bin/check C09 --tier quick      every harness process (shards included) dumps the usim
                                                  lines and branch arcs it executed to <dir>/<pid>.<n>.json
  bin/py tools/cov.py report <dir> [<dir>...]     per file: executable lines never executed, branches of
                                                  which only one side was taken (union over all dumps)

Uses sys.monitoring (CPython >= 3.12): LINE events are disabled per location after the first hit,
BRANCH events are recorded as (line of the branch, line of the destination)."""
import dis
import json
import os
import sys

_state = {}


def install(outdir, root):
    mon = sys.monitoring
    tool = 3
    try:
        mon.use_tool_id(tool, 'verif-cov')
    except ValueError:
        return
    lines, arcs, linemaps = set(), set(), {}
    root = os.path.realpath(root) + os.sep
    usimdir = os.path.join(root, 'usim') + os.sep

    def mine(code):
        fn = code.co_filename
        return fn.startswith(usimdir)

    def on_line(code, line):
        if mine(code):
            lines.add((code.co_filename[len(root):], line))
        return mon.DISABLE

    def linemap(code):
        m = linemaps.get(code)
        if m is None:
            m = {}
            for start, end, ln in code.co_lines():
                if ln is not None:
                    for off in range(start, end, 2):
                        m[off] = ln
            linemaps[code] = m
        return m

    def on_branch(code, src, dst):
        if not mine(code):
            return mon.DISABLE
        m = linemap(code)
        arcs.add((code.co_filename[len(root):], m.get(src, 0), m.get(dst, 0), src, dst))

    mon.register_callback(tool, mon.events.LINE, on_line)
    mon.register_callback(tool, mon.events.BRANCH, on_branch)
    mon.set_events(tool, mon.events.LINE | mon.events.BRANCH)
    _state.update(outdir=outdir, lines=lines, arcs=arcs, n=0)
    os.makedirs(outdir, exist_ok=True)


def dump(tag=''):
    if not _state:
        return
    _state['n'] += 1
    path = os.path.join(_state['outdir'], '%s%d.%d.json' % (tag, os.getpid(), _state['n']))
    with open(path, 'w') as f:
        json.dump({'lines': sorted(_state['lines']), 'arcs': sorted(_state['arcs'])}, f)


def maybe_install():
    d = os.environ.get('VERIF_COV')
    if d and not _state:
        install(d, os.environ.get('USIM_REPO', '/repo'))


# ---------------------------------------------------------------------------------------------
def _codes(code):
    yield code
    for c in code.co_consts:
        if hasattr(c, 'co_code'):
            yield from _codes(c)


def report(dirs, root='/repo'):
    lines, arcs = set(), set()
    for d in dirs:
        for n in os.listdir(d):
            if n.endswith('.json'):
                data = json.load(open(os.path.join(d, n)))
                lines |= {tuple(x) for x in data['lines']}
                arcs |= {tuple(x) for x in data['arcs']}
    total = hit = 0
    for dp, _, fns in sorted(os.walk(os.path.join(root, 'usim'))):
        for fn in sorted(fns):
            if not fn.endswith('.py'):
                continue
            path = os.path.join(dp, fn)
            rel = os.path.relpath(path, root)
            src = open(path).read()
            top = compile(src, path, 'exec')
            exe = set()
            branches = {}       # (src offset, code id) -> set of possible dests is unknown; use observed only
            for c in _codes(top):
                for _, _, ln in c.co_lines():
                    if ln is not None and ln > 0:
                        exe.add(ln)
                # conditional jumps: both destinations
                ins = list(dis.get_instructions(c))
                m = {}
                for start, end, ln in c.co_lines():
                    if ln is not None:
                        for off in range(start, end, 2):
                            m[off] = ln
                for i, x in enumerate(ins):
                    if x.opname.startswith('POP_JUMP_IF') or x.opname in ('FOR_ITER', 'SEND'):
                        if x.opname == 'SEND':
                            continue
                        nxt = ins[i + 1].offset if i + 1 < len(ins) else None
                        # skip caches handled by get_instructions
                        branches[(c.co_firstlineno, c.co_name, x.offset)] = (m.get(x.offset, 0), {x.argval, nxt})
            got = {ln for f, ln in lines if f == rel}
            srclines = src.splitlines()
            # module-level/def lines execute at import: those are in `got` only if the import was monitored; ignore
            missing = sorted(ln for ln in exe - got)
            total += len(exe)
            hit += len(exe & got)
            seen_arcs = {}
            for f, sl, dl, so, do in arcs:
                if f == rel:
                    seen_arcs.setdefault((sl, so), set()).add(do)
            half = []
            for (first, name, off), (ln, dests) in sorted(branches.items(), key=lambda kv: kv[1][0]):
                seen = seen_arcs.get((ln, off), set())
                if seen and len(seen) < 2:
                    half.append((ln, name))
            print('== %s: %d/%d lines' % (rel, len(exe & got), len(exe)))
            for ln in missing:
                text = srclines[ln - 1].strip() if ln - 1 < len(srclines) else ''
                if text.startswith(('def ', 'async def ', 'class ', '@', 'import ', 'from ', '"""', "'''")):
                    continue
                print('   MISS %4d  %s' % (ln, text[:110]))
            for ln, name in half:
                text = srclines[ln - 1].strip() if ln - 1 < len(srclines) else ''
                print('   HALF %4d  %s   [%s]' % (ln, text[:100], name))
    print('TOTAL %d/%d' % (hit, total))


if __name__ == '__main__':
    if sys.argv[1] == 'report':
        report(sys.argv[2:], os.environ.get('USIM_REPO', '/repo'))
