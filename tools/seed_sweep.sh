#!/bin/bash
# tools/seed_sweep.sh [tier] [seeds...] : run every check at several VERIF_SEED values on the unchanged tree;
# any VIOLATION / non-zero exit here is a false alarm (or a new finding) and must be looked at.
HERE="$(cd "$(dirname "$0")/.." && pwd)"; TIER="${1:-quick}"; shift; SEEDS="${@:-2 3 4 5 6}"
for s in $SEEDS; do for i in 01 02 03 04 05 06 07 08 09 10 11 12 13 14 15 16 17 18 19 20; do
  out=$(VERIF_SEED=$s "$HERE/bin/check" C$i --tier $TIER 2>&1); rc=$?
  echo "seed=$s C$i rc=$rc $(echo "$out" | grep -c VIOLATION) violations; $(echo "$out" | tail -1 | cut -c1-120)"
  [ $rc -ne 0 ] && echo "$out" | grep -A2 VIOLATION | cut -c1-300
done; done
