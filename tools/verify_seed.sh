#!/bin/bash
# tools/verify_seed.sh <agent worktree> <i> <PROP> : confirm a seeded change (tests pass, demo fails with / passes without),
# then store it under /verif/seeded/<PROP>_<i>/ .  Uses a fresh scratch worktree, removed afterwards.
WT="$1"; I="$2"; PROP="$3"; OUTI="${4:-$2}"
SRC="$WT/seeded_out"
[ -f "$SRC/change$I.diff" ] || { echo "no change$I.diff"; exit 2; }
V=/tmp/vs_${PROP}_$I
git -C /repo worktree remove --force "$V" 2>/dev/null
git -C /repo worktree add -q --detach "$V" "$(git -C "$WT" rev-parse HEAD)" || exit 2
trap 'git -C /repo worktree remove --force "$V"' EXIT
cd "$V"
clean=$(PYTHONPATH="$V" timeout 120 /venv/bin/python "$SRC/demo$I.py" >/tmp/vs_clean.out 2>&1; echo $?)
git apply "$SRC/change$I.diff" || { echo "diff does not apply"; exit 2; }
tests=$(PYTHONPATH="$V" /venv/bin/python -m pytest -q -p no:cacheprovider --timeout=900 usim_pytest 2>&1 | tail -1)
mut=$(PYTHONPATH="$V" timeout 120 /venv/bin/python "$SRC/demo$I.py" >/tmp/vs_mut.out 2>&1; echo $?)
echo "$PROP/$I: clean demo exit=$clean ; tests: $tests ; mutated demo exit=$mut"
if [ "$clean" = 0 ] && [ "$mut" = 1 ] && echo "$tests" | grep -q "251 passed" ; then
  D=/verif/seeded/${PROP}_$OUTI; mkdir -p "$D"
  cp "$SRC/change$I.diff" "$D/patch.diff"; cp "$SRC/demo$I.py" "$D/demo.py"; cp "$SRC/note$I.txt" "$D/note.txt"
  python3 - "$D" "$PROP" "$tests" "$(git -C "$WT" rev-parse HEAD)" <<'PY'
import json,sys
d,prop,tests,base=sys.argv[1:5]
note=open(d+'/note.txt').read()
json.dump({"property":prop,"base_commit":base,"breaks":note.strip().split('\n')[0][:300],
 "needs_to_manifest":note.strip(),
 "confirmed":{"tests_with_patch":tests.strip(),"demo_exit_clean":0,"demo_exit_patched":1,
  "how":"tools/verify_seed.sh: fresh scratch worktree at base_commit; demo.py run clean (exit 0), git apply patch.diff, full pytest suite, demo.py (exit 1); worktree removed"},
 "detected_by":"(filled in by tools/run_seeded.sh)"}, open(d+'/meta.json','w'), indent=1)
PY
  echo "  stored in $D"
else
  echo "  REJECTED"; tail -3 /tmp/vs_mut.out
fi
