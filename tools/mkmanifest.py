#!/usr/bin/env python3
"""Regenerate MANIFEST.json from checks/*.py metadata (run with bin/py tools/mkmanifest.py)."""
import importlib
import json
import os
import sys

ROOT = os.path.dirname(os.path.dirname(os.path.abspath(__file__)))
sys.path.insert(0, ROOT)
BASELINE = ("cd /repo && env -u USIM_VERIF /venv/bin/python -m pytest -ra -q -p no:cacheprovider "
            "--timeout=900 --continue-on-collection-errors")
props = [json.loads(l) for l in open(os.path.join(ROOT, 'properties.jsonl'))]
checks, na = [], []
for p in props:
    pid = p['id']
    path = os.path.join(ROOT, 'checks', pid.lower() + '.py')
    if not os.path.exists(path):
        na.append({'property_id': pid, 'reason': 'check not built yet (planned, see DESIGN.md); not claimed'})
        continue
    c = importlib.import_module('checks.' + pid.lower()).CHECK
    checks.append({
        'property_id': pid,
        'quick_cmd': 'bin/check %s --tier quick' % pid,
        'thorough_cmd': 'bin/check %s --tier thorough' % pid,
        'evidence_file': 'evidence/%s.json' % pid,
        'replay_cmd_template': 'bin/check %s --replay {path}' % pid,
        'engine': 'vlib',
        'level_claimed': {'category': c.level, 'text': c.level_text, 'design_ref': c.design_ref},
        'level_note': c.level_note,
        'technique': c.technique,
    })
m = {
    'version': 1,
    'setup_cmd': 'bin/setup',
    'hooks': {
        'guard': 'USIM_VERIF',
        'enable': 'no source hooks: the harness wraps Loop._run_coroutine/Loop.schedule at run time in its own '
                  'process (vlib/probe.py); bin/check exports USIM_VERIF=1 for uniformity only',
        'baseline_off_cmd': BASELINE,
        'source_commits': [],
        'add_only': True,
    },
    'engines': [{'name': 'vlib', 'path': 'vlib/', 'serves_properties': [c['property_id'] for c in checks],
                 'kind_free_text': 'Hypothesis-driven program/history generators + DSL interpreter on the real '
                                   'usim + activation probe with boundary fault injection + reference models; '
                                   'collect-then-shrink runner'}],
    'checks': checks,
    'not_applicable': na,
    'notes': 'All checks run the working tree at $USIM_REPO (default /repo) in a fresh interpreter; '
             'exit 0 held / 1 VIOLATION / 2 harness error or inconclusive. known_findings.json lists genuine defects.',
}
json.dump(m, open(os.path.join(ROOT, 'MANIFEST.json'), 'w'), indent=1)
print('checks:', [c['property_id'] for c in checks], 'n/a:', [n['property_id'] for n in na])
