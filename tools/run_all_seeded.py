#!/usr/bin/env python3
"""Run every seeded change (seeded/<name>/patch[_current].diff) against the quick check of the property
it breaks (scratch copy of /repo, removed afterwards); record the verdict in meta.json and print a table.

A change that is not caught is re-examined with its own demonstration program on the *current* tree: if the
demo passes with the change applied, a later `fix:` commit has made the kernel robust against that change (it no
longer breaks the property) - the verdict is NEUTRALISED, not MISSED."""
import json, os, shutil, signal, subprocess, sys, tempfile
ROOT = os.path.dirname(os.path.dirname(os.path.abspath(__file__)))
names = sorted(os.listdir(os.path.join(ROOT, 'seeded')))
only = sys.argv[1:]
rows = []


def demo_still_fails(d):
    """apply the change to a scratch copy of /repo's working tree and run its demo: True / False / None (no verdict)"""
    patch = os.path.join(d, 'patch_current.diff')
    if not os.path.exists(patch):
        patch = os.path.join(d, 'patch.diff')
    scr = tempfile.mkdtemp(prefix='usim_seed_demo.')
    try:
        files = subprocess.run(['git', '-C', '/repo', 'ls-files', '-z'], capture_output=True).stdout.split(b'\0')
        for f in files:
            if f:
                dst = os.path.join(scr, f.decode())
                os.makedirs(os.path.dirname(dst), exist_ok=True)
                shutil.copy2(os.path.join('/repo', f.decode()), dst)
        if subprocess.run(['patch', '-p1', '-s', '-i', patch], cwd=scr, capture_output=True).returncode != 0:
            return None
        r = subprocess.run(['/venv/bin/python', os.path.join(d, 'demo.py')], cwd=scr, capture_output=True, timeout=300,
                           env=dict(os.environ, PYTHONPATH=scr))
        return {0: False, 1: True}.get(r.returncode)
    except Exception:       # noqa
        return None
    finally:
        shutil.rmtree(scr, ignore_errors=True)


for n in names:
    if only and n not in only:
        continue
    d = os.path.join(ROOT, 'seeded', n)
    meta = json.load(open(os.path.join(d, 'meta.json')))
    prop = meta['property']
    out = ''
    for attempt in (1, 2):      # (a change that makes threads deadlock can stall a run: try once more, then give up)
        proc = subprocess.Popen([os.path.join(ROOT, 'tools', 'run_seeded.sh'), n, prop], stdout=subprocess.PIPE,
                                stderr=subprocess.DEVNULL, text=True, start_new_session=True)
        try:
            out = proc.communicate(timeout=900)[0]
            break
        except subprocess.TimeoutExpired:
            os.killpg(proc.pid, signal.SIGKILL)
            proc.communicate()
            for dname in os.listdir('/tmp'):
                if dname.startswith('usim_mut.'):
                    shutil.rmtree(os.path.join('/tmp', dname), ignore_errors=True)
            out = 'timeout'
    caught = 'exit=1' in out and 'VIOLATION' in out
    sigs = sorted({l.split('sig=')[1].split()[0] for l in out.splitlines() if 'sig=' in l})[:6]
    verdict = 'CAUGHT' if caught else ('PATCH-FAILED' if 'patch failed' in out else 'MISSED')
    import re
    hits = sum(int(x) for x in re.findall(r'sig=\S+ count=(\d+)', out))      # failing cases of the quick run (all signatures)
    meta['detected_by'] = {'check': prop, 'tier': 'quick', 'caught': caught, 'signatures': sigs, 'failing_cases': hits,
                           'command': 'tools/run_seeded.sh %s %s' % (n, prop)}
    if not caught and meta.get('cross_checks'):
        # the change needs a history that lies outside the quantification of its own property's check (several
        # simulations sharing an object, another feature): try the checks that cover such histories
        for other in meta['cross_checks']:
            o2 = subprocess.run([os.path.join(ROOT, 'tools', 'run_seeded.sh'), n, other], capture_output=True, text=True, timeout=1800).stdout
            if 'exit=1' in o2 and 'VIOLATION' in o2:
                caught = True
                verdict = 'CAUGHT'
                sigs = ['%s:%s' % (other, x) for x in sorted({l.split('sig=')[1].split()[0] for l in o2.splitlines() if 'sig=' in l})[:5]]
                meta['detected_by'] = {'check': other, 'tier': 'quick', 'caught': True, 'signatures': sigs, 'own_check_missed': prop,
                                       'command': 'tools/run_seeded.sh %s %s' % (n, other)}
                break
    if not caught and 'patch failed' not in out and demo_still_fails(d) is False:
        verdict = 'NEUTRALISED'
        head = subprocess.run(['git', '-C', '/repo', 'log', '--format=%h', '-1'], capture_output=True, text=True).stdout.strip()
        meta['detected_by']['neutralised'] = ('with this change applied to the current tree (%s) its own demonstration passes: a later '
                                              'fix: commit made usim robust against it, it no longer breaks the property' % head)
    json.dump(meta, open(os.path.join(d, 'meta.json'), 'w'), indent=1)
    rows.append((n, prop, verdict, sigs))
    print('%-8s %s %-11s %5s  %s' % (n, prop, verdict, meta['detected_by'].get('failing_cases', ''), ', '.join(sigs)), flush=True)
print('caught %d of %d still valid (%d neutralised by later fixes)' % (
    sum(1 for r in rows if r[2] == 'CAUGHT'), sum(1 for r in rows if r[2] != 'NEUTRALISED'), sum(1 for r in rows if r[2] == 'NEUTRALISED')))
