#!/usr/bin/env python3
"""Run every seeded change (seeded/<name>/patch[_current].diff) against the quick check of the property
it breaks (scratch copy of /repo, removed afterwards); record the verdict in meta.json and print a table."""
import json, os, subprocess, sys
ROOT = os.path.dirname(os.path.dirname(os.path.abspath(__file__)))
names = sorted(os.listdir(os.path.join(ROOT, 'seeded')))
only = sys.argv[1:]
rows = []
for n in names:
    if only and n not in only:
        continue
    d = os.path.join(ROOT, 'seeded', n)
    meta = json.load(open(os.path.join(d, 'meta.json')))
    prop = meta['property']
    r = subprocess.run([os.path.join(ROOT, 'tools', 'run_seeded.sh'), n, prop], capture_output=True, text=True, timeout=1800)
    out = r.stdout
    caught = 'exit=1' in out and 'VIOLATION' in out
    sigs = sorted({l.split('sig=')[1].split()[0] for l in out.splitlines() if 'sig=' in l})[:6]
    meta['detected_by'] = {'check': prop, 'tier': 'quick', 'caught': caught, 'signatures': sigs,
                           'command': 'tools/run_seeded.sh %s %s' % (n, prop)}
    json.dump(meta, open(os.path.join(d, 'meta.json'), 'w'), indent=1)
    rows.append((n, prop, caught, sigs))
    print('%-8s %s %-5s %s' % (n, prop, 'CAUGHT' if caught else 'MISSED', ', '.join(sigs)), flush=True)
print('caught %d of %d' % (sum(1 for r in rows if r[2]), len(rows)))
