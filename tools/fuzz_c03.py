#!/usr/bin/env python3
"""Coverage-guided driving of the C03 property: atheris (libFuzzer) steers the *same* Hypothesis
strategy through `fuzz_one_input`, with usim's own branches instrumented.

usage: bin/py tools/fuzz_c03.py <outdir> -runs=N -seed=S [corpus dirs...]
A failing case (not matching an open known finding) is written to <outdir>/fail_<sha>.json and the
process aborts (libFuzzer stops at the first failure); the C03 check turns that file into a replay.
"""
import json
import os
import sys

sys.path.insert(0, os.path.dirname(os.path.dirname(os.path.abspath(__file__))))
import atheris  # noqa: E402

with atheris.instrument_imports(include=['usim']):
    import usim  # noqa: F401,E402

from hypothesis import given, settings, HealthCheck  # noqa: E402
from vlib import runner  # noqa: E402
from checks import c03  # noqa: E402

outdir = sys.argv[1]
argv = [sys.argv[0]] + sys.argv[2:]
os.makedirs(outdir, exist_ok=True)
findings = runner.load_findings('C03')
stats = {'cases': 0, 'evals': 0}


def _dump():
    with open(os.path.join(outdir, 'stats.json'), 'w') as fh:
        json.dump(stats, fh)


@settings(database=None, deadline=None, suppress_health_check=list(HealthCheck))
@given(c03.cases('quick'))
def prop(case):
    out = c03.CHECK.run_case(case, 'quick')
    stats['cases'] += 1
    stats['evals'] += out.evals
    if stats['cases'] % 25 == 0:
        _dump()
    bad = [f for f in out.failures if runner.match_finding(f, findings) is None]
    if bad:
        path = os.path.join(outdir, 'fail_%s.json' % runner.sha(case)[:12])
        with open(path, 'w') as fh:
            json.dump({'property': 'C03', 'failure': bad[0].as_dict(), 'case': case, 'note': 'found by atheris'}, fh)
        raise AssertionError('C03 violated: %s/%s' % bad[0].key())


def one(data):
    prop.hypothesis.fuzz_one_input(data)


atheris.Setup(argv, one)
try:
    atheris.Fuzz()
finally:
    _dump()
