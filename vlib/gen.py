"""Shared Hypothesis strategies: scope trees (C03, C04, C05, C07)."""
from hypothesis import strategies as st

SLEEPS = [0, 0, 0.5, 1, 1, 2, 3]
EXC = ['E', 'L', 'K', 'I', 'V', 'R']
PRIV = ['A', 'KI', 'SE']


class Namer:
    def __init__(self):
        self.n = 0
        self.e = 0
        self.b = 0

    def act(self):
        self.n += 1
        return 'a%d' % self.n

    def eid(self):
        self.e += 1
        return self.e

    def blk(self):
        self.b += 1
        return 'B%d' % self.b


@st.composite
def scope_programs(draw, tier, fail=2, volatile=2, until=3, late_spawn=2, priv=1, flags=True,
                   finally_spawn=1, nocatch=0, uncaught_blocks=0):
    """A program whose roots own trees of nested Scope/until blocks.

    Weights (0..10) steer how often failures / volatile children / until-blocks / late spawns occur.
    Returns {'prog':..., 'targets': [task names]}.
    """
    big = tier == 'thorough'
    nm = Namer()
    maxdepth = 3 if big else 2
    nflags = 2 if flags else 0
    targets = []
    sl = lambda: {'op': 'sleep', 'd': draw(st.sampled_from(SLEEPS))}  # noqa

    def w(weight):
        return draw(st.integers(0, 9)) < weight

    def raise_step():
        cls = draw(st.sampled_from(PRIV)) if w(priv) else draw(st.sampled_from(EXC))
        return {'op': 'raise', 'eid': nm.eid(), 'cls': cls}

    def activity_steps(depth, scope_chain, may_fail=True):
        out = []
        for _ in range(draw(st.integers(0, 4))):
            r = draw(st.integers(0, 19))
            if r < 9:
                out.append(sl())
            elif r < 11:
                out.append({'op': 'instant'})
            elif r < 14 and depth < maxdepth:
                out.append(block(depth + 1, scope_chain))
            elif r < 15 and scope_chain and w(late_spawn * 3):
                ref = draw(st.sampled_from(scope_chain))
                cn = nm.act()
                targets.append(cn)
                out.append({'op': 'spawn_into', 'ref': ref,
                            'child': {'name': cn, 'steps': [sl() for _ in range(draw(st.integers(0, 2)))]}})
            elif r < 16 and scope_chain and w(late_spawn * 3):
                out.append({'op': 'await_scope', 'ref': scope_chain[-1]})
                # graceful shutdown work, possibly spawning a sibling during shutdown
                if draw(st.booleans()):
                    cn = nm.act()
                    targets.append(cn)
                    out.append({'op': 'spawn_into', 'ref': scope_chain[-1],
                                'child': {'name': cn, 'steps': [sl(), sl()]}})
                out.append(sl())
            elif r < 17 and scope_chain and w(finally_spawn * 3):
                cn = nm.act()
                out.append({'op': 'finally', 'body': [sl(), sl()],
                            'final': [{'op': 'spawn_into', 'ref': draw(st.sampled_from(scope_chain)),
                                       'child': {'name': cn, 'steps': [sl(), {'op': 'mark', 'v': 'late'}, sl()]}}]})
            elif r < 18 and nflags:
                out.append({'op': 'set_flag', 'i': draw(st.integers(0, nflags - 1)), 'v': True})
            else:
                out.append(sl())
        if may_fail and w(fail):
            out.append(raise_step())
        return out

    def block(depth, scope_chain):
        name = nm.blk()
        chain = scope_chain + [name]
        blk = {'op': 'scope', 'name': name, 'catch': not (depth > 0 and w(uncaught_blocks)),
               'children': [], 'body': []}
        if w(until):
            blk['op'] = 'until'
            k = draw(st.integers(0, 9))
            if k < 6 or not nflags:
                blk['notif'] = ['delay', draw(st.sampled_from([0.5, 1, 1, 2, 3, 4]))]
            elif k < 9:
                blk['notif'] = ['flag', draw(st.integers(0, nflags - 1))]
            else:
                blk['notif'] = ['time_ge', 'T+%s' % draw(st.sampled_from([1, 2, 3]))]
        for _ in range(draw(st.integers(0, 4 if big else 3))):
            cn = nm.act()
            targets.append(cn)
            ch = {'name': cn}
            vol = w(volatile)
            ch['steps'] = activity_steps(depth, chain)
            if vol:
                ch['volatile'] = True
                if draw(st.booleans()):
                    ch['steps'].append({'op': 'eternity'} if draw(st.booleans()) else {'op': 'sleep', 'd': 50})
            m = draw(st.integers(0, 5))
            if m == 0:
                ch['after'] = draw(st.sampled_from([0, 0.5, 1, 2]))
            blk['children'].append(ch)
        if nocatch and len(blk['children']) >= 1 and w(nocatch):
            cn = nm.act()
            targets.append(cn)
            ref = draw(st.sampled_from([c['name'] for c in blk['children']]))
            blk['children'].append({'name': cn, 'steps': [sl(), {'op': 'await_task', 'ref': ref, 'nocatch': True}, sl()]})
        blk['body'] = activity_steps(depth, chain)
        if blk['op'] == 'until' and draw(st.integers(0, 3)) == 0:
            blk['body'].append({'op': 'eternity'})
        return blk

    roots = []
    nroots = draw(st.integers(1, 2))
    for _ in range(nroots):
        rn = nm.act()
        steps = [sl()] if draw(st.booleans()) else []
        b = block(0, [])
        steps.append(b)
        # the owner keeps running for a while; tries to spawn into the ended scope
        steps.append(sl())
        if w(5):
            cn = nm.act()
            steps.append({'op': 'spawn_into', 'ref': b['name'],
                          'child': {'name': cn, 'steps': [{'op': 'mark', 'v': 'zombie'}, sl()]}})
        steps += [sl(), sl()]
        roots.append({'name': rn, 'steps': steps})
    if nflags:
        # controller: sets flags at some date, in a late round of that time step
        ctl = [{'op': 'at_eq', 't': draw(st.sampled_from([0.5, 1, 2, 3]))}]
        ctl += [{'op': 'instant'} for _ in range(draw(st.integers(0, 3)))]
        ctl.append({'op': 'set_flag', 'i': 0, 'v': True})
        ctl += [{'op': 'sleep', 'd': draw(st.sampled_from([0.5, 1, 2]))},
                {'op': 'set_flag', 'i': 1, 'v': True}]
        roots.append({'name': 'ctl', 'steps': ctl})
    prog = {'start': 0, 'objs': {'flags': nflags}, 'roots': roots}
    _resolve_dates(prog)
    return {'prog': prog, 'targets': targets}


def _resolve_dates(prog):
    """'T+d' placeholders of until(time >= ...) become absolute dates in the future of the
    whole program start (always > start so that the notification is not already true:
    the already-true case belongs to C07 / finding D1)."""
    def walk(steps):
        for s in steps:
            if s.get('op') == 'until' and s['notif'][0] == 'time_ge' and isinstance(s['notif'][1], str):
                s['notif'] = ['time_ge', 20 + float(s['notif'][1][2:])]
            for ch in s.get('children', ()) or ():
                walk(ch['steps'])
            if 'child' in s:
                walk(s['child']['steps'])
            walk(s.get('body', ()) or ())
            for f in s.get('final', ()) or ():
                if 'child' in f:
                    walk(f['child']['steps'])
    for r in prog['roots']:
        walk(r['steps'])


def fault_strategy(targets, n=4, maxk=120):
    if not targets:
        return st.just([])
    return st.lists(st.fixed_dictionaries({'k': st.integers(0, maxk), 'target': st.sampled_from(targets),
                                           'token': st.just([100])}), min_size=0, max_size=n)
