"""Shared Hypothesis strategies: scope trees (C03, C04, C05, C07)."""
from hypothesis import strategies as st

SLEEPS = [0, 0, 0.5, 1, 1, 2, 3]
EXC = ['E', 'L', 'K', 'I', 'V', 'R', 'Q', 'Q', 'F']      # ('Q': distinct failures that compare equal; 'F': a falsy one)
PRIV = ['A', 'KI', 'SE', 'A', 'A2', 'KI2', 'SE2', 'A0']     # (derived classes count as privileged, too; 'A0' is falsy)


class Namer:
    def __init__(self):
        self.n = 0
        self.e = 0
        self.b = 0

    def act(self):
        self.n += 1
        return 'a%d' % self.n

    def eid(self):
        self.e += 1
        return self.e

    def blk(self):
        self.b += 1
        return 'B%d' % self.b


@st.composite
def scope_programs(draw, tier, fail=2, volatile=2, until=3, late_spawn=2, priv=1, flags=True,
                   finally_spawn=1, nocatch=0, uncaught_blocks=0, finally_raise=0, sync=0, near_dates=0, catch_priv=0):
    """A program whose roots own trees of nested Scope/until blocks.

    Weights (0..10) steer how often failures / volatile children / until-blocks / late spawns occur.
    Returns {'prog':..., 'targets': [task names]}.
    """
    big = tier == 'thorough'
    nm = Namer()
    maxdepth = 3 if big else 2
    nflags = 2 if flags else 0
    targets = []
    sl = lambda: {'op': 'sleep', 'd': draw(st.sampled_from(SLEEPS))}  # noqa

    def w(weight):
        return draw(st.integers(0, 9)) < weight

    def raise_step():
        cls = draw(st.sampled_from(PRIV)) if w(priv) else draw(st.sampled_from(EXC))
        return {'op': 'raise', 'eid': nm.eid(), 'cls': cls}

    def activity_steps(depth, scope_chain, may_fail=True, toplevel=False):
        out = []
        for _ in range(draw(st.integers(0, 4))):
            r = draw(st.integers(0, 19))
            if r < 9:
                out.append(sl())
            elif r < 11:
                out.append({'op': 'instant'})
            elif r < 14 and depth < maxdepth:
                out.append(block(depth + 1, scope_chain))
            elif r < 15 and scope_chain and toplevel and draw(st.integers(0, 3)) == 0:
                # a child that was handed its scope tries to enter it a second time: refused, nothing else changes
                out.append({'op': 'reenter', 'ref': draw(st.sampled_from(scope_chain))})
            elif r < 15 and scope_chain and w(late_spawn * 3):
                ref = draw(st.sampled_from(scope_chain))
                cn = nm.act()
                targets.append(cn)
                out.append({'op': 'spawn_into', 'ref': ref,
                            'child': {'name': cn, 'steps': [sl() for _ in range(draw(st.integers(0, 2)))]}})
                if draw(st.integers(0, 2)) == 0:
                    # ... and is cancelled by its creator at once, before its first turn
                    out.append({'op': 'cancel', 'ref': cn, 'token': [5]})
            elif r < 16 and scope_chain and w(late_spawn * 3):
                out.append({'op': 'await_scope', 'ref': scope_chain[-1]})
                # graceful shutdown work, possibly spawning a sibling during shutdown
                if draw(st.booleans()):
                    cn = nm.act()
                    targets.append(cn)
                    out.append({'op': 'spawn_into', 'ref': scope_chain[-1],
                                'child': {'name': cn, 'steps': [sl(), sl()]}})
                out.append(sl())
            elif r < 17 and scope_chain and w(finally_spawn * 3):
                cn = nm.act()
                out.append({'op': 'finally', 'body': [sl(), sl()],
                            'final': [{'op': 'spawn_into', 'ref': draw(st.sampled_from(scope_chain)),
                                       'child': {'name': cn, 'steps': [sl(), {'op': 'mark', 'v': 'late'}, sl()]}}]})
            elif r < 18 and finally_raise and toplevel and w(finally_raise * 3):
                # clean-up code that fails - also when the activity is closed by its scope
                out.append({'op': 'finally', 'body': [sl(), sl()],
                            'final': [{'op': 'raise', 'eid': nm.eid(), 'cls': draw(st.sampled_from(PRIV)) if w(priv) else draw(st.sampled_from(EXC))}]})
            elif r < 18 and sync and w(sync * 3):
                # the activity holds a lock / waits for a queue item when its scope is torn down
                k2 = draw(st.integers(0, 2))
                if k2 == 0:
                    out.append({'op': 'lock', 'i': 0, 'body': [sl(), sl()]})
                elif k2 == 1:
                    out.append({'op': 'qget', 's': 0})
                else:
                    out.append({'op': 'qput', 's': 0, 'v': draw(st.integers(0, 9))})
            elif r < 18 and nflags:
                out.append({'op': 'set_flag', 'i': draw(st.integers(0, nflags - 1)), 'v': True})
            else:
                out.append(sl())
        if may_fail and w(fail):
            out.append(raise_step())
        return out

    def block(depth, scope_chain):
        name = nm.blk()
        chain = scope_chain + [name]
        blk = {'op': 'scope', 'name': name, 'catch': not (depth > 0 and w(uncaught_blocks)),
               'children': [], 'body': []}
        if w(until):
            blk['op'] = 'until'
            k = draw(st.integers(0, 9))
            if near_dates and w(near_dates * 2):
                # a date on the grid of the program's own waits: failures and the notification can tie
                blk['notif'] = [draw(st.sampled_from(['time_eq', 'time_eq', 'time_ge'])), draw(st.sampled_from([0.5, 1, 2, 3, 4]))]
            elif k < 6 or not nflags:
                blk['notif'] = ['delay', draw(st.sampled_from([0.5, 1, 1, 2, 3, 4]))]
            elif k < 8:
                blk['notif'] = ['flag', draw(st.integers(0, nflags - 1))]
            elif k < 9:
                blk['notif'] = ['time_ge', 'T+%s' % draw(st.sampled_from([1, 2, 3]))]
            else:
                # notifications that never fire (a passed moment, eternity) or hold already on entry
                blk['notif'] = draw(st.sampled_from([['time_eq', -1], ['eternity'], ['time_eq', -1], ['eternity'],
                                                     ['time_ge', -1], ['time_lt', 1000], ['instant']]))
        for _ in range(draw(st.integers(0, 4 if big else 3))):
            cn = nm.act()
            targets.append(cn)
            ch = {'name': cn}
            vol = w(volatile)
            ch['steps'] = activity_steps(depth, chain, toplevel=True)
            if vol:
                ch['volatile'] = True
                if draw(st.booleans()):
                    ch['steps'].append({'op': 'eternity'} if draw(st.booleans()) else {'op': 'sleep', 'd': 50})
            m = draw(st.integers(0, 5))
            if m == 0:
                ch['after'] = draw(st.sampled_from([0, 0.5, 1, 2]))
            blk['children'].append(ch)
        if nocatch and len(blk['children']) >= 1 and w(nocatch):
            cn = nm.act()
            targets.append(cn)
            ref = draw(st.sampled_from([c['name'] for c in blk['children']]))
            blk['children'].append({'name': cn, 'steps': [sl(), {'op': 'await_task', 'ref': ref, 'nocatch': True}, sl()]})
        blk['body'] = activity_steps(depth, chain)
        if blk['op'] == 'until' and draw(st.integers(0, 3)) == 0:
            blk['body'].append({'op': 'eternity'})
        return blk

    roots = []
    nroots = draw(st.integers(1, 2))
    for _ in range(nroots):
        rn = nm.act()
        steps = [sl()] if draw(st.booleans()) else []
        b = block(0, [])
        steps.append(b)
        if catch_priv and w(catch_priv):
            # the root handles a privileged failure of its block as well (nothing encloses a root's block, so no abort
            # signal can have been replaced by it) and goes on with another block: a signal left behind shows there
            b['catch_priv'] = True
            steps.append({'op': 'scope', 'name': nm.blk(), 'catch': True, 'children': [{'name': nm.act(), 'steps': [sl()]}],
                          'body': [sl(), {'op': 'instant'}]})
        # the owner keeps running for a while; tries to spawn into the ended scope
        steps.append(sl())
        if w(5):
            cn = nm.act()
            steps.append({'op': 'spawn_into', 'ref': b['name'],
                          'child': {'name': cn, 'steps': [{'op': 'mark', 'v': 'zombie'}, sl()]}})
        steps += [sl(), sl()]
        roots.append({'name': rn, 'steps': steps})
    if nflags:
        # controller: sets flags at some date, in a late round of that time step
        ctl = [{'op': 'at_eq', 't': draw(st.sampled_from([0.5, 1, 2, 3]))}]
        ctl += [{'op': 'instant'} for _ in range(draw(st.integers(0, 3)))]
        ctl.append({'op': 'set_flag', 'i': 0, 'v': True})
        ctl += [{'op': 'sleep', 'd': draw(st.sampled_from([0.5, 1, 2]))},
                {'op': 'set_flag', 'i': 1, 'v': True}]
        roots.append({'name': 'ctl', 'steps': ctl})
    prog = {'start': 0, 'objs': {'flags': nflags, 'locks': 1, 'queues': 1}, 'roots': roots}
    _resolve_dates(prog)
    return {'prog': prog, 'targets': targets}


def _resolve_dates(prog):
    """'T+d' placeholders of until(time >= ...) become absolute dates in the future of the
    whole program start (always > start so that the notification is not already true:
    the already-true case belongs to C07 / finding D1)."""
    def walk(steps):
        for s in steps:
            if s.get('op') == 'until' and s['notif'][0] == 'time_ge' and isinstance(s['notif'][1], str):
                s['notif'] = ['time_ge', 20 + float(s['notif'][1][2:])]
            for ch in s.get('children', ()) or ():
                walk(ch['steps'])
            if 'child' in s:
                walk(s['child']['steps'])
            walk(s.get('body', ()) or ())
            for f in s.get('final', ()) or ():
                if 'child' in f:
                    walk(f['child']['steps'])
    for r in prog['roots']:
        walk(r['steps'])


def fault_strategy(targets, n=4, maxk=120):
    if not targets:
        return st.just([])
    return st.lists(st.fixed_dictionaries({'k': st.integers(0, maxk), 'target': st.sampled_from(targets),
                                           'token': st.just([100])}), min_size=0, max_size=n)


# ---------------------------------------------------------------------------
@st.composite
def whole_programs(draw, tier, first_failures=False, size=None):
    """Valid programs over the whole public API (C02, C03): timers, flags, tracked values,
    locks, queues, channels, resources, pipes, tickers, scopes/until, cancellations,
    collect/first.  Biased to many activities becoming runnable in one time step through
    different mechanisms and to signals racing each other."""
    big = tier == 'thorough'
    nm = Namer()
    maxdepth = 2
    T = [0, 0, 0.5, 1, 1, 2]                      # few distinct dates: collisions are the norm
    sl = lambda: {'op': 'sleep', 'd': draw(st.sampled_from(T))}  # noqa
    objs = {'flags': 3, 'tracked': [0, 1], 'locks': 2, 'queues': 2, 'channels': 1,
            'resources': [{'kind': draw(st.sampled_from(['cap', 'res'])), 'name': 'R', 'levels': {'a': 3, 'b': 2}}],
            'pipes': [{'thr': 2}, {'unbounded': True}]}
    resk = objs['resources'][0]['kind']
    item = [0]
    targets = []

    def cond(depth=0):
        k = draw(st.integers(0, 9))
        if k < 3:
            return ['flag', draw(st.integers(0, 2))]
        if k < 4:
            return ['not', ['flag', draw(st.integers(0, 2))]]
        if k < 6:
            return ['tcmp', draw(st.integers(0, 1)), draw(st.sampled_from(['<', '<=', '==', '!=', '>=', '>'])), draw(st.integers(0, 3))]
        if k < 7:
            return [draw(st.sampled_from(['time_ge', 'time_eq'])), draw(st.sampled_from([0, 1, 2, 3]))]
        if k < 8:
            return ['rcmp', 'R', '>=', {'a': draw(st.integers(0, 3))}]
        if depth < 2:
            return [draw(st.sampled_from(['and', 'or'])), cond(depth + 1), cond(depth + 1)]
        return ['instant']

    def notif():
        if draw(st.integers(0, 2)) == 0:
            return ['delay', draw(st.sampled_from([0, 0.5, 1, 1, 2, 3]))]
        return cond()

    def simple_act(fail_ok=True):
        steps = [sl() for _ in range(draw(st.integers(0, 2)))]
        if fail_ok and draw(st.integers(0, 3)) == 0:
            steps.append({'op': 'raise', 'eid': nm.eid(), 'cls': draw(st.sampled_from(EXC))})
        else:
            steps.append({'op': 'return', 'v': draw(st.integers(0, 9))})
        return {'name': nm.act(), 'steps': steps}

    def step(depth, siblings, chain):
        r = draw(st.integers(0, 39))
        if r < 6:
            return sl()
        if r < 8:
            return {'op': 'instant'}
        if r < 9:
            return {'op': draw(st.sampled_from(['at_ge', 'at_eq'])), 't': draw(st.sampled_from([0, 1, 2, 3]))}
        if r < 12:
            return {'op': 'set_flag', 'i': draw(st.integers(0, 2)), 'v': draw(st.booleans())}
        if r < 14:
            return {'op': draw(st.sampled_from(['tset', 'tadd'])), 'i': draw(st.integers(0, 1)), 'v': draw(st.integers(0, 3))}
        if r < 17:
            return {'op': 'await', 'e': cond()}
        if r < 19:
            li = draw(st.integers(0, 1))
            if draw(st.integers(0, 2)) == 0:
                # the holder runs a short-lived scope whose child asks for the very same lock and is closed
                # by the holder when the scope ends
                cn = nm.act()
                targets.append(cn)
                return {'op': 'lock', 'i': li, 'body': [
                    {'op': 'until', 'name': nm.blk(), 'notif': ['delay', draw(st.sampled_from([0.5, 1]))], 'catch': True,
                     'children': [{'name': cn, 'steps': [{'op': 'lock', 'i': li, 'body': [sl()]}]}],
                     'body': [{'op': 'sleep', 'd': draw(st.sampled_from([0, 0.5, 1, 2]))}]}, sl()]}
            return {'op': 'lock', 'i': li, 'body': body(depth + 1, siblings, chain, 2)}
        if r < 20:
            return {'op': 'avail', 'i': draw(st.integers(0, 1))}
        if r < 22:
            item[0] += 1
            return {'op': draw(st.sampled_from(['qput', 'qput', 'cput'])), 's': 0, 'v': item[0]}
        if r < 24:
            return {'op': draw(st.sampled_from(['qget', 'qget', 'cget'])), 's': 0}
        if r < 25:
            return {'op': draw(st.sampled_from(['qiter', 'citer'])), 's': 0, 'n': draw(st.sampled_from([1, 2, None])),
                    'gap': draw(st.sampled_from([None, 0.5]))}
        if r < 26:
            return {'op': draw(st.sampled_from(['qclose', 'cclose'])), 's': 0}
        if r < 29:
            return {'op': draw(st.sampled_from(['borrow', 'borrow', 'claim'])), 'r': 'R',
                    'amounts': {'a': draw(st.integers(0, 3)), 'b': draw(st.integers(0, 2))},
                    'body': body(depth + 1, siblings, chain, 2)}
        if r < 30 and resk == 'res':
            return {'op': draw(st.sampled_from(['increase', 'decrease'])), 'r': 'R', 'amounts': {'a': draw(st.integers(0, 2))}}
        if r < 31:
            return {'op': 'transfer', 'p': draw(st.integers(0, 1)), 'total': draw(st.sampled_from([0, 1, 2, 4])),
                    'thr': draw(st.sampled_from([None, 1, 2, 4]))}
        if r < 32:
            return {'op': draw(st.sampled_from(['interval', 'delay'])), 'p': draw(st.sampled_from([0, 0.5, 1])),
                    'durs': [draw(st.sampled_from([None, 0, 0.5, 1])) for _ in range(draw(st.integers(0, 3)))]}
        if r < 34 and siblings:
            return {'op': 'cancel', 'ref': draw(st.sampled_from(siblings)), 'token': [draw(st.integers(0, 3))]}
        if r < 35 and siblings:
            return {'op': draw(st.sampled_from(['await_task', 'await_done'])), 'ref': draw(st.sampled_from(siblings))}
        if r < 36 and chain:
            cn = nm.act()
            targets.append(cn)
            return {'op': 'spawn_into', 'ref': draw(st.sampled_from(chain)),
                    'child': {'name': cn, 'steps': [sl() for _ in range(draw(st.integers(0, 2)))]}}
        if r < 37:
            acts = [simple_act() for _ in range(draw(st.integers(0, 3)))]
            return {'op': 'collect', 'acts': acts}
        if r < 38:
            acts = [simple_act(fail_ok=first_failures) for _ in range(draw(st.integers(0, 3)))]
            st_ = {'op': 'first', 'acts': acts, 'count': draw(st.sampled_from([None, 0, 1, 1, 2]))}
            if draw(st.booleans()):
                st_['gap'] = draw(st.sampled_from([0.5, 1]))
            return st_
        if r < 39 and draw(st.integers(0, 2)) == 0:
            return {'op': 'raise', 'eid': nm.eid(), 'cls': draw(st.sampled_from(EXC + ['A']))}
        if depth < maxdepth:
            return block(depth + 1, chain)
        return sl()

    def body(depth, siblings, chain, maxlen):
        return [step(depth, siblings, chain) for _ in range(draw(st.integers(0, maxlen)))]

    def block(depth, chain):
        name = nm.blk()
        blk = {'op': 'scope', 'name': name, 'catch': draw(st.integers(0, 3)) > 0, 'children': [], 'body': []}
        if draw(st.integers(0, 2)) == 0:
            blk['op'], blk['notif'] = 'until', notif()
        kids = [nm.act() for _ in range(draw(st.integers(0, 3)))]
        targets.extend(kids)
        for cn in kids:
            ch = {'name': cn, 'steps': body(depth, [k for k in kids if k != cn], chain + [name], 4)}
            if draw(st.integers(0, 5)) == 0:
                ch['volatile'] = True
            if draw(st.integers(0, 5)) == 0:
                ch['after'] = draw(st.sampled_from([0, 0.5, 1]))
            blk['children'].append(ch)
        blk['body'] = body(depth, kids, chain + [name], 3)
        return blk

    nroots = draw(st.integers(2, 4 if big else 3)) if size is None else size
    roots = []
    for _ in range(nroots):
        rn = nm.act()
        steps = []
        for _ in range(draw(st.integers(1, 4))):
            steps.append(block(0, []) if draw(st.integers(0, 2)) == 0 else step(0, [], []))
        roots.append({'name': rn, 'steps': steps})
    prog = {'start': draw(st.sampled_from([0, 0, 0, -1])), 'objs': objs, 'roots': roots}
    if draw(st.integers(0, 5)) == 0:
        prog['till'] = draw(st.sampled_from([0 if prog['start'] == 0 else 1, 1, 2, 5]))
    return {'prog': prog, 'targets': targets}


# ---------------------------------------------------------------------------
def ctl_variants(prog, it, max_rounds=5, limit=120):
    """Systematic placement of the notification of every `until(flag 0)` in `prog`: the controller root
    'ctl' ([at_eq t, instant * n, set_flag 0]) is rewritten for every date t at which the baseline run `it`
    logged something and every round n of that time step - an until-interrupt / forceful close landing in
    (nearly) every turn of the run.  Yields modified copies of the program."""
    import copy
    times = sorted({e[4] for e in it.log if e[0] <= it.end_seq and e[4] is not None})
    roots = [r['name'] for r in prog['roots']]
    if 'ctl' not in roots:
        return
    count = 0
    for t in times:
        for n in range(max_rounds + 1):
            if count >= limit:
                return
            q = copy.deepcopy(prog)
            for r in q['roots']:
                if r['name'] == 'ctl':
                    r['steps'] = [{'op': 'at_eq', 't': t}] + [{'op': 'instant'} for _ in range(n)] + \
                                 [{'op': 'set_flag', 'i': 0, 'v': True}]
            count += 1
            yield q
