"""Tiers, sharding, collect-then-shrink, replay, known findings, evidence."""
import hashlib
import json
import multiprocessing as mp
import os
import re
import sys
import time as _time
import traceback
from collections import Counter

ROOT = os.path.dirname(os.path.dirname(os.path.abspath(__file__)))


class InvalidCase(Exception):
    """The case is not a valid input for this check (only arises while shrinking)."""


class Failure:
    __slots__ = ('oracle', 'sig', 'msg')

    def __init__(self, oracle, sig, msg=''):
        self.oracle, self.sig, self.msg = oracle, sig, msg

    def key(self):
        return (self.oracle, self.sig)

    def as_dict(self):
        return {'oracle': self.oracle, 'sig': self.sig, 'msg': self.msg[:2000]}


class Outcome:
    __slots__ = ('failures', 'features', 'nontrivial', 'evals', 'excluded', 'nt_keys')

    def __init__(self):
        self.failures = []
        self.features = set()
        self.nontrivial = False
        self.evals = 0
        self.excluded = 0
        self.nt_keys = set()   # optional finer identity of non-trivial executions within the case

    def fail(self, oracle, sig, msg=''):
        self.failures.append(Failure(oracle, sig, msg))


class Check:
    """Base class; one subclass instance per property (checks/cNN.py: CHECK)."""
    pid = 'C00'
    level = 'exploration'
    rule = ''
    assumptions = ()
    budgets = {'quick': dict(examples=400, procs=4),
               'thorough': dict(examples=4000, procs=16)}
    shrink_budget = {'quick': 1500, 'thorough': 6000}
    exhaustive = False

    def strategy(self, tier):
        return None

    def enumerate(self, tier):
        return ()

    def run_case(self, case, tier='quick'):
        raise NotImplementedError

    def corpus(self):
        return []

    def extra_evidence(self):
        return {}


def canon(case):
    return json.dumps(case, sort_keys=True, separators=(',', ':'))


def sha(case):
    return hashlib.sha1(canon(case).encode()).hexdigest()


def derive_seed(seed, shard):
    h = hashlib.sha256(('%d/%d' % (seed, shard)).encode()).digest()
    return int.from_bytes(h[:6], 'big')


# --------------------------------------------------------------------------
# known findings
def load_findings(pid):
    path = os.path.join(ROOT, 'known_findings.json')
    if not os.path.exists(path):
        return []
    with open(path) as f:
        data = json.load(f)
    return [e for e in data.get('findings', [])
            if e.get('property') == pid and e.get('status') == 'open']


def match_finding(failure, findings):
    for e in findings:
        if re.fullmatch(e['oracle'], failure.oracle) and re.fullmatch(e['sig'], failure.sig):
            return e
    return None


# --------------------------------------------------------------------------
# generic JSON delta-debugging
def _paths(node, path=()):
    """All container paths, depth first."""
    if isinstance(node, list):
        yield path, node
        for i, v in enumerate(node):
            yield from _paths(v, path + (i,))
    elif isinstance(node, dict):
        for k in sorted(node):
            yield from _paths(node[k], path + (k,))


def _get(node, path):
    for p in path:
        node = node[p]
    return node


def _set(node, path, value):
    node = json.loads(json.dumps(node))
    if not path:
        return value
    tgt = _get(node, path[:-1])
    tgt[path[-1]] = value
    return node


def _num_paths(node, path=()):
    if isinstance(node, bool):
        return
    if isinstance(node, (int, float)):
        yield path, node
    elif isinstance(node, list):
        for i, v in enumerate(node):
            yield from _num_paths(v, path + (i,))
    elif isinstance(node, dict):
        for k in sorted(node):
            yield from _num_paths(node[k], path + (k,))


def ddmin(case, still_fails, budget, seconds=30):
    """Greedy structural minimisation of a JSON case; `still_fails(c)` is the oracle.
    Bounded by evaluations and by wall-clock (running out only stops the shrinking)."""
    used = [0]
    t_end = _time.time() + seconds

    def test(c):
        if used[0] >= budget or _time.time() > t_end:
            used[0] = budget
            return False
        used[0] += 1
        try:
            return still_fails(c)
        except InvalidCase:
            return False

    cur = case
    improved = True
    while improved and used[0] < budget:
        improved = False
        # 1. delete list elements (largest chunks first)
        for path, lst in list(_paths(cur)):
            try:
                lst = _get(cur, path)
            except (KeyError, IndexError, TypeError):
                continue
            if not isinstance(lst, list) or not lst:
                continue
            n = len(lst)
            chunk = n
            while chunk >= 1 and used[0] < budget:
                i = 0
                while i < len(lst) and used[0] < budget:
                    cand_list = lst[:i] + lst[i + chunk:]
                    if len(cand_list) == len(lst):
                        break
                    cand = _set(cur, path, cand_list)
                    if test(cand):
                        cur, lst, improved = cand, cand_list, True
                    else:
                        i += chunk
                chunk //= 2
        # 2. hoist: replace a list element that is a dict having 'body' by its body
        for path, lst in list(_paths(cur)):
            try:
                lst = _get(cur, path)
            except (KeyError, IndexError, TypeError):
                continue
            if not isinstance(lst, list):
                continue
            for i, el in enumerate(list(lst)):
                if isinstance(el, dict) and isinstance(el.get('body'), list):
                    cand_list = lst[:i] + el['body'] + lst[i + 1:]
                    cand = _set(cur, path, cand_list)
                    if test(cand):
                        cur, improved = cand, True
                        break
        # 3. numbers towards 0 / 1
        for path, v in list(_num_paths(cur)):
            for nv in (0, 1, int(v) if v != int(v) else v // 2 if isinstance(v, int) else v / 2):
                if nv == v or used[0] >= budget:
                    continue
                try:
                    if _get(cur, path) != v:
                        break
                except (KeyError, IndexError, TypeError):
                    break
                cand = _set(cur, path, nv)
                if test(cand):
                    cur, improved = cand, True
                    break
    return cur, used[0]


# --------------------------------------------------------------------------
class Acc:
    """Accumulated results of one shard (picklable)."""

    def __init__(self):
        self.cases = 0
        self.evals = 0
        self.nontrivial = set()
        self.features = Counter()
        self.buckets = {}      # key -> (size, case, failure dict)
        self.bucket_counts = Counter()
        self.samples = []      # (size, case) of nontrivial cases
        self.invalid = 0
        self.excluded = 0
        self.harness = []

    def add(self, case, out):
        self.cases += 1
        self.evals += max(out.evals, 1)
        self.excluded += out.excluded
        for f in out.features:
            self.features[f] += 1
        size = len(canon(case))
        if out.nontrivial or out.nt_keys:
            h = sha(case)
            new = h not in self.nontrivial
            if out.nt_keys:
                keys = {hashlib.sha1((h + '/' + str(k)).encode()).hexdigest() for k in out.nt_keys}
                new = not (keys <= self.nontrivial)
                self.nontrivial |= keys
            else:
                self.nontrivial.add(h)
            if new and len(self.samples) < 40:
                self.samples.append((size, case))
        for f in out.failures:
            k = f.key()
            self.bucket_counts[k] += 1
            old = self.buckets.get(k)
            if old is None or size < old[0]:
                self.buckets[k] = (size, case, f.as_dict())

    def merge(self, other):
        self.cases += other.cases
        self.evals += other.evals
        self.excluded += other.excluded
        self.invalid += other.invalid
        self.nontrivial |= other.nontrivial
        self.features.update(other.features)
        self.bucket_counts.update(other.bucket_counts)
        self.harness += other.harness
        for k, v in other.buckets.items():
            old = self.buckets.get(k)
            if old is None or v[0] < old[0]:
                self.buckets[k] = v
        self.samples += other.samples


def _run_one(check, case, tier, acc):
    try:
        out = check.run_case(case, tier)
    except InvalidCase:
        acc.invalid += 1
        return None
    except Exception:
        acc.harness.append(traceback.format_exc()[-3000:] + '\ncase=' + canon(case)[:3000])
        return None
    acc.add(case, out)
    return out


def _cov_dump():
    if os.environ.get('VERIF_COV') and 'cov' in sys.modules:
        sys.modules['cov'].dump()


def _shard(args):
    modname, tier, seed, shard, nshards, examples = args
    import importlib
    check = importlib.import_module(modname).CHECK
    acc = Acc()
    # enumerated part (finite domains), split round-robin
    for i, case in enumerate(check.enumerate(tier)):
        if i % nshards == shard:
            _run_one(check, case, tier, acc)
            if len(acc.harness) > 3:
                return acc
    strat = check.strategy(tier)
    if strat is not None and examples > 0:
        import hypothesis
        from hypothesis import given, settings, HealthCheck, Phase

        @hypothesis.seed(derive_seed(seed, shard))
        @settings(max_examples=examples, database=None, deadline=None,
                  derandomize=False, report_multiple_bugs=False,
                  phases=(Phase.generate,),
                  suppress_health_check=list(HealthCheck))
        @given(strat)
        def prop(case):
            if len(acc.harness) > 3:
                return
            _run_one(check, case, tier, acc)
        try:
            prop()
        except Exception:
            acc.harness.append('hypothesis driver: ' + traceback.format_exc()[-3000:])
    _cov_dump()
    return acc


def _write_replay(pid, case, failure, note=''):
    d = os.path.join(ROOT, 'replays', pid)
    os.makedirs(d, exist_ok=True)
    path = os.path.join(d, 'found_%s.json' % sha(case)[:12])
    with open(path, 'w') as f:
        json.dump({'property': pid, 'failure': failure, 'note': note, 'case': case},
                  f, indent=1, sort_keys=True)
    return os.path.relpath(path, ROOT)


def _load_case_file(path):
    with open(path) as f:
        data = json.load(f)
    return data['case'] if isinstance(data, dict) and 'case' in data else data


def _dir_cases(*parts):
    d = os.path.join(ROOT, *parts)
    if not os.path.isdir(d):
        return []
    return [(os.path.join(*parts, n), _load_case_file(os.path.join(d, n)))
            for n in sorted(os.listdir(d)) if n.endswith('.json')]


def main(modname, tier, replay=None):
    import importlib
    t0 = _time.time()
    check = importlib.import_module(modname).CHECK
    pid = check.pid
    seed = int(os.environ.get('VERIF_SEED', '1'))
    findings = load_findings(pid)
    violations = []      # (relpath, failure dict)
    known_hit = {}       # finding id -> text
    acc = Acc()

    def judge(case, out, source):
        for f in out.failures:
            e = match_finding(f, findings)
            if e is not None:
                known_hit.setdefault(e['id'], e['text'])
            else:
                violations.append((source, f.as_dict(), case))

    if replay:
        case = _load_case_file(replay)
        out = check.run_case(case, tier)
        for f in out.failures:
            e = match_finding(f, findings)
            if e is not None:
                print('KNOWN-FINDING: property=%s %s' % (pid, e['text']))
            else:
                print('VIOLATION property=%s replay=%s' % (pid, replay))
                print('  oracle=%s sig=%s\n  %s' % (f.oracle, f.sig, f.msg[:1500]))
        sys.exit(1 if any(match_finding(f, findings) is None for f in out.failures) else 0)

    # 1. witnesses of open known findings
    for e in findings:
        w = e.get('witness')
        if not w:
            continue
        case = _load_case_file(os.path.join(ROOT, w))
        out = _run_one(check, case, tier, acc)
        if out is not None:
            judge(case, out, w)
    # 2. regression replays + hand-written corpus
    for rel, case in _dir_cases('replays', pid) + _dir_cases('corpus', pid):
        if os.path.basename(rel).startswith('found_'):
            continue            # written by a failing run, not part of the committed corpus
        out = _run_one(check, case, tier, acc)
        if out is not None:
            judge(case, out, rel)
    for case in check.corpus():
        out = _run_one(check, case, tier, acc)
        if out is not None:
            judge(case, out, 'corpus()')
    # 3. generated search
    b = dict(check.budgets[tier])
    scale = float(os.environ.get('VERIF_SCALE', '1'))
    if tier == 'quick' and getattr(check, 'quick_boost', True):
        # the per-check budgets were sized for 4 processes; the sandbox has 16 cores
        b['procs'], b['examples'] = int(b['procs']) * 2, int(b['examples'] * 2.5)
    procs = max(1, min(int(b['procs']), os.cpu_count() or 1))
    per = max(1, int(b['examples'] * scale / procs)) if b['examples'] else 0
    jobs = [(modname, tier, seed, i, procs, per) for i in range(procs)]
    if procs == 1:
        results = [_shard(jobs[0])]
    else:
        ctx = mp.get_context('fork')
        with ctx.Pool(procs) as pool:
            results = pool.map(_shard, jobs, chunksize=1)
    for r in results:
        acc.merge(r)
    # optional extra search phase of a check (e.g. coverage-guided fuzzing): yields failing candidates
    extra = getattr(check, 'extra_phase', None)
    if extra is not None:
        for case in extra(tier, seed):
            _run_one(check, case, tier, acc)

    # 4. buckets -> known / shrink + report
    for k, (size, case, fd) in sorted(acc.buckets.items(), key=lambda kv: kv[0]):
        f = Failure(fd['oracle'], fd['sig'], fd['msg'])
        e = match_finding(f, findings)
        if e is not None:
            known_hit.setdefault(e['id'], e['text'])
            continue

        def still(c, key=f.key()):
            o = check.run_case(c, tier)
            return any(x.key() == key for x in o.failures)
        try:
            small, used = ddmin(case, still, check.shrink_budget[tier], 20 if tier == 'quick' else 120)
            o = check.run_case(small, tier)
            fd2 = next((x.as_dict() for x in o.failures if x.key() == f.key()), fd)
        except Exception:
            small, fd2 = case, fd
        violations.append((None, fd2, small))

    seen = set()
    exit_code = 0
    for source, fd, case in violations:
        key = (fd['oracle'], fd['sig'])
        if key in seen:
            continue
        seen.add(key)
        rel = source if source and source != 'corpus()' else _write_replay(pid, case, fd)
        print('VIOLATION property=%s replay=%s' % (pid, rel))
        print('  oracle=%s sig=%s count=%d\n  %s' % (
            fd['oracle'], fd['sig'], acc.bucket_counts.get(key, 1), fd['msg'][:1500]))
        exit_code = 1
    for fid in sorted(known_hit):
        print('KNOWN-FINDING: property=%s %s' % (pid, known_hit[fid]))

    if acc.harness:
        print('HARNESS-ERROR property=%s (%d)\n%s' % (pid, len(acc.harness), acc.harness[0]),
              file=sys.stderr)
        if exit_code == 0:
            exit_code = 2

    # 5. evidence
    samples = sorted(acc.samples, key=lambda s: s[0])
    picked = []
    if samples:
        for idx in (0, len(samples) // 2, len(samples) - 1):
            c = samples[idx][1]
            if c not in picked:
                picked.append(c)
    total = max(acc.cases, 1)
    classes = {k: round(v / total, 4) for k, v in sorted(acc.features.items())}
    cov = {
        'evaluations': acc.evals,
        'cases': acc.cases,
        'distinct_nontrivial': len(acc.nontrivial),
        'rule': check.rule,
        'samples': picked,
        'classes': classes,
        'excluded_by_finding': acc.excluded,
        'invalid_cases': acc.invalid,
        'exhaustive': bool(check.exhaustive),
        'known_findings_seen': sorted(known_hit),
        'failure_buckets': {'%s/%s' % k: v for k, v in acc.bucket_counts.items()},
        'shards': procs,
    }
    cov.update(check.extra_evidence())
    ev = {
        'property_id': pid, 'tier': tier, 'seed': seed, 'level': check.level,
        'coverage': cov, 'assumptions': list(check.assumptions),
        'wall_s': round(_time.time() - t0, 2),
        'violations': len(seen),
    }
    _cov_dump()
    os.makedirs(os.path.join(ROOT, 'evidence'), exist_ok=True)
    tmp = os.path.join(ROOT, 'evidence', '%s.json.partial%d' % (pid, os.getpid()))
    with open(tmp, 'w') as f:
        json.dump(ev, f, indent=1, sort_keys=True)
    os.replace(tmp, os.path.join(ROOT, 'evidence', '%s.json' % pid))
    print('%s %s: cases=%d evals=%d nontrivial=%d violations=%d known=%d wall=%.1fs' % (
        pid, tier, acc.cases, acc.evals, len(acc.nontrivial), len(seen), len(known_hit),
        _time.time() - t0))
    sys.exit(exit_code)
