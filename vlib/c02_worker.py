"""Persistent worker of C02: executes JSON programs under this process' configuration
(PYTHONHASHSEED, USIM_WAITQUEUE, -O) with seeded heap perturbation and returns the event log.
Imports only the interpreter and usim (no Hypothesis): it must run under `python -O` too."""
import gc
import hashlib
import json
import os
import sys

GC_EVERY = os.environ.get('C02_GC') == '1'


def canon_log(it, outcome, exc):
    rows = [list(e[:6]) for e in it.log if e[0] <= it.end_seq]
    return json.dumps({'outcome': outcome, 'exc': it.describe(exc) if exc is not None else None, 'log': rows},
                      sort_keys=True, default=str, separators=(',', ':'))


def junk(seed, n):
    """deterministic garbage of varying sizes; returns objects to keep alive"""
    x = (seed * 2654435761 + 1) & 0xffffffff
    keep = []
    for i in range(n):
        x = (x * 1103515245 + 12345) & 0x7fffffff
        size = x % 97
        obj = [object() for _ in range(size % 13)] if x & 1 else bytearray(size * 7)
        if x & 2:
            keep.append(obj)
    return keep


def run_one(prog, seed):
    from vlib.interp import execute
    from vlib.probe import Probe
    keep = junk(seed, 40 + seed % 300)
    observe = None
    if GC_EVERY:
        # the cyclic collector may run at any moment of a real program: here it runs before every activation
        gc.collect()
        observe = lambda it, k, loop: gc.collect()      # noqa: E731
    if 'spy' in prog:
        from vlib.spy import canon_spy
        text = canon_spy(prog['spy'])
        del keep
        return text
    it, outcome, exc, p = execute(prog, Probe(b_step=5000, b_total=80000), wall=60, observe=observe)
    text = canon_log(it, outcome, exc)
    del keep
    return text


def main():
    if GC_EVERY:
        from vlib.interp import execute      # noqa: F401  (import everything first)
        gc.collect()
        gc.freeze()                          # what exists now is not garbage: keeps the frequent collections cheap
    for line in sys.stdin:
        req = json.loads(line)
        if req.get('quit'):
            break
        try:
            text = run_one(req['prog'], req.get('junk', 0))
            text2 = run_one(req['prog'], req.get('junk', 0) + 17) if req.get('twice') else text
            res = {'digest': hashlib.sha1(text.encode()).hexdigest(), 'n': len(text),
                   'same_twice': text == text2}
            if req.get('full'):
                res['text'] = text
        except BaseException as e:     # harness-level problem in the worker
            res = {'error': '%s: %s' % (type(e).__name__, e)}
        sys.stdout.write(json.dumps(res) + '\n')
        sys.stdout.flush()


if __name__ == '__main__':
    main()
