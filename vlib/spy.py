"""usim.py (SimPy layer): a small process DSL, its executor on the real usim.py, and an
independent reference simulator of documented SimPy semantics for that DSL (C18).

Program: {'nev': int, 'callbacks': [ev ids], 'procs': [proc...], 'until': None | number | ['event', id],
          'watch': [ev ids]  (embedded mode: native activities awaiting these events)}
proc: {'name': str, 'phase': 0..15, 'steps': [step...]}     (phase/16 = fractional part of its action dates)
steps: timeout(d,v) | wait(ev) | succeed(ev,v) | fail(ev,x) | spawn(child) | cond(kind, evs) |
       interrupt(proc, cause) | native(kind, ...) | setflag(i) | return(v) | raise(x)

Race-free by construction: a process performs actions that affect others only on dates whose
fractional part is its own phase; after every wait it re-phases with a timeout.
"""
import heapq

import usim
from usim.py import Environment, Interrupt
from usim.py.events import AnyOf, AllOf, Condition

from .runner import InvalidCase


ACTING = ('succeed', 'fail', 'spawn', 'interrupt', 'setflag')


class SpyErr(Exception):
    def __init__(self, eid):
        super().__init__(eid)
        self.eid = eid


def delta(now, phase):
    """time to wait until the next date with fractional part phase/16 (0 if on phase)"""
    frac = (now * 16) % 16
    return ((phase - frac) % 16) / 16


# ---------------------------------------------------------------------------------------------
# executor on the real usim.py
class Real:
    def __init__(self, prog):
        self.prog = prog
        self.log = {}          # proc name -> [(step, kind, time, payload)]
        self.cb = []           # (ev id, time)
        self.watch_log = []    # (ev id, kind, time, payload)
        self.procs = {}
        self.flags = [usim.Flag() for _ in range(prog.get('nflags', 0))]
        self.api_errors = []
        self.cond_values = []  # (event id, value) as read through condition values

    def setup(self, env):
        self.env = env
        self.events = [env.event() for _ in range(self.prog['nev'])]
        self.ev_id = {id(e): i for i, e in enumerate(self.events)}
        for k in self.prog.get('callbacks', ()):
            self.events[k].callbacks.append(lambda e, k=k: self.cb.append((k, env.now)))
        for k in self.prog.get('defusers', ()):
            # a callback of the event itself takes care of its failure
            self.events[k].callbacks.append(lambda e: setattr(e, 'defused', True))
        for (k, pname, cause) in self.prog.get('cb_interrupts', ()):
            # a callback of the event interrupts a process (whoever ran last; the callback is no process at all)
            self.events[k].callbacks.append(
                lambda e, pname=pname, cause=cause: self.procs[pname].interrupt(cause) if pname in self.procs else None)
        for (a, b) in self.prog.get('chains', ()):
            # the documented way of passing an outcome on: another event's trigger() as a callback
            self.events[a].callbacks.append(self.events[b].trigger)
        for spec in self.prog['procs']:
            self.procs[spec['name']] = env.process(self.gen(spec, spec['phase']))

    def norm(self, v):
        if hasattr(v, 'events') and hasattr(v, 'todict'):     # ConditionValue
            out = []
            for e in v.events:
                out.append(self.ev_id.get(id(e), 'p'))
            self.check_value_api(v)
            return ('cond', tuple(sorted(map(str, out))))
        return v

    def check_value_api(self, v):
        """the documented dict-like view of a condition's value: every way of reading it tells the same"""
        bad = self.api_errors
        try:
            keys = list(v.keys())
            if keys != list(v) or keys != list(v.events):
                bad.append('keys() / iteration / events differ')
            d = v.todict()
            if list(d.keys()) != list(dict.fromkeys(keys)):       # (an event that is a member twice is listed twice)
                bad.append('todict() has other keys')
            vals = list(v.values())
            items = list(v.items())
            for i, e in enumerate(keys):
                if e not in v:
                    bad.append('a member is not `in` the value')
                if not (v[e] is e.value or v[e] == e.value) or not (vals[i] is e.value or vals[i] == e.value) or items[i][0] is not e:
                    bad.append('value[event] / values() / items() differ from event.value')
                k = self.ev_id.get(id(e))
                if k is not None:
                    self.cond_values.append((k, e.value))
            if not (v == d) or not (v == type(v)(*keys)):
                bad.append('value != its own todict() / an equal ConditionValue')
            other = self.env.event()
            if other in v:
                bad.append('a foreign event is `in` the value')
            try:
                v[other]
                bad.append('value[foreign event] did not raise KeyError')
            except KeyError:
                pass
        except Exception as e:      # noqa
            bad.append('reading the value raised %s: %s' % (type(e).__name__, e))

    def gen(self, spec, phase):
        env = self.env
        name = spec['name']
        log = self.log.setdefault(name, [])
        steps = spec['steps']

        def rec(i, kind, payload=None):
            log.append((i, kind, env.now, payload))

        def wait(i, target):
            try:
                v = yield target
                rec(i, 'got', self.norm(v))
            except Interrupt as it:
                rec(i, 'interrupt', it.cause)
            except SpyErr as e:
                rec(i, 'raised', e.eid)

        def rephase(i):
            # actions that affect other processes happen on this process' own phase only
            while True:
                d = delta(env.now, phase)
                if d == 0:
                    break
                try:
                    yield env.timeout(d)
                except Interrupt as it:
                    rec(i, 'interrupt', it.cause)

        yield from wait(-1, env.timeout(delta(env.now, phase) or 0))
        for i, s in enumerate(steps):
            op = s['op']
            if op in ACTING:
                yield from rephase(i)
            if op == 'timeout':
                yield from wait(i, env.timeout(s['d'], s.get('v')))
            elif op == 'wait':
                yield from wait(i, self.events[s['ev']])
            elif op == 'succeed':
                try:
                    self.events[s['ev']].succeed(s.get('v'))
                    rec(i, 'done')
                except RuntimeError:
                    rec(i, 'double')
            elif op == 'fail':
                try:
                    self.events[s['ev']].fail(SpyErr(s['x']))
                    rec(i, 'done')
                except RuntimeError:
                    rec(i, 'double')
            elif op == 'spawn':
                child = s['child']
                p = env.process(self.gen_noyield(child) if child.get('noyield') else self.gen(child, phase))
                self.procs[child['name']] = p
                yield from wait(i, p)
            elif op == 'cond':
                evs = [self.events[k] for k in s['evs']]
                for sub in s.get('sub', ()):
                    se = [self.events[k] for k in sub['evs']]
                    evs.append(env.any_of(se) if sub['kind'] == 'any' else env.all_of(se))
                via = s.get('via', 'call')
                if s['kind'] == 'atleast':
                    # a condition with an evaluation function of the program's own
                    c = Condition(env, lambda events, count, k=s['k']: count >= k, evs)
                elif via == 'op' and len(evs) == 2:
                    c = (evs[0] | evs[1]) if s['kind'] == 'any' else (evs[0] & evs[1])
                elif via == 'cls':
                    c = (AnyOf if s['kind'] == 'any' else AllOf)(env, evs)
                else:
                    c = env.any_of(evs) if s['kind'] == 'any' else env.all_of(evs)
                yield from wait(i, c)
            elif op == 'interrupt':
                p = self.procs.get(s['proc'])
                if p is not None:
                    p.interrupt(s.get('cause'))
                    rec(i, 'done', p.is_alive)
            elif op == 'native':
                k = s['kind']
                if k == 'delay':
                    yield from wait(i, usim.time + s['d'])
                elif k == 'flag':
                    yield from wait(i, self.flags[s['i']])
                elif k == 'coro':
                    yield from wait(i, self._coro(s['d'], s.get('v')))
                elif k == 'coro_fail':
                    # a yielded native coroutine that fails: the process gets the exception at the yield
                    yield from wait(i, self._coro_fail(s['d'], s['x']))
                else:
                    raise InvalidCase(k)
            elif op == 'setflag':
                yield from wait(i, self.flags[s['i']].set())
            elif op == 'return':
                rec(i, 'return', s.get('v'))
                return s.get('v')
            elif op == 'raise':
                rec(i, 'raise', s['x'])
                raise SpyErr(s['x'])
            else:
                raise InvalidCase(op)
        rec(len(steps), 'end')

    def gen_noyield(self, spec):
        """a process whose generator ends before its first yield: still an event that fires with its outcome"""
        log = self.log.setdefault(spec['name'], [])
        s = spec['steps'][0]
        if s['op'] == 'return':
            log.append((0, 'return', self.env.now, s.get('v')))
            return s.get('v')
        log.append((0, 'raise', self.env.now, s['x']))
        raise SpyErr(s['x'])
        yield      # noqa  (makes this a generator function)

    @staticmethod
    async def _coro(d, v):
        await (usim.time + d)
        return v

    @staticmethod
    async def _coro_fail(d, x):
        await (usim.time + d)
        raise SpyErr(x)

    async def watcher(self, k, hold=0):
        try:
            v = await self.events[k]
            self.watch_log.append((k, 'got', usim.time.now, self.norm(v)))
        except SpyErr as e:
            self.watch_log.append((k, 'raised', usim.time.now, e.eid))
        if hold:
            # the activity that handled the outcome goes on in the same frame
            await (usim.time + hold)
            self.watch_log.append((k, 'held', usim.time.now, None))

    async def impatient(self, k, date, kind):
        """an activity that waits for the event for a while and gives up at `date` (left by an until-block / cancelled):
        an abandoned wait handles nothing - a failure of the event after that date is as unhandled as without it"""
        async def waiter():
            try:
                await self.events[k]
            except SpyErr:
                pass
        if kind == 'until':
            async with usim.until(usim.time >= date):
                await waiter()
        else:
            async with usim.Scope() as scope:
                task = scope.do(waiter())
                await (usim.time >= date)
                task.cancel()

    async def careless_host(self, k):
        """an activity of its own scope that waits for the event and dies of its failure"""
        async def careless():
            await self.events[k]
        try:
            async with usim.Scope() as scope:
                scope.do(careless())
        except usim.Concurrent:
            pass

    def until_arg(self):
        u = self.prog.get('until')
        if isinstance(u, list):
            return self.events[u[1]]
        return u


def run_standalone(prog, probe=None):
    from .probe import run_probed  # noqa (bounds apply through the class-level wrappers)
    r = Real(prog)
    env = Environment(prog.get('t0', 0))
    r.setup(env)
    res = {'mode': 'standalone'}
    try:
        res['value'] = r.norm(env.run(until=r.until_arg()))
        res['outcome'] = 'ok'
    except SpyErr as e:
        res['outcome'], res['exc'] = 'spyerr', e.eid
    except RuntimeError as e:
        res['outcome'], res['exc'] = 'runtimeerror', str(e)[:80]
    except BaseException as e:        # noqa
        res['outcome'], res['exc'] = 'other:' + type(e).__name__, str(e)[:200]
    res['now'] = env.now
    return r, res


def run_embedded(prog):
    r = Real(prog)
    res = {'mode': 'embedded'}

    async def main():
        env = Environment(prog.get('t0', 0))
        r.setup(env)
        async with usim.Scope() as scope:
            for k in prog.get('watch', ()):
                scope.do(r.watcher(k, prog.get('watch_hold', 0)), volatile=True)
            for k in prog.get('careless', ()):
                scope.do(r.careless_host(k), volatile=True)
            for (k, date, kind) in prog.get('impatient', ()):
                scope.do(r.impatient(k, date, kind), volatile=True)
            u = r.until_arg()
            await env.until(u)
            res['now_inside'] = env.now
            if u is not None and not isinstance(u, (int, float)):
                res['value'] = r.norm(u.value) if u.triggered else None
    try:
        # (an environment whose clock starts below zero lives in a simulation that starts there as well)
        usim.run(main(), start=min(0, prog.get('t0', 0)))
        res['outcome'] = 'ok'
        if isinstance(prog.get('until'), list) and not r.events[prog['until'][1]].triggered:
            res['outcome'], res['exc'] = 'runtimeerror', 'until event never triggered (env.until never returned)'
    except SpyErr as e:
        res['outcome'], res['exc'] = 'spyerr', e.eid
    except RuntimeError as e:
        res['outcome'], res['exc'] = 'runtimeerror', str(e)[:80]
    except BaseException as e:        # noqa
        res['outcome'], res['exc'] = 'other:' + type(e).__name__, str(e)[:200]
    return r, res


def canon_spy(prog, probe=None):
    """canonical text of everything observable of a usim.py program, standalone and embedded (C02: this text is the same
    in every process configuration - whatever the order of same-step events is, it is a function of the program)"""
    import json
    from .probe import Probe, _TLS
    p = probe or Probe(b_step=20000, b_total=200000)
    _TLS.stack.append(p)
    try:
        real, got = run_standalone(prog)
        real2, got2 = run_embedded(prog)
    finally:
        _TLS.stack.pop()
    for g in (got, got2):
        if g['outcome'].startswith('other:AssertionError'):
            g['usage_assertion'] = True
    return json.dumps({'standalone': [real.log, real.cb, got], 'embedded': [real2.log, real2.cb, real2.watch_log, got2]},
                      sort_keys=True, default=str, separators=(',', ':'))


# ---------------------------------------------------------------------------------------------
# reference simulator (documented SimPy semantics for the DSL)
class MEvent:
    def __init__(self, eid=None):
        self.eid = eid
        self.state = None          # ('ok', v) | ('fail', x)
        self.time = None
        self.waiters = []          # (proc, token)
        self.parents = []          # conditions
        self.callbacks = 0
        self.defuser = False
        self.handled = False
        self.reg_times = []       # dates at which waiters / conditions started to observe this event
        self.cb_int = []          # (process name, cause): callbacks that interrupt a process
        self.chain = []           # events whose trigger() is a callback of this one


class MCond(MEvent):
    def __init__(self, kind, members):
        super().__init__()
        self.kind = kind
        self.members = members


class MProc:
    def __init__(self, spec, phase):
        self.spec = spec
        self.name = spec['name']
        self.phase = phase
        self.pc = -1
        self.alive = True
        self.token = 0             # identifies the current wait
        self.waiting = None        # MEvent or 'timer'
        self.interrupts = []
        self.result = MEvent()
        self.log = []
        self.rephasing = False


class Ambiguous(Exception):
    """the outcome would depend on the order of same-time events: not decidable from the statement"""


class Model:
    def __init__(self, prog):
        self.prog = prog
        self.now = prog.get('t0', 0)
        self.heap = []
        self.seq = 0
        self.events = [MEvent(i) for i in range(prog['nev'])]
        for k in prog.get('callbacks', ()):
            self.events[k].callbacks += 1
        for k in prog.get('defusers', ()):
            self.events[k].defuser = True
        for (k, pname, cause) in prog.get('cb_interrupts', ()):
            self.events[k].cb_int.append((pname, cause))
        for (a, b) in prog.get('chains', ()):
            self.events[a].chain.append(self.events[b])
        self.flags = [MEvent() for _ in range(prog.get('nflags', 0))]
        self.procs = {}
        self.cb = []
        self.crash = None          # exception id of an unhandled failure
        self.last_interrupt = {}   # proc name -> time of the last delivered interrupt
        self.completions = {}      # proc name -> [(time a wait completed, seq at which that wait began)]
        self.pushes = {}           # proc name -> [(time, seq) of interrupt() calls]
        self.last_resume = {}      # proc name -> time of the last completed wait on an event
        self.cond_members = {}     # (proc, step) -> (must, may) member ids
        for spec in prog['procs']:
            p = MProc(spec, spec['phase'])
            self.procs[p.name] = p
            self.push(self.now, ('start', p))

    def push(self, t, action):
        self.seq += 1
        heapq.heappush(self.heap, (t, self.seq, action))

    # ---- running
    def run(self):
        until = self.prog.get('until')
        stop_t = until if isinstance(until, (int, float)) else None
        stop_ev = self.events[until[1]] if isinstance(until, list) else None
        res = {'outcome': 'ok'}
        if stop_ev is not None and stop_ev.state is not None:
            pass
        while self.heap:
            t, _, action = self.heap[0]
            if stop_t is not None and t >= stop_t:
                if t == stop_t:
                    raise Ambiguous('something happens exactly at the until date')
                break
            heapq.heappop(self.heap)
            self.now = t
            self.dispatch(action)
            if self.crash is not None:
                # a second unhandled failure within the same time step: which one ends the run is order-dependent
                first = self.crash
                while self.heap and self.heap[0][0] == self.now:
                    _, _, act = heapq.heappop(self.heap)
                    self.crash = None
                    self.dispatch(act)
                    if self.crash is not None and self.crash != first:
                        raise Ambiguous('two unhandled failures in one time step')
                self.crash = first
                if stop_ev is not None and stop_ev.state is not None and stop_ev.time == self.now:
                    raise Ambiguous('until-event and an unhandled failure in the same time step')
                self.check_races()
                res['outcome'], res['exc'] = 'spyerr', self.crash
                res['now'] = self.now
                return res
            if stop_ev is not None and stop_ev.state is not None:
                # the run stops in the step in which the event fires; later same-step work is unspecified -
                # unless it would crash the run: then the outcome depends on same-step order
                self.stop_time = self.now
                saved = (list(self.heap), {n: list(p.log) for n, p in self.procs.items()}, list(self.cb))
                while self.heap and self.heap[0][0] == self.now:
                    _, _, act = heapq.heappop(self.heap)
                    self.dispatch(act)
                    if self.crash is not None:
                        raise Ambiguous('until-event and an unhandled failure in the same time step')
                break
        self.check_races()
        if stop_t is not None:
            self.now = stop_t
        if stop_ev is not None:
            if stop_ev.state is None:
                res['outcome'], res['exc'] = 'runtimeerror', None
            elif stop_ev.state[0] == 'fail':
                res['outcome'], res['exc'] = 'spyerr', stop_ev.state[1]
            else:
                res['value'] = stop_ev.state[1]
        res['now'] = self.now
        return res

    def check_races(self):
        for name, ticks in getattr(self, 'push_acts', {}).items():
            by_time = {}
            for (t, tick) in ticks:
                by_time.setdefault(t, set()).add(tick)
            if any(len(v) > 1 for v in by_time.values()):
                raise Ambiguous('%s: interrupted from several activations of one time step' % name)
        self._check_races()

    def _check_races(self):
        # an interrupt racing, within one time step, with the completion of a wait that had begun before
        for name, ps in self.pushes.items():
            for (t, sq) in ps:
                if any(ct == t and started <= sq and done_at >= getattr(self, 'push_ticks', {}).get((name, t, sq), 0)
                       for (ct, started, done_at) in self.completions.get(name, ())):
                    raise Ambiguous('%s: interrupt and completion of an earlier wait in one time step' % name)

    def dispatch(self, action):
        self.tick = getattr(self, 'tick', 0) + 1        # order in which the model handles things
        kind = action[0]
        if kind == 'start':
            self.advance(action[1], first=True)
        elif kind == 'resume':
            _, p, token, state, idx, started = action
            self.completions.setdefault(p.name, []).append((self.now, started, self.tick))
            if not p.alive or p.token != token:
                if self.last_interrupt.get(p.name) == self.now and p.alive:
                    raise Ambiguous('%s: interrupt and awaited event in the same time step' % p.name)
                return
            if isinstance(p.waiting, MEvent):
                self.last_resume[p.name] = self.now
            p.waiting = None
            self.deliver(p, idx, state)
        elif kind == 'interrupt':
            p = action[1]
            if p.alive and p.interrupts and p.waiting is not None:
                if self.last_resume.get(p.name) == self.now:
                    raise Ambiguous('%s: awaited event and interrupt in the same time step' % p.name)
                self.take_interrupt(p)
        elif kind == 'process':
            self.process_event(action[1])

    # ---- a process reached a blocking yield on `target` (MEvent or ('timer', d, v))
    def block(self, p, idx, target):
        p.token += 1
        if p.interrupts:
            # a queued interrupt is raised at this yield at once
            p.waiting = 'x'
            self.cur_idx = idx
            p.idx = idx
            self.take_interrupt(p)
            return
        p.idx = idx
        if isinstance(target, tuple):
            d, v = target[1], target[2]
            p.waiting = 'timer'
            p.timer_due = self.now + d
            self.push(self.now + d, ('resume', p, p.token, ('fail' if len(target) > 3 else 'ok', v), idx, self.seq))
        else:
            p.waiting = target
            if target.state is not None:
                self.late_handler(target)
                target.handled = True
                self.push(self.now, ('resume', p, p.token, target.state, idx, self.seq))
            else:
                target.waiters.append((p, p.token, idx, self.seq))
                target.reg_times.append(self.now)

    def late_handler(self, ev):
        # somebody starts waiting for an event that failed earlier *in this very time step* and had
        # no handler then: whether that still counts as handled depends on same-step order
        if ev.state[0] == 'fail' and not ev.handled and ev.time == self.now:
            raise Ambiguous('failed event gets its first handler later in the same time step')

    def take_interrupt(self, p):
        if self.last_resume.get(p.name) == self.now:
            raise Ambiguous('%s: awaited event and interrupt in the same time step' % p.name)
        if p.waiting == 'timer' and getattr(p, 'timer_due', None) == self.now:
            raise Ambiguous('%s: timeout due and interrupt in the same time step' % p.name)
        child = getattr(p.waiting, 'of_proc', None) if isinstance(p.waiting, MEvent) else None
        if child is not None and child.alive:
            # torn out of the wait for its own sub-process, the parent goes on next to it - on the same phase: from here
            # on the two may act in one time step, in an order the statement does not settle
            raise InvalidCase('a process interrupted while it waits for its sub-process shares its phase with it')
        cause = p.interrupts.pop(0)
        self.last_interrupt[p.name] = self.now
        p.token += 1            # abandon the current wait
        if isinstance(p.waiting, MEvent):
            p.waiting.waiters = [w for w in p.waiting.waiters if w[0] is not p]
        p.waiting = None
        p.log.append((p.idx, 'interrupt', self.now, cause))
        self.after_wait(p)

    def deliver(self, p, idx, state):
        if p.rephasing:
            p.rephasing = False
        elif state[0] == 'ok':
            p.log.append((idx, 'got', self.now, state[1]))
        else:
            p.log.append((idx, 'raised', self.now, state[1]))
        self.advance(p)

    def after_wait(self, p):
        p.rephasing = False
        self.advance(p)

    def advance(self, p, first=False):
        if first and p.spec.get('noyield'):
            if len(p.spec['steps']) != 1 or p.spec['steps'][0]['op'] not in ('return', 'raise'):
                raise InvalidCase('a process without a yield only returns or raises')
            first = False
        if first:
            p.idx = -1
            d = delta(self.now, p.phase)
            # the first statement of every process is a timeout onto its phase (0 allowed)
            self.block(p, -1, ('timer', d, None))
            return
        steps = p.spec['steps']
        while True:
            p.pc += 1
            i = p.pc
            if i >= len(steps):
                p.log.append((i, 'end', self.now, None))
                self.finish(p, ('ok', None))
                return
            s = steps[i]
            op = s['op']
            if op in ACTING:
                d = delta(self.now, p.phase)
                if d:
                    p.pc -= 1               # come back to this step once on phase
                    p.rephasing = True
                    return self.block(p, i, ('timer', d, None))
            if op == 'timeout':
                return self.block(p, i, ('timer', s['d'], s.get('v')))
            if op == 'wait':
                return self.block(p, i, self.events[s['ev']])
            if op in ('succeed', 'fail'):
                ev = self.events[s['ev']]
                if ev.state is not None:
                    p.log.append((i, 'double', self.now, None))
                else:
                    p.log.append((i, 'done', self.now, None))
                    ev.triggered_by, ev.trigger_tick = p.name, getattr(self, 'tick', 0)
                    self.trigger(ev, ('ok', s.get('v')) if op == 'succeed' else ('fail', s['x']))
            elif op == 'spawn':
                c = MProc(s['child'], p.phase)
                # (a child that fails before its first yield: its parent began to wait in the activation that created it,
                #  before the child could run at all - no same-step race)
                c.result.own_child = bool(s['child'].get('noyield'))
                c.result.of_proc = c
                self.procs[c.name] = c
                self.push(self.now, ('start', c))
                return self.block(p, i, c.result)
            elif op == 'cond':
                members = [self.events[k] for k in s['evs']]
                for sub in s.get('sub', ()):
                    sm = [self.events[k] for k in sub['evs']]
                    sc = MCond(sub['kind'], sm)
                    sc.owner = (p.name, i, 'sub')
                    for m in sm:
                        m.parents.append(sc)
                        m.reg_times.append(self.now)
                        if m.state is not None:
                            self.late_handler(m)
                            m.handled = True
                    self.check_cond(sc)
                    members.append(sc)
                c = MCond(s['kind'], members)
                c.k = s.get('k')
                if s['kind'] == 'atleast' and not (1 <= (c.k or 0) <= len(members)):
                    raise InvalidCase('atleast')
                c.owner = (p.name, i)
                for m in members:
                    m.parents.append(c)
                    m.reg_times.append(self.now)
                    if m.state is not None:
                        if not isinstance(m, MCond):
                            self.late_handler(m)
                        m.handled = True
                self.check_cond(c)
                return self.block(p, i, c)
            elif op == 'interrupt':
                tgt = self.procs.get(s['proc'])
                if tgt is not None:
                    if tgt is p:
                        raise InvalidCase('self interrupt')
                    if tgt.pc < 0 and tgt.waiting is None:
                        raise InvalidCase('interrupt of a process that has not started')
                    if getattr(tgt, 'finish_time', None) == self.now:
                        raise Ambiguous('interrupt of a process that ends in this very time step')
                    p.log.append((i, 'done', self.now, tgt.alive))
                    if tgt.alive:
                        tgt.interrupts.append(s.get('cause'))
                        self.pushes.setdefault(tgt.name, []).append((self.now, self.seq))
                        self.__dict__.setdefault('push_acts', {}).setdefault(tgt.name, []).append((self.now, getattr(self, 'tick', 0)))
                        self.push(self.now, ('interrupt', tgt))
            elif op == 'native':
                k = s['kind']
                if k == 'delay':
                    return self.block(p, i, ('timer', s['d'], None))
                if k == 'flag':
                    return self.block(p, i, self.flags[s['i']])
                if k == 'coro':
                    return self.block(p, i, ('timer', s['d'], s.get('v')))
                if k == 'coro_fail':
                    return self.block(p, i, ('timer', s['d'], s['x'], 'fail'))
                raise InvalidCase(k)
            elif op == 'setflag':
                f = self.flags[s['i']]
                if f.state is None:
                    self.trigger(f, ('ok', True), callbacks=False)
                return self.block(p, i, ('timer', 0, None))
            elif op == 'return':
                p.log.append((i, 'return', self.now, s.get('v')))
                self.finish(p, ('ok', s.get('v')))
                return
            elif op == 'raise':
                p.log.append((i, 'raise', self.now, s['x']))
                self.finish(p, ('fail', s['x']))
                return
            else:
                raise InvalidCase(op)

    def finish(self, p, state):
        if self.last_interrupt.get(p.name) == self.now or any(True for _ in p.interrupts):
            p.ended_after_interrupt = True
        p.finish_time = self.now
        p.finish_tick = getattr(self, 'tick', 0)
        p.alive = False
        p.interrupts = []
        self.trigger(p.result, state)

    def trigger(self, ev, state, callbacks=True):
        if state[0] == 'fail' and self.now in ev.reg_times and not isinstance(ev, MCond) and not getattr(ev, 'own_child', False):
            # somebody started to observe the event in the very time step in which it fails: whether that
            # observer counts as its handler depends on same-step order
            raise Ambiguous('an event fails in the time step in which it got an observer')
        ev.state = state
        ev.time = self.now
        if ev.waiters or any(c.state is None for c in ev.parents):
            ev.handled = True      # (a condition that has fired already no longer observes its members)
        for (w, token, idx, started) in ev.waiters:
            self.push(self.now, ('resume', w, token, state, idx, started))
        ev.waiters = []
        if callbacks:
            self.push(self.now, ('process', ev))
        for c in ev.parents:
            if c.state is None:
                self.check_cond(c)
            elif state[0] == 'fail' and c.time == self.now:
                raise Ambiguous('a member of a condition fails in the time step in which the condition fired')

    def process_event(self, ev):
        for _ in range(ev.callbacks):
            self.cb.append((ev.eid, self.now))
        for (pname, cause) in ev.cb_int:
            tgt = self.procs.get(pname)
            if tgt is None:
                continue
            if tgt.pc < 0 and tgt.waiting is None:
                raise InvalidCase('interrupt of a process that has not started')
            if getattr(tgt, 'finish_time', None) == self.now:
                if getattr(ev, 'triggered_by', None) == tgt.name and getattr(tgt, 'finish_tick', None) == ev.trigger_tick:
                    continue        # the process triggered the event as its last action: it has ended, the interrupt is ignored
                raise Ambiguous('interrupt of a process that ends in this very time step')
            if tgt.alive:
                tgt.interrupts.append(cause)
                self.pushes.setdefault(tgt.name, []).append((self.now, self.seq))
                self.__dict__.setdefault('push_acts', {}).setdefault(tgt.name, []).append((self.now, getattr(self, 'tick', 0)))
                if not hasattr(self, 'push_ticks'):
                    self.push_ticks = {}
                # (a callback of an event that the target itself triggered: what the target had completed before it
                #  triggered the event is causally earlier than this interrupt and does not race with it)
                if getattr(ev, 'triggered_by', None) == tgt.name:
                    self.push_ticks[(tgt.name, self.now, self.seq)] = ev.trigger_tick + 1
                self.push(self.now, ('interrupt', tgt))
        for b in ev.chain:
            if b.state is not None:
                raise InvalidCase('a chained event is triggered twice')
            b.triggered_by, b.trigger_tick = None, getattr(self, 'tick', 0)
            self.trigger(b, ev.state)       # inherits value or exception (its own observers have to handle the latter)
        if ev.defuser:
            ev.handled = True      # the callbacks run first, then the failure is looked at
        if ev.state[0] == 'fail' and not ev.handled and self.crash is None:
            self.crash = ev.state[1]

    def check_cond(self, c):
        fired = [m for m in c.members if m.state is not None]
        failed = [m for m in fired if m.state[0] == 'fail']
        if failed:
            for m in failed:
                m.handled = True
            self.trigger(c, ('fail', failed[0].state[1]))
            return
        n = len(fired)
        if c.kind == 'atleast':
            ok = n >= c.k
        else:
            ok = (n == len(c.members)) if c.kind == 'all' else (n > 0 or not c.members)
        if ok:
            # value: members fired strictly before are in, same-step ones may be in
            must = tuple(sorted(str(m.eid) for m in fired if m.time < self.now))
            may = tuple(sorted(str(m.eid) for m in c.members))      # resolved in compare (same-step members)
            c.fire_time = self.now
            self.cond_members[c.owner] = (must, c, self.now)
            self.trigger(c, ('ok', ('cond', c)))


def leaves(c):
    out = []
    for m in c.members:
        if isinstance(m, MCond):
            out += leaves(m)
        else:
            out.append(m)
    return out


def cond_ok(got_members, c, fire_time):
    """allowed-set rule for a (possibly nested) condition value: exactly the leaf events fired by then;
    leaves firing in the very step of the condition may or may not be included"""
    got = set(got_members)
    lv = leaves(c)
    for m in lv:
        if m.state is not None and m.state[0] == 'ok':
            if m.time < fire_time and str(m.eid) not in got:
                return False
        if (m.state is None or m.time > fire_time) and str(m.eid) in got:
            return False
    return got <= {str(m.eid) for m in lv}
