"""DSL -> coroutines on the real usim (public API only) + event log.

A program:  {"start": s, "till": t|None, "objs": {...}, "roots": [activity...]}
An activity: {"name": str, "steps": [step...]}            (names unique per program)
A step: {"op": ..., ...}.  See `Interp._step`.

The log is a list of tuples (seq, act, idx, kind, now, payload, k) where k is the number of
activations started so far (the current one included) and idx is the
step path (tuple) inside the activity.  Payloads hold no addresses / reprs.
"""
import math
import weakref
import usim
from usim import (time, eternity, instant, Scope, until, Flag, Tracked, Lock, Queue, Channel,
                  StreamClosed, Capacities, Resources, ResourcesUnavailable, Pipe,
                  UnboundedPipe, Concurrent, TaskCancelled, TaskClosed, VolatileTaskClosed,
                  IntervalExceeded, interval, delay, collect, first)
from usim._core.loop import Interrupt as _CoreInterrupt   # only to *recognise* leaked signals
from usim._primitives.context import ScopeClosed

from .runner import InvalidCase

INF = float('inf')


# harness-owned exception hierarchy  E > L > {K, I}; V; R   (+ privileged instances)
class ProgErr(Exception):
    def __init__(self, eid):
        super().__init__(eid)
        self.eid = eid


class ErrL(ProgErr):
    pass


class ErrK(ErrL):
    pass


class ErrI(ErrL):
    pass


class ErrV(ProgErr):
    pass


class ErrQ(ProgErr):
    """failures that *compare equal* (a dataclass exception, an error code) although they are different objects"""
    def __eq__(self, other):
        return type(other) is ErrQ

    def __hash__(self):
        return 17


class ErrR(ProgErr):
    pass


class ErrF(ProgErr):
    """a failure whose truth value is false (an aggregate error with no entries: `__len__` is 0)"""
    def __len__(self):
        return 0


EXC_CLASSES = {'E': ProgErr, 'L': ErrL, 'K': ErrK, 'I': ErrI, 'V': ErrV, 'R': ErrR, 'Q': ErrQ, 'F': ErrF}
class InvariantBroken(AssertionError):
    """a derived privileged exception"""


class StopRequested(KeyboardInterrupt):
    pass


class Quit(SystemExit):
    pass


class EmptyReport(AssertionError):
    """a derived privileged exception whose truth value is false"""
    def __len__(self):
        return 0


PRIV_CLASSES = {'A': AssertionError, 'KI': KeyboardInterrupt, 'SE': SystemExit,
                'A2': InvariantBroken, 'KI2': StopRequested, 'SE2': Quit, 'A0': EmptyReport}


def num(x):
    """JSON number -> python number ('inf' strings allowed)."""
    if x == 'inf':
        return INF
    if x == '-inf':
        return -INF
    return x


class _Explicit:
    """Iterate `stream` the explicit way: the iterator object is kept (here: as an attribute of an object the consumer's
    frame refers to) and every step awaits its __anext__().  Semantically the same as a plain `async for`."""
    def __init__(self, stream):
        self.it = stream.__aiter__()

    def __aiter__(self):
        return self

    def __anext__(self):
        return self.it.__anext__()


def _drop(x):
    return [x]


def first_inline(box):
    # hands the only reference to the iterator over to the `async for` statement
    return box.pop()


class Interp:
    def __init__(self, prog, shared=None):
        self.prog = prog
        self.probe = None
        self.log = []
        self.seq = 0
        self.tasks = {}
        self.scopes = {}
        self.excs = {}        # eid -> instance
        self.exc_ids = {}     # id(instance) -> eid
        self.handles = {}     # borrowed-resource handles by name
        self.values = {}      # return values seen
        self._serials = {}    # id(obj) -> (serial, obj)   (keeps objects alive: ids stay unique)
        self.fault_log = []   # (k, target, seq_at_injection, time, status_before) of injected cancels
        self.nested = []      # (id, inner log, inner error) of nested_run steps
        self.hooks = {}
        self.scope_tasks = {}  # scope name -> [task names spawned into it]
        self.samples = []     # per activation boundary: {task: (status, done)} (if sampling is on)
        o = prog.get('objs', {})
        self.tracked = [Tracked(v) for v in o.get('tracked', [])]
        if shared is None or not o.get('shared'):
            shared = {}          # (with prog['objs']['shared'] the objects outlive this simulation: a model's "static" objects)

        def once(key, make):
            if key not in shared:
                shared[key] = make()
            return shared[key]
        self.flags = [once(('flag', i), Flag) for i in range(o.get('flags', 0))]
        self.locks = [once(('lock', i), Lock) for i in range(o.get('locks', 0))]
        self.queues = [once(('queue', i), Queue) for i in range(o.get('queues', 0))]
        self.channels = [once(('channel', i), Channel) for i in range(o.get('channels', 0))]
        self.resources = {}
        for spec in o.get('resources', []):
            cls = Capacities if spec['kind'] == 'cap' else Resources
            self.resources[spec['name']] = once(('res', spec['name']), lambda cls=cls, spec=spec: cls(**spec['levels']))
        # condition objects that are built once and used by several steps (['named', i])
        self.named = [self.cond(e) for e in o.get('conds', [])]
        self.pipes = []
        self.ctxs = {}
        for spec in o.get('pipes', []):
            self.pipes.append(UnboundedPipe() if spec.get('unbounded') else Pipe(num(spec['thr'])))

    # ---- logging -------------------------------------------------------
    def ev(self, act, idx, kind, payload=None):
        self.seq += 1
        try:
            now = time.now
        except RuntimeError:
            now = None
        self.log.append((self.seq, act, idx, kind, now, payload, self.probe.k if self.probe else -1))
        return self.seq

    def serial(self, obj):
        """Small stable number per distinct object (identity without addresses)."""
        ent = self._serials.get(id(obj))
        if ent is None or ent[1]() is not obj:
            # (a weak reference where possible: the harness must not keep failures - and through their tracebacks and
            #  contexts the frames they unwound - alive longer than the program does)
            self._nserials = getattr(self, '_nserials', 0) + 1
            try:
                ref = weakref.ref(obj)
            except TypeError:
                ref = (lambda o=obj: o)
            ent = (self._nserials, ref)
            self._serials[id(obj)] = ent
        return ent[0]

    def describe(self, exc):
        """Address-free description of an exception object (identity-aware)."""
        if exc is None:
            return None
        eid = self.exc_ids.get(id(exc))
        if eid is not None and self.excs.get(eid) is exc:
            return ('prog', eid)
        if isinstance(exc, Concurrent):
            return ('conc', tuple(self.describe(c) for c in exc.children), self.serial(exc))
        if isinstance(exc, TaskCancelled):
            subj = None
            for n, t in self.tasks.items():
                if t is exc.subject:
                    subj = n
            return ('cancelled', subj, tuple(exc.args), self.serial(exc))
        if isinstance(exc, VolatileTaskClosed):
            return ('volclosed',)
        if isinstance(exc, TaskClosed):
            return ('closed',)
        if isinstance(exc, _CoreInterrupt):
            subj = getattr(exc, 'subject', None)
            who = None
            if subj is not None:
                for n, t in self.tasks.items():
                    if t is subj:
                        who = n
                for n, sc in self.scopes.items():
                    if sc is subj:
                        who = n
            return ('signal', type(exc).__name__, who)
        if isinstance(exc, GeneratorExit):
            return ('genexit',)
        if isinstance(exc, StreamClosed):
            return ('streamclosed',)
        if isinstance(exc, ResourcesUnavailable):
            return ('unavailable',)
        if isinstance(exc, ScopeClosed):
            return ('scopeclosed',)
        if isinstance(exc, IntervalExceeded):
            return ('intervalexceeded',)
        return ('other', type(exc).__name__, str(exc)[:200])

    def new_exc(self, eid, cls):
        if cls in EXC_CLASSES:
            e = EXC_CLASSES[cls](eid)
        elif cls in PRIV_CLASSES:
            e = PRIV_CLASSES[cls](eid)
        else:
            raise InvalidCase('exception class %r' % cls)
        if eid in self.excs:
            raise InvalidCase('duplicate eid %r' % eid)
        self.excs[eid] = e
        self.exc_ids[id(e)] = eid
        return e

    # ---- conditions ----------------------------------------------------
    def cond(self, e):
        k = e[0]
        if k == 'flag':
            return self.flags[e[1]]
        if k == 'named':
            return self.named[e[1]]
        if k == 'not':
            return ~self.cond(e[1])
        if k == 'and':
            return self.cond(e[1]) & self.cond(e[2])
        if k == 'or':
            return self.cond(e[1]) | self.cond(e[2])
        if k == 'tcmp':
            t = self.tracked[e[1]]
            return self._cmp(t, e[2], e[3])
        if k == 'tcmp2':
            return self._cmp(self.tracked[e[1]], e[2], self.tracked[e[3]])
        if k == 'done':
            return self._task(e[1]).done
        if k == 'time_ge':
            return self._date('ge', num(e[1]))      # (one object per date under the 'date_cache' hook: also shared by
                                                    #  the until-blocks, connectives and plain waits of one activity)
        if k == 'time_lt':
            return time < num(e[1])
        if k == 'time_eq':
            return self._date('eq', num(e[1]))
        if k == 'instant':
            return instant
        if k == 'eternity':
            return eternity
        if k == 'delay':
            return time + num(e[1])
        if k == 'rcmp':
            rhs = e[3]
            if len(e) > 4 and e[4] == 'obj':
                # compared with a levels object of the supply's own type instead of a dict
                rhs = type(self.resources[e[1]].levels)(**rhs)
            return self._cmp(self.resources[e[1]], e[2], rhs)
        if k == 'scope_done':
            return self.scopes[e[1]]
        raise InvalidCase('cond %r' % (e,))

    @staticmethod
    def _cmp(a, op, b):
        if op == '<':
            return a < b
        if op == '<=':
            return a <= b
        if op == '==':
            return a == b
        if op == '!=':
            return a != b
        if op == '>=':
            return a >= b
        if op == '>':
            return a > b
        raise InvalidCase('op %r' % op)

    def _date(self, kind, t):
        """a date condition; with a 'date_cache' hook the condition *objects* are shared between runs (a program
        may well keep `deadline = time >= 10` around and use it in its next simulation)"""
        cache = self.hooks.get('date_cache') if self.hooks else None
        if cache is None or (kind, t) not in cache:
            cond = (time == t) if kind == 'eq' else (time >= t)
            if cache is None:
                return cond
            cache[(kind, t)] = cond
        return cache[(kind, t)]

    def _task(self, ref):
        try:
            return self.tasks[ref]
        except KeyError:
            raise InvalidCase('task %r not spawned yet' % ref)

    # ---- activities ----------------------------------------------------
    async def activity(self, act):
        """Run one activity: logs start / end / exc / fin."""
        name = act['name']
        self.ev(name, (), 'start')
        try:
            ret = await self.steps(name, (), act['steps'])
        except BaseException as e:
            self.ev(name, (), 'exc', self.describe(e))
            raise
        else:
            self.ev(name, (), 'end', ret)
            return ret
        finally:
            self.ev(name, (), 'fin')

    async def steps(self, name, base, steps):
        ret = None
        for i, st in enumerate(steps):
            ret = await self._step(name, base + (i,), st)
            if st['op'] == 'return':
                return ret
        return None

    def spawn(self, scope, child, scope_name=None):
        kw = {}
        if child.get('after') is not None:
            kw['after'] = num(child['after'])
        if child.get('at') is not None:
            kw['at'] = num(child['at'])
        if child.get('volatile'):
            kw['volatile'] = True
        payload = self.activity(child)
        try:
            task = scope.do(payload, **kw)
        except ScopeClosed:
            import inspect
            return None, inspect.getcoroutinestate(payload)
        if child['name'] in self.tasks:
            raise InvalidCase('duplicate task name')
        self.tasks[child['name']] = task
        if scope_name:
            self.scope_tasks.setdefault(scope_name, []).append(child['name'])
        return task, None

    async def _block(self, name, idx, st, scope):
        """async with scope: spawn children, run body; log how the block ends."""
        catch = st.get('catch')
        try:
            async with scope as sc:
                if st.get('name'):
                    self.scopes[st['name']] = sc
                self.ev(name, idx, 'enter')
                for ch in st.get('children', ()):
                    self.spawn(sc, ch, st.get('name'))
                try:
                    await self.steps(name, idx + ('b',), st.get('body', ()))
                except BaseException as e:
                    self.ev(name, idx, 'body_exc', self.describe(e))
                    raise
                else:
                    self.ev(name, idx, 'body_end')
        except BaseException as e:
            d = self.describe(e)
            self.ev(name, idx, 'leave', d)
            self._snapshot(name, idx, st)
            if catch and d[0] in ('prog', 'conc') and not isinstance(e, tuple(PRIV_CLASSES.values())):
                return
            if st.get('catch_priv') and d[0] == 'prog' and isinstance(e, tuple(PRIV_CLASSES.values())):
                return
            raise
        else:
            self.ev(name, idx, 'leave', None)
            self._snapshot(name, idx, st)

    def _snapshot(self, name, idx, st):
        if st.get('name'):
            self.ev(name, idx, 'tasks', {n: (self.tasks[n].status.name, bool(self.tasks[n].done))
                                         for n in self.scope_tasks.get(st['name'], ())})

    async def _step(self, name, idx, st):
        op = st['op']
        ev = self.ev
        # --- time
        if op == 'sleep':
            await (time + num(st['d']))
            ev(name, idx, 'ok')
        elif op == 'at_eq':
            await self._date('eq', num(st['t']))
            ev(name, idx, 'ok')
        elif op == 'at_ge':
            await self._date('ge', num(st['t']))
            ev(name, idx, 'ok')
        elif op == 'at_lt':
            await (time < num(st['t']))
            ev(name, idx, 'ok')
        elif op == 'instant':
            await instant
            ev(name, idx, 'ok')
        elif op == 'eternity':
            await eternity
            ev(name, idx, 'ok')
        # --- conditions
        elif op == 'set_flag':
            ev(name, idx, 'set_begin', (st['i'], bool(st['v'])))
            if st.get('inv'):
                await (~self.flags[st['i']]).set(not st['v'])        # the same change made through the inverse
            else:
                await self.flags[st['i']].set(bool(st['v']))
            ev(name, idx, 'ok')
        elif op == 'tset':
            ev(name, idx, 'tset_begin', (st['i'], st['v']))
            await self.tracked[st['i']].set(st['v'])
            ev(name, idx, 'ok')
        elif op == 'tadd':
            ev(name, idx, 'tset_begin', (st['i'], self.tracked[st['i']].value + st['v']))
            await (self.tracked[st['i']] + st['v'])
            ev(name, idx, 'ok')
        elif op == 'top':
            # every operator of a tracked value (`await (tracked * 2)`, `await (tracked ** 2)`, ...) sets the new value
            import operator as _o
            fn = {'+': _o.add, '-': _o.sub, '*': _o.mul, '//': _o.floordiv, '%': _o.mod, '**': _o.pow, '<<': _o.lshift,
                  '>>': _o.rshift, '&': _o.and_, '|': _o.or_, '^': _o.xor, '/': _o.truediv}[st['o']]
            tr = self.tracked[st['i']]
            new = fn(tr.value, st['v'])
            ev(name, idx, 'tset_begin', (st['i'], new))
            await fn(tr, st['v'])
            ev(name, idx, 'ok')
        elif op == 'bools':
            # boolean value of conditions right now (no suspension): c, ~~c, and De Morgan forms
            res = []
            for e in st['exprs']:
                c = self.cond(e)
                row = [bool(c)]
                try:
                    row.append(bool(~~c))
                    row.append(bool(~c))
                except NotImplementedError:
                    row += [None, None]
                if e[0] in ('and', 'or'):
                    a, b = self.cond(e[1]), self.cond(e[2])
                    try:
                        dm = (~a | ~b) if e[0] == 'and' else (~a & ~b)
                        row.append(bool(dm))
                    except NotImplementedError:
                        row.append(None)
                else:
                    row.append(None)
                res.append(row)
            ev(name, idx, 'bools', res)
        elif op == 'await':
            c = self.cond(st['e'])
            ev(name, idx, 'begin')
            await c
            ev(name, idx, 'ok')
        # --- structure
        elif op == 'scope':
            await self._block(name, idx, st, Scope())
        elif op == 'until':
            await self._block(name, idx, st, until(self.cond(st['notif'])))
        elif op == 'raise':
            raise self.new_exc(st['eid'], st.get('cls', 'E'))
        elif op == 'raise_saved':
            # somebody re-raises an exception object that another activity has handled and handed on
            saved = self.__dict__.get('saved_excs')
            if saved:
                ev(name, idx, 'raise_saved')
                raise saved[-1]
            ev(name, idx, 'nothing_saved')
        elif op == 'cancel':
            t = self._task(st['ref'])
            before = t.status.name
            ev(name, idx, 'cancel_call', (st['ref'], before, tuple(st.get('token', ()))))
            t.cancel(*st.get('token', ()))
            ev(name, idx, 'ok')
        elif op == 'await_task':
            t = self._task(st['ref'])
            ev(name, idx, 'begin')
            try:
                v = await t
            except (ProgErr, Concurrent, TaskCancelled, TaskClosed, AssertionError) as e:
                ev(name, idx, 'got_exc', self.describe(e))
                if st.get('nocatch'):
                    raise
                if st.get('store'):
                    # the handler hands the exception object on (an error list, a report queue)
                    self.__dict__.setdefault('saved_excs', []).append(e)
                if st.get('hold') is not None:
                    # the handler goes on working: the frame that caught the exception stays alive and suspended
                    await (time + num(st['hold']))
                    ev(name, idx, 'held')
            else:
                ev(name, idx, 'got', v)
        elif op == 'await_done':
            t = self._task(st['ref'])
            ev(name, idx, 'begin')
            await t.done
            ev(name, idx, 'ok')
        elif op == 'await_scope':
            sc = self.scopes.get(st['ref'])
            if sc is None:
                raise InvalidCase('scope %r' % st['ref'])
            ev(name, idx, 'begin')
            await sc
            ev(name, idx, 'ok')
        elif op == 'spawn_into':
            sc = self.scopes.get(st['ref'])
            if sc is None:
                raise InvalidCase('scope %r' % st['ref'])
            task, state = self.spawn(sc, st['child'], st['ref'])
            ev(name, idx, 'spawned' if task is not None else 'refused', (st['child']['name'], state))
        elif op == 'return':
            ev(name, idx, 'ok')
            return st['v']
        elif op == 'status':
            t = self._task(st['ref'])
            ev(name, idx, 'status', (t.status.name, bool(t.done)))
        # --- sync
        elif op == 'lock':
            lk = self.locks[st['i']]
            ev(name, idx, 'request')
            try:
                async with lk:
                    ev(name, idx, 'enter')
                    try:
                        await self.steps(name, idx + ('b',), st.get('body', ()))
                    finally:
                        ev(name, idx, 'leave')
            finally:
                ev(name, idx, 'out')
        elif op == 'avail':
            ev(name, idx, 'avail', bool(self.locks[st['i']].available))
        elif op == 'respec':
            # two short-lived supplies with the same kinds of resources, one after the other (first fractional amounts,
            # then whole ones): what the second one looks like must not depend on whether the first has been collected
            r1 = Resources(**st['first'])
            async with r1.borrow(**{k: v for k, v in list(st['first'].items())[:1]}):
                ev(name, idx, 'levels', repr(dict(r1.levels)))
            del r1
            await (time + num(st.get('pause', 1)))
            r2 = Resources(**st['second'])
            part = {k: 1 for k in list(st['second'])[:1]}
            async with r2.borrow(**part):
                ev(name, idx, 'levels', repr(dict(r2.levels)))
            ev(name, idx, 'levels', repr(dict(r2.levels)))
            try:
                async with r2.claim(**st['second']):
                    ev(name, idx, 'claimed')
            except ResourcesUnavailable:
                ev(name, idx, 'unavailable')
        elif op == 'sampler':
            # a user-written async generator that owns a lock for as long as it is being iterated; the consumer keeps it
            # in a variable and works on every sample for a while
            async def sampler(lock, period):
                async with lock:
                    while True:
                        await (time + period)
                        yield time.now
            samples = sampler(self.locks[st['i']], num(st['period']))
            cnt = 0
            async for now in samples:
                ev(name, idx, 'got', now)
                cnt += 1
                await instant
                await (time + num(st['gap']))
                if cnt >= st['n']:
                    break
            await samples.aclose()
            ev(name, idx, 'ok', cnt)
        # --- streams
        elif op in ('qput', 'cput'):
            s = (self.queues if op == 'qput' else self.channels)[st['s']]
            pending = None
            if st.get('defer') is not None:
                # the operation is prepared first and performed later (as in `scope.do(queue.put(x), after=...)`):
                # what counts is the state of the stream when it is performed
                try:
                    pending = s.put(st['v'])
                except StreamClosed:
                    ev(name, idx, 'put_begin', st['v'])
                    ev(name, idx, 'put_refused', st['v'])
                    return None
                try:
                    if st['defer']:
                        await (time + num(st['defer']))
                    else:
                        await instant
                except BaseException:
                    pending.close()
                    raise
            ev(name, idx, 'put_begin', st['v'])
            try:
                await (pending if pending is not None else s.put(st['v']))
            except StreamClosed:
                ev(name, idx, 'put_refused', st['v'])
            else:
                ev(name, idx, 'put_ok', st['v'])
        elif op in ('qget', 'cget'):
            s = (self.queues if op == 'qget' else self.channels)[st['s']]
            ev(name, idx, 'get_begin')
            try:
                v = await s
            except StreamClosed:
                ev(name, idx, 'get_closed')
            else:
                ev(name, idx, 'got', v)
        elif op in ('qiter', 'citer'):
            s = (self.queues if op == 'qiter' else self.channels)[st['s']]
            n = st.get('n')
            gap = st.get('gap')
            ev(name, idx, 'iter_begin')
            cnt = 0
            try:
                if n != 0:
                    # (a plain `async for`: awaiting __anext__() by hand changes how CPython
                    #  finalises the async generator when the activity is closed)
                    ev(name, idx, 'get_begin')              # each wait of the iteration is logged
                    source = s
                    if st.get('explicit'):
                        source = _Explicit(s)       # `it = aiter(s)` kept in a variable, `await anext(it)` per step
                    async for v in source:
                        ev(name, idx, 'got', v)
                        cnt += 1
                        if cnt == 1 and st.get('body'):
                            # what the consumer does with its first message (e.g. a second subscription of its own)
                            await self.steps(name, idx + ('b',), st['body'])
                        if gap == 'tick':
                            # paced by absolute dates: work until the next whole tick of the clock
                            await (time >= math.floor(time.now) + 1)
                        elif gap:
                            await (time + num(gap))
                        if n is not None and cnt >= n:
                            break
                        ev(name, idx, 'get_begin')
            finally:
                ev(name, idx, 'iter_out', cnt)
            ev(name, idx, 'iter_end', cnt)
        elif op in ('qclose', 'cclose'):
            s = (self.queues if op == 'qclose' else self.channels)[st['s']]
            ev(name, idx, 'close_begin', bool(s.closed))       # (the public `closed` property, before and after)
            await s.close()
            ev(name, idx, 'close_ok', bool(s.closed))
        # --- resources
        elif op in ('borrow', 'claim'):
            src = self.handles.get(st['from']) if st.get('from') else self.resources[st['r']]
            if src is None:
                ev(name, idx, 'nohandle')
                return None
            ev(name, idx, 'acquiring', (st['amounts'], dict(src.levels)))
            phase = ['acquiring']
            try:
                if st.get('obj') and st['obj'] in self.ctxs:
                    ctx = self.ctxs[st['obj']]             # the same borrow object entered once more
                else:
                    ctx = src.borrow(**st['amounts']) if op == 'borrow' else src.claim(**st['amounts'])
                    if st.get('obj'):
                        self.ctxs[st['obj']] = ctx
                async with ctx as handle:
                    phase[0] = 'held'
                    if st.get('as'):
                        self.handles[st['as']] = handle
                    ev(name, idx, 'held', st['amounts'])
                    try:
                        await self.steps(name, idx + ('b',), st.get('body', ()))
                    finally:
                        phase[0] = 'releasing'
                        ev(name, idx, 'releasing', st['amounts'])
            except ResourcesUnavailable:
                ev(name, idx, 'unavailable', st['amounts'])
            except BaseException as e:
                ev(name, idx, 'abandoned', (phase[0], self.describe(e)))
                raise
            else:
                ev(name, idx, 'released', st['amounts'])
        elif op in ('increase', 'decrease', 'rset'):
            r = self.resources[st['r']]
            before = dict(r.levels)
            if op == 'decrease' and any(before[k] < v for k, v in st['amounts'].items()):
                ev(name, idx, 'decrease_skipped', (st['amounts'], before))   # a valid program checks first
                return None
            ev(name, idx, op + '_begin', (st['amounts'], before))
            await getattr(r, 'set' if op == 'rset' else op)(**st['amounts'])
            ev(name, idx, op + '_ok', st['amounts'])
        elif op == 'levels':
            r = self.handles[st['from']] if st.get('from') else self.resources[st['r']]
            ev(name, idx, 'levels', dict(r.levels))
        elif op == 'levels_iter':
            # the documented `for field, value in resources.levels`: the order is part of what a program sees
            r = self.handles[st['from']] if st.get('from') else self.resources[st['r']]
            for field, value in r.levels:
                ev(name, idx, 'field', (field, value))
            ev(name, idx, 'levels_repr', str(r.levels))
        elif op == 'transfer':
            p = self.pipes[st['p']]
            ev(name, idx, 'begin')
            if st.get('thr') is None:
                await p.transfer(num(st['total']))
            else:
                await p.transfer(num(st['total']), num(st['thr']))
            ev(name, idx, 'ok')
        # --- flow
        elif op in ('interval', 'delay'):
            fn = interval if op == 'interval' else delay
            durs = st['durs']
            ticker = fn(num(st['p']))
            if st.get('prepare') is not None:
                # the ticker object is created first and iterated later: its grid starts when the loop is entered
                try:
                    await (time + num(st['prepare']))
                except BaseException:
                    await ticker.aclose()
                    raise
            ev(name, idx, 'begin')
            k = 0
            try:
                async for now in ticker:
                    ev(name, idx, 'tick', now)
                    if k >= len(durs):
                        break
                    d = num(durs[k])
                    k += 1
                    if d is None:
                        pass
                    elif d == 0:
                        await instant
                    else:
                        await (time + d)
                    ev(name, idx, 'body_done', k)
            except IntervalExceeded:
                ev(name, idx, 'exceeded', k)
                if st.get('propagate'):
                    raise
            except ValueError:
                ev(name, idx, 'valueerror')
            else:
                ev(name, idx, 'ok', k)
        elif op == 'collect':
            ev(name, idx, 'begin')
            try:
                res = await collect(*[self.activity(a) for a in st['acts']])
            except (ProgErr, Concurrent, TaskCancelled, TaskClosed) as e:
                ev(name, idx, 'got_exc', self.describe(e))
            else:
                ev(name, idx, 'got', list(res))
        elif op == 'first':
            ev(name, idx, 'begin')
            kw = {}
            if 'count' in st:
                kw['count'] = st['count']
            cnt = 0
            acts = [self.activity(a) for a in st['acts']]
            results = first(*acts, **kw)          # (the iterator object stays referenced by this frame when 'keep' is set)
            if not st.get('keep'):
                results = _drop(results)
            try:
                async for v in (results if st.get('keep') else first_inline(results)):
                    ev(name, idx, 'got', v)
                    cnt += 1
                    if st.get('gap'):
                        await (time + num(st['gap']))
                    if st.get('brk') is not None and cnt >= st['brk']:
                        break
            except ValueError:
                for a in acts:
                    a.close()
                ev(name, idx, 'valueerror')
            except (ProgErr, Concurrent) as e:
                ev(name, idx, 'got_exc', self.describe(e))
            else:
                ev(name, idx, 'ok', cnt)
        elif op == 'finally':
            try:
                await self.steps(name, idx + ('b',), st.get('body', ()))
            finally:
                # synchronous clean-up only (it also runs on forceful close)
                for j, fs in enumerate(st.get('final', ())):
                    fidx = idx + ('f', j)
                    if fs['op'] == 'spawn_into':
                        sc = self.scopes.get(fs['ref'])
                        if sc is None:
                            ev(name, fidx, 'noscope')
                            continue
                        task, state = self.spawn(sc, fs['child'], fs['ref'])
                        ev(name, fidx, 'spawned' if task is not None else 'refused',
                           (fs['child']['name'], state))
                    elif fs['op'] == 'raise':
                        # clean-up code that fails (also while the activity is being closed)
                        raise self.new_exc(fs['eid'], fs.get('cls', 'E'))
                    elif fs['op'] == 'cancel':
                        t = self.tasks.get(fs['ref'])
                        if t is not None:
                            ev(name, fidx, 'cancel_call', (fs['ref'], t.status.name, tuple(fs.get('token', ()))))
                            t.cancel(*fs.get('token', ()))
                    else:
                        ev(name, fidx, 'mark', fs.get('v'))
        elif op == 'reenter':
            sc = self.scopes.get(st['ref'])
            if sc is None:
                ev(name, idx, 'noscope')
            else:
                try:
                    async with sc:
                        ev(name, idx, 'reentered')
                except RuntimeError:
                    ev(name, idx, 'reenter_refused')
        elif op == 'try':
            # user code handling a failure of its block (the block is left by that exception)
            try:
                await self.steps(name, idx + ('b',), st.get('body', ()))
            except (IntervalExceeded, ProgErr) as e:
                ev(name, idx, 'caught', self.describe(e))
        elif op == 'cleanup':
            # body with *asynchronous* clean-up on interruption (a payload that suspends while reacting
            # to a cancellation); never awaits on forceful close
            try:
                await self.steps(name, idx + ('b',), st.get('body', ()))
            except GeneratorExit:
                raise
            except BaseException as e:
                ev(name, idx, 'cleanup_begin', self.describe(e))
                await self.steps(name, idx + ('f',), st.get('final', ()))
                ev(name, idx, 'cleanup_end')
                raise
        elif op == 'nested_run':
            # a complete simulation run from inside this one (synchronously, as usim allows)
            ev(name, idx, 'nested_begin')
            inner = Interp(st['prog'])
            inner.hooks = self.hooks
            roots = inner.roots()
            err = None
            from .probe import _TLS as _tls
            ended = []
            if not hasattr(_tls, 'nested_end'):
                _tls.nested_end = []
            _tls.nested_end.append(lambda: ended.append(len(inner.log)))
            try:
                ip = st['prog']
                if ip.get('till') is not None:
                    usim.run(*roots, start=num(ip.get('start', 0)), till=num(ip['till']))
                else:
                    usim.run(*roots, start=num(ip.get('start', 0)))
            except BaseException as e:       # whatever the inner simulation ends with is only recorded
                if type(e).__name__ in ('Livelock', 'Runaway', 'WallTimeout'):
                    raise
                err = inner.describe(e)
                if err[0] == 'other' and isinstance(e, RuntimeError) and hasattr(e, 'result'):
                    err = ('leak', e.result)
            _tls.nested_end.pop()
            returned = len(inner.log)        # what is logged from here on happens after the nested run() has returned
            # later entries stem from closing abandoned coroutines
            seen = ended[0] if ended else len(inner.log)
            # (like a program would, the harness simply lets go of the nested simulation's activities)
            del roots
            self.nested.append((st.get('id'), [tuple(x[1:6]) for x in inner.log[:seen]], err))
            if not hasattr(self, 'nested_objs'):
                self.nested_objs = []
            # (only its log is kept: the nested simulation's objects go out of scope like a program's would)
            self.nested_objs.append((inner.log, returned))
            ev(name, idx, 'nested_end', err)
        elif op == 'gc_collect':
            import gc as _gc
            _gc.collect()
            ev(name, idx, 'ok')
        elif op == 'sync':
            hook = self.hooks.get('sync')
            if hook is not None:
                hook(st['id'])
            ev(name, idx, 'ok')
        elif op == 'now':
            ev(name, idx, 'now')
        elif op == 'mark':
            ev(name, idx, 'mark', st.get('v'))
        else:
            raise InvalidCase('unknown op %r' % op)
        return None

    # ---- entry ---------------------------------------------------------
    def roots(self):
        return [self.activity(a) for a in self.prog['roots']]


NOISE = [0]


def _unraisable(u):
    NOISE[0] += 1


def execute(prog, probe=None, wall=60, faults=(), sample=False, observe=None, hooks=None):
    """Run a program on the real usim.  Returns (interp, outcome, exc, probe).

    faults: [{'k': activation boundary, 'target': task name, 'token': [...]}]: before
    activation k the harness calls the public, synchronous `task.cancel(*token)` - exactly
    what the activity that ran in activation k-1 could have done as its last action.
    sample: record (status, done) of every known task at every boundary.
    `interp.end_seq` is the last log entry written while the simulation ran;
    later entries stem from closing abandoned coroutines and are not observations.
    """
    import sys
    import warnings
    from .probe import run_probed, Probe
    sys.unraisablehook = _unraisable      # GC-time noise of abandoned coroutines: counted only
    warnings.simplefilter('ignore')
    # every `raise` step stands for one exception object: a program that names one twice is not a program of the DSL
    # (only shrinking produces these; found out *inside* the simulation it would look like a failure of the activity)
    seen_eids = set()

    def _eids(node):
        if isinstance(node, dict):
            if node.get('op') == 'raise' and 'eid' in node:
                if node['eid'] in seen_eids:
                    raise InvalidCase('duplicate eid %r' % (node['eid'],))
                seen_eids.add(node['eid'])
            for v in node.values():
                _eids(v)
        elif isinstance(node, list):
            for v in node:
                _eids(v)
    _eids(prog.get('roots'))
    it = Interp(prog, shared=(hooks or {}).get('shared_objs'))
    if hooks:
        it.hooks = hooks
    roots = it.roots()
    till = prog.get('till')
    probe = probe or Probe()
    it.probe = probe
    if faults or sample or observe:
        by_k = {}
        for f in faults:
            by_k.setdefault(f['k'], []).append(f)

        def before(k, loop, it=it, by_k=by_k):
            if observe is not None:
                observe(it, k, loop)
            if sample:
                it.samples.append((k, loop.time, it.seq,
                                   {n: (t.status.name, bool(t.done)) for n, t in it.tasks.items()}))
            for f in by_k.get(k, ()):
                if f.get('kind') == 'flag':
                    # a notification fired by "somebody" exactly at this activation boundary (interrupts until(flag) blocks
                    # without ending the activity that is inside)
                    fl = it.flags[f['i']]
                    it.ev('harness', (), 'set_begin', (f['i'], True))
                    if not fl:
                        fl._value = True
                        fl.__trigger__()
                    it.fault_log.append((k, 'flag%d' % f['i'], it.seq, loop.time, 'FLAG', ()))
                    continue
                t = it.tasks.get(f['target'])
                if t is None:
                    it.fault_log.append((k, f['target'], it.seq, loop.time, None, tuple(f.get('token', ()))))
                    continue
                it.fault_log.append((k, f['target'], it.seq, loop.time, t.status.name,
                                     tuple(f.get('token', ()))))
                t.cancel(*f.get('token', ()))
        probe.before = before
    end_hint = []
    probe.on_end = lambda: end_hint.append(it.seq)
    outcome, exc, p = run_probed(roots, start=num(prog.get('start', 0)),
                                 till=None if till is None else num(till),
                                 probe=probe, wall=wall)
    # (entries written while usim unwinds activities that were still suspended at the end are not observations)
    it.end_seq = end_hint[0] if end_hint else it.seq
    it.roots_alive = roots
    if sample:
        it.samples.append((p.k, None, it.seq, {n: (t.status.name, bool(t.done)) for n, t in it.tasks.items()}))
    for r in roots:
        try:
            r.close()
        except BaseException:
            pass
    # Abandoned coroutines of a run must never be finalised by the cyclic GC *during a later
    # run* (their clean-up would schedule into that run's loop).  Automatic GC is therefore
    # disabled in harness processes (below); garbage is collected here, between runs.
    _RUNS[0] += 1
    if _RUNS[0] % 400 == 0:
        gc.collect()
    return it, outcome, exc, p


import gc  # noqa: E402
gc.disable()
_RUNS = [0]
