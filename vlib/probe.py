"""Activation probe: call-through wrappers around Loop._run_coroutine / Loop.schedule.

Installed by the harness in its own process (no source hooks).  Gives
  * the activation stream (k, time, target id, signal type),
  * a `before(k)` callback = fault-injection / sampling point,
  * hard bounds: activations per time step and in total.
Every execution of usim by the harness goes through `run_probed`.
"""
import gc
import signal as _signal
import sys
import usim
from usim._core import loop as _loop


class HarnessError(Exception):
    """The harness (not usim) is broken: exit 2, never a violation."""


class Livelock(BaseException):
    """More than B_step activations within one virtual time step."""


class Runaway(BaseException):
    """More than B_total activations in one run."""


class WallTimeout(BaseException):
    """Safety net only."""


for _name in ('_run_coroutine', 'schedule', '_run_events'):
    if not hasattr(_loop.Loop, _name):
        raise HarnessError('usim Loop lacks %s: probe cannot attach' % _name)

_ORIG_RUN = _loop.Loop._run_coroutine
_ORIG_SCHED = _loop.Loop.schedule


class Probe:
    __slots__ = ('k', 'b_step', 'b_total', 'before', 'acts', 'scheds', 'record',
                 'step_time', 'step_count', 'max_step', 'record_sched',
                 'monotone_ok', 'last_time', 'loop', 'total', 'on_end', 'absorbed', 'merged')

    def __init__(self, b_step=20000, b_total=200000, before=None, record=False,
                 record_sched=False):
        self.k = 0
        self.b_step = b_step
        self.b_total = b_total
        self.before = before
        self.record = record
        self.record_sched = record_sched
        self.acts = []      # (k, time, id(target), signal type name, qualname of the coroutine)
        self.scheds = []    # (k_at_call, due time or None(now), id(target), id(signal) or 0)
        self.step_time = None
        self.step_count = 0
        self.max_step = 0
        self.monotone_ok = True
        self.last_time = None
        self.loop = None
        self.total = 0
        self.merged = []    # with record and record_sched: ('s', due, target, signal) / ('r', signal) / ('a', time, target, signal)
        self.absorbed = False   # a positive delay vanished in the float resolution of the clock (now + delay == now)
        self.on_end = None      # called when the observed event loop stops (before usim unwinds what is left)


import threading as _threading


class _Stacks(_threading.local):
    def __init__(self):
        self.stack = []   # probes of (possibly nested) runs of *this thread*; innermost last


_TLS = _Stacks()


def _run_coroutine(self, target, signal=None):
    _STACK = _TLS.stack
    if not _STACK:
        return _ORIG_RUN(self, target, signal)
    p = _STACK[-1]
    if p.loop is None:
        p.loop = self
    p.total += 1
    if p.total > p.b_total:
        raise Runaway('%d activations' % p.total)
    if self is not p.loop:
        # a nested usim.run() started by the program: bounded, not observed
        return _ORIG_RUN(self, target, signal)
    now = self.time
    if p.last_time is not None and not (now >= p.last_time):
        p.monotone_ok = False
    p.last_time = now
    if now != p.step_time:
        p.step_time = now
        p.step_count = 0
    p.step_count += 1
    if p.step_count > p.max_step:
        p.max_step = p.step_count
    if p.step_count > p.b_step:
        raise Livelock('%d activations at time %r' % (p.step_count, now))
    if p.before is not None:
        p.before(p.k, self)
    if p.record:
        p.acts.append((p.k, now, id(target),
                       None if signal is None else type(signal).__name__,
                       getattr(target, '__qualname__', ''),
                       id(signal) if signal is not None else 0))
        if p.record_sched:
            p.merged.append(('a', now, id(target), id(signal) if signal is not None else 0))
    p.k += 1
    return _ORIG_RUN(self, target, signal)


def _schedule(self, target, signal=None, *, delay=None, at=None):
    _STACK = _TLS.stack
    if _STACK:
        p = _STACK[-1]
        if delay is not None and delay > 0 and self.time + delay == self.time:
            p.absorbed = True
        if p.record_sched and (p.loop is None or self is p.loop):
            due = self.time if (delay is None and at is None) else (
                self.time + delay if delay is not None else at)
            p.scheds.append((p.k, due, id(target), id(signal) if signal is not None else 0))
            if p.record:
                p.merged.append(('s', due, id(target), id(signal) if signal is not None else 0))
    return _ORIG_SCHED(self, target, signal, delay=delay, at=at)


def _revoke(self):
    _STACK = _TLS.stack
    if _STACK and _STACK[-1].record_sched and _STACK[-1].record:
        _STACK[-1].merged.append(('r', id(self)))
    return _ORIG_REVOKE(self)


def _run_events(self):
    try:
        return _ORIG_EVENTS(self)
    finally:
        # the event loop has stopped; what follows (usim unwinding activities that are still suspended) is clean-up
        _STACK = _TLS.stack
        if _STACK and _STACK[-1].loop is self and _STACK[-1].on_end is not None:
            _STACK[-1].on_end()
        elif getattr(_TLS, 'nested_end', None):
            _TLS.nested_end[-1]()       # (a nested simulation started by the program)


_ORIG_EVENTS = _loop.Loop._run_events
_ORIG_REVOKE = _loop.Interrupt.revoke
_loop.Interrupt.revoke = _revoke
_loop.Loop._run_coroutine = _run_coroutine
_loop.Loop.schedule = _schedule
_loop.Loop._run_events = _run_events


def _alarm(signum, frame):
    raise WallTimeout()


def run_probed(roots, start=0, till=None, probe=None, wall=60):
    """Run usim.run(*roots) under a probe.  Returns (outcome, exc, probe).

    outcome: 'ok' | 'exc' (exc leaving run) | 'livelock' | 'runaway' | 'timeout'
    """
    p = probe or Probe()
    _STACK = _TLS.stack
    _STACK.append(p)
    old = None
    use_alarm = wall and not _STACK[:-1]
    if use_alarm:
        try:
            old = _signal.signal(_signal.SIGALRM, _alarm)
            _signal.setitimer(_signal.ITIMER_REAL, wall)
        except ValueError:   # not main thread
            use_alarm = False
    try:
        try:
            if till is None:
                usim.run(*roots, start=start)
            else:
                usim.run(*roots, start=start, till=till)
            return 'ok', None, p
        except Livelock as e:
            return 'livelock', e, p
        except Runaway as e:
            return 'runaway', e, p
        except WallTimeout as e:
            return 'timeout', e, p
        except BaseException as e:  # noqa: the program's (or usim's) exception
            return 'exc', e, p
    finally:
        if use_alarm:
            _signal.setitimer(_signal.ITIMER_REAL, 0)
            _signal.signal(_signal.SIGALRM, old)
        _STACK.pop()


class quiet_gc:
    """Collect abandoned coroutines now and swallow their GC-time noise."""
    def __init__(self):
        self.noise = 0

    def __enter__(self):
        self._old = sys.unraisablehook
        sys.unraisablehook = self._hook
        return self

    def _hook(self, unraisable):
        self.noise += 1

    def __exit__(self, *a):
        gc.collect()
        sys.unraisablehook = self._old
        return False
