"""bin/check <ID> --tier quick|thorough [--replay FILE]"""
import argparse
import os
import sys


def main():
    ap = argparse.ArgumentParser()
    ap.add_argument('pid')
    ap.add_argument('--tier', default=os.environ.get('VERIF_TIER', 'quick'),
                    choices=['quick', 'thorough'])
    ap.add_argument('--replay', default=None)
    a = ap.parse_args()
    try:
        if os.environ.get('VERIF_COV'):       # development aid (tools/cov.py), never set by a registered command
            sys.path.insert(0, os.path.join(os.path.dirname(os.path.dirname(os.path.abspath(__file__))), 'tools'))
            import cov
            cov.maybe_install()
        import usim
        repo = os.path.realpath(os.environ.get('USIM_REPO', '/repo'))
        if not os.path.realpath(usim.__file__).startswith(repo + os.sep):
            print('HARNESS-ERROR: usim imported from %s, expected under %s' % (usim.__file__, repo),
                  file=sys.stderr)
            sys.exit(2)
        from vlib import runner
    except SystemExit:
        raise
    except BaseException:
        import traceback
        traceback.print_exc()
        print('HARNESS-ERROR: cannot import usim / harness', file=sys.stderr)
        sys.exit(2)
    try:
        runner.main('checks.%s' % a.pid.lower(), a.tier, a.replay)
    except SystemExit:
        raise
    except BaseException:
        import traceback
        traceback.print_exc()
        print('HARNESS-ERROR property=%s' % a.pid, file=sys.stderr)
        sys.exit(2)


if __name__ == '__main__':
    main()
