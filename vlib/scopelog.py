"""Static structure of a scope-tree program + per-activity/per-block views of its event log."""


class Structure:
    def __init__(self, prog):
        self.acts = {}           # name -> activity dict
        self.blocks = {}         # block name -> dict(owner=act, idx=path, node=step)
        self.block_children = {}  # block name -> [activity names] (static and spawn_into)
        self.act_blocks = {}     # act -> [block names owned by act]
        self.static_children = {}  # block -> [names listed in 'children']
        self.child_of = {}       # act -> block
        self.raises = {}         # eid -> cls
        self.spawn_steps = []    # (act, idx, ref, child name)
        for r in prog['roots']:
            self._act(r)

    def _act(self, a):
        self.acts[a['name']] = a
        self.act_blocks.setdefault(a['name'], [])
        self._steps(a['name'], (), a['steps'])

    def _steps(self, act, base, steps):
        for i, s in enumerate(steps):
            idx = base + (i,)
            op = s['op']
            if op in ('scope', 'until'):
                name = s.get('name')
                if name:
                    self.blocks[name] = dict(owner=act, idx=idx, node=s)
                    self.act_blocks[act].append(name)
                    self.block_children.setdefault(name, [])
                    self.static_children[name] = [c['name'] for c in s.get('children', ())]
                for c in s.get('children', ()):
                    if name:
                        self.block_children[name].append(c['name'])
                        self.child_of[c['name']] = name
                    self._act(c)
                self._steps(act, idx + ('b',), s.get('body', ()))
            elif op == 'spawn_into':
                self._spawn(act, idx, s)
            elif op == 'raise':
                self.raises[s['eid']] = s.get('cls', 'E')
            elif op == 'finally':
                self._steps(act, idx + ('b',), s.get('body', ()))
                for j, f in enumerate(s.get('final', ())):
                    if f['op'] == 'spawn_into':
                        self._spawn(act, idx + ('f', j), f)
                    elif f['op'] == 'raise':
                        self.raises[f['eid']] = f.get('cls', 'E')
            elif op == 'cleanup':
                self._steps(act, idx + ('b',), s.get('body', ()))
                self._steps(act, idx + ('f',), s.get('final', ()))
            elif 'body' in s:
                self._steps(act, idx + ('b',), s.get('body', ()))
            if op in ('collect', 'first'):
                for a in s.get('acts', ()):
                    self._act(a)

    def _spawn(self, act, idx, s):
        c = s['child']
        self.block_children.setdefault(s['ref'], []).append(c['name'])
        self.child_of[c['name']] = s['ref']
        self.spawn_steps.append((act, idx, s['ref'], c['name']))
        self._act(c)

    def descendants(self, block):
        out = []
        for c in self.block_children.get(block, ()):
            out.append(c)
            for b in self.act_blocks.get(c, ()):
                out += self.descendants(b)
        return out

    def step_at(self, act, idx):
        a = self.acts[act]
        steps, node = a['steps'], None
        for p in idx:
            if p == 'b':
                steps = node['body']
            elif p == 'f':
                steps = node['final']
            else:
                node = steps[p]
        return node


def by_activity(log, end_seq):
    per = {}
    for e in log:
        if e[0] > end_seq:
            break
        per.setdefault(e[1], []).append(e)
    return per


def foreign_exception(log, end_seq):
    """First log entry showing an exception that neither the program raised nor belongs to usim's documented
    signals/outcomes (payload kind 'other', also inside a Concurrent): the library failed on its own, even if a
    generated `catch` block or scope swallowed it afterwards."""
    def has_other(d):
        if not isinstance(d, (tuple, list)) or not d:
            return None
        if d[0] == 'other':
            return d
        if d[0] == 'conc':
            for c in d[1]:
                r = has_other(c)
                if r:
                    return r
        return None
    for e in log:
        if e[0] > end_seq:
            break
        if e[3] in ('exc', 'body_exc', 'leave', 'got_exc', 'cleanup_begin'):
            r = has_other(e[5])
            if r:
                return e, r
    return None
