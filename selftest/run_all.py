#!/usr/bin/env python3
"""Sensitivity self-test: run every mutant in selftest/mutants/ (file name cNN_<what>.diff) against the quick
check of property CNN in a scratch copy of /repo; write selftest/RESULTS.md."""
import os, subprocess, sys, concurrent.futures as cf
HERE = os.path.dirname(os.path.abspath(__file__))
muts = sorted(f for f in os.listdir(os.path.join(HERE, 'mutants')) if f.endswith('.diff'))
only = sys.argv[1:]

def run(m):
    prop = 'C' + m[1:3]
    r = subprocess.run([os.path.join(HERE, 'run_mutant.sh'), os.path.join(HERE, 'mutants', m), prop],
                       capture_output=True, text=True, timeout=3000, env=dict(os.environ, RUN_TESTS='1'))
    out = r.stdout
    tests = next((l.strip() for l in out.splitlines() if ' passed' in l or ' failed' in l), '?')
    caught = 'exit=1' in out and 'VIOLATION' in out
    sigs = sorted({l.split('sig=')[1].split()[0] for l in out.splitlines() if 'sig=' in l})[:4]
    return m, prop, tests, caught, sigs

rows = []
with cf.ThreadPoolExecutor(3) as ex:
    for res in ex.map(run, [m for m in muts if not only or m in only]):
        rows.append(res)
        print('%-45s %s %-6s tests: %s' % (res[0], res[1], 'CAUGHT' if res[3] else 'MISSED', res[2]), flush=True)
with open(os.path.join(HERE, 'RESULTS.md'), 'w') as f:
    f.write('# Mutation self-test (quick tier)\n\n| mutant | property | existing test suite | quick check | first signatures |\n|---|---|---|---|---|\n')
    for m, prop, tests, caught, sigs in rows:
        f.write('| %s | %s | %s | %s | %s |\n' % (m[:-5], prop, tests.split(' in ')[0], 'caught' if caught else '**missed**', ', '.join(sigs)))
    f.write('\ncaught %d of %d\n' % (sum(1 for r in rows if r[3]), len(rows)))
print('caught %d of %d' % (sum(1 for r in rows if r[3]), len(rows)))
