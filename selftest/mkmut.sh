#!/bin/bash
# selftest/mkmut.sh <name> <file relative to repo> <python expr over s (source text) returning new text>
NAME="$1"; FILE="$2"; EXPR="$3"
HERE="$(cd "$(dirname "$0")" && pwd)"
T="$(mktemp -d /tmp/mk.XXXX)"; trap 'rm -rf "$T"' EXIT
mkdir -p "$T/a/$(dirname "$FILE")" "$T/b/$(dirname "$FILE")"
cp "/repo/$FILE" "$T/a/$FILE"
python3 - "$T/a/$FILE" "$T/b/$FILE" "$EXPR" <<'PY'
import sys
s=open(sys.argv[1]).read()
n=eval(sys.argv[3])
assert n!=s, 'mutation did not change the file'
open(sys.argv[2],'w').write(n)
PY
[ $? = 0 ] || exit 1
(cd "$T" && diff -u "a/$FILE" "b/$FILE" > "$HERE/mutants/$NAME.diff"); echo "wrote mutants/$NAME.diff"
