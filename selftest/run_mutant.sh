#!/bin/bash
# selftest/run_mutant.sh <patch.diff> <ID> [tier]   -- apply patch to a scratch copy of /repo, run check, clean up.
# Expected: exit 1 + VIOLATION.  Scratch copy lives outside /repo and /verif and is removed.
HERE="$(cd "$(dirname "$0")/.." && pwd)"
PATCH="$(realpath "$1")"; ID="$2"; TIER="${3:-quick}"
SCR="$(mktemp -d /tmp/usim_mut.XXXXXX)"
trap 'rm -rf "$SCR"' EXIT
mkdir -p "$SCR/repo"
(cd /repo && git ls-files -z | xargs -0 cp --parents -t "$SCR/repo") || exit 2
(cd "$SCR/repo" && patch -p1 -s < "$PATCH") || { echo "patch failed"; exit 2; }
if [ -n "$RUN_TESTS" ]; then
  (cd "$SCR/repo" && PYTHONPATH="$SCR/repo" /venv/bin/python -m pytest -q -p no:cacheprovider -x --timeout=900 usim_pytest 2>&1 | tail -1)
fi
cp -r "$HERE" "$SCR/verif" && rm -rf "$SCR/verif/.git" "$SCR/verif/replays/$ID/found_"*
USIM_REPO="$SCR/repo" "$SCR/verif/bin/check" "$ID" --tier "$TIER" 2>&1 | grep -v '^   \|^ got\|^ want\|^ full' | cut -c1-260 | head -${LINES_MAX:-40}
RC=${PIPESTATUS[0]}
if [ -n "$SAVE_REPLAY" ]; then
  # keep (up to 2) shrunk failing cases as regression corpus of the real tree
  mkdir -p "$HERE/corpus/$ID"; n=0
  for f in "$SCR/verif/replays/$ID"/found_*.json; do
    [ -f "$f" ] || continue; n=$((n+1)); [ $n -gt 2 ] && break
    cp "$f" "$HERE/corpus/$ID/regress_$(basename "$PATCH" .diff)_$n.json"
  done
fi
echo "exit=$RC"
