"""C07 - until()/run(till) end the block exactly when the notification fires, else never.

The C01 clock model is extended with an independent evaluator of *when a notification fires*
(delays, date conditions incl. past/now, flags and tracked comparisons driven by one
controller activity, task completion, negations, connectives).
"""
import operator
from hypothesis import strategies as st

from vlib.runner import Check, Outcome, InvalidCase
from vlib.interp import execute, num, INF
from vlib.probe import Probe
from checks.c01 import ClockModel, NEVER, TIMED, resume, count_acts, KINDS

OPS = {'<': operator.lt, '<=': operator.le, '==': operator.eq, '!=': operator.ne, '>=': operator.ge, '>': operator.gt}


def has_connective(e):
    return e[0] in ('and', 'or') or (e[0] == 'not' and has_connective(e[1]))


def atoms(e, acc=None):
    acc = set() if acc is None else acc
    if e[0] in ('and', 'or'):
        atoms(e[1], acc)
        atoms(e[2], acc)
    elif e[0] == 'not':
        atoms(e[1], acc)
    else:
        acc.add(e[0])
    return acc


class Model(ClockModel):
    """Clock model + 'when does this notification fire'."""

    def __init__(self, prog):
        super().__init__()
        self.prog = prog
        self.timeline = []        # [(time, [state, ...])] controller driven states; state=(flags, tracked)
        self.hd_end = None
        self.pending_connective = False
        o = prog.get('objs', {})
        self.state0 = (tuple(False for _ in range(o.get('flags', 0))), tuple(o.get('tracked', [])))

    # -- the controller is a time-only activity: its timeline is known in advance
    def build_timeline(self, ctl, start):
        now = start
        flags, tracked = list(self.state0[0]), list(self.state0[1])
        steps_at = {}
        for s in ctl['steps']:
            if s['op'] in TIMED:
                now = resume(now, s)
                if now is NEVER:
                    break
            elif s['op'] == 'set_flag':
                flags[s['i']] = bool(s['v'])
                steps_at.setdefault(now, []).append((tuple(flags), tuple(tracked)))
            elif s['op'] == 'tset':
                tracked[s['i']] = s['v']
                steps_at.setdefault(now, []).append((tuple(flags), tuple(tracked)))
        self.timeline = sorted(steps_at.items())

    def state_before(self, c):
        st_ = self.state0
        for t, states in self.timeline:
            if t < c:
                st_ = states[-1]
        return st_

    def ev(self, e, state, c):
        k = e[0]
        if k == 'flag':
            return state[0][e[1]]
        if k == 'not':
            return not self.ev(e[1], state, c)
        if k == 'and':
            return self.ev(e[1], state, c) and self.ev(e[2], state, c)
        if k == 'or':
            return self.ev(e[1], state, c) or self.ev(e[2], state, c)
        if k == 'tcmp':
            return OPS[e[2]](state[1][e[1]], e[3])
        if k == 'tcmp2':
            return OPS[e[2]](state[1][e[1]], state[1][e[3]])
        if k == 'done':
            if self.hd_end is None:
                raise InvalidCase('done() of an unknown task')
            return c >= self.hd_end      # (a block is never entered in the very step the task ends)
        if k == 'time_ge':
            return c >= num(e[1])
        if k == 'time_lt':
            return c < num(e[1])
        if k == 'time_eq':
            return c == num(e[1])
        if k == 'instant':
            return True
        if k == 'eternity':
            return False
        raise InvalidCase('notification %r' % (e,))

    def dates(self, e, acc):
        if e[0] in ('and', 'or'):
            self.dates(e[1], acc)
            self.dates(e[2], acc)
        elif e[0] == 'not':
            self.dates(e[1], acc)
        elif e[0] in ('time_ge', 'time_lt', 'time_eq'):
            acc.add(num(e[1]))
        elif e[0] == 'done' and self.hd_end is not None:
            acc.add(self.hd_end)
        return acc

    def deadline(self, entry, notif):
        if notif[0] == 'delay':
            return entry + num(notif[1])
        if notif[0] == 'named':        # one condition object used by several blocks
            self.feat.add('shared_condition_object')
            notif = self.prog['objs']['conds'][notif[1]]
        driven = atoms(notif) & {'flag', 'tcmp', 'tcmp2'}
        ctl_times = [t for t, _ in self.timeline]
        if driven and entry in ctl_times:
            raise InvalidCase('ambiguous: block entered in a step in which the controller changes values')
        cands = {entry} | {d for d in self.dates(notif, set()) if d > entry} | {t for t in ctl_times if t > entry}
        for c in sorted(cands):
            if c in ctl_times:
                states = dict(self.timeline)[c]
            else:
                states = [self.state_before(c)]
            if has_connective(notif) and not self.ev(notif, states[-1], c) and any(self.ev(notif, s, c) for s in states):
                # a connective is evaluated by a helper activity after the controller's activation: whether a value
                # that is set and reverted within that activation counts as "fired" is not settled by the statement
                raise InvalidCase('connective true only inside one activation of the controller')
            if any(self.ev(notif, s, c) for s in states):
                if c > entry and has_connective(notif):
                    self.pending_connective = True
                    self.feat.add('connective_pending')
                if c == entry:
                    self.feat.add('already_true')
                return c
        if has_connective(notif):
            self.feat.add('connective_never')
        return INF

    def steps(self, act, base, steps, now, H):
        # controller steps take no time
        out = []
        for s in steps:
            if s['op'] in ('set_flag', 'tset'):
                out.append({'op': 'instant', '_ctl': True})
            else:
                out.append(s)
        return super().steps(act, base, out, now, H)


# ---------------------------------------------------------------------------
GRID = st.integers(-6, 32).map(lambda x: x / 4)
DELAYS = [0, 0.25, 0.5, 1, 1, 2, 3, 5]
CTL_TIMES = [0.625, 1.125, 1.625, 2.375, 3.125, 4.625]


@st.composite
def reuse_programs(draw):
    """One condition object (atom or connective) serves several until-blocks one after the other; in
    between it fires unobserved and reverts."""
    k = draw(st.sampled_from(['or', 'and', 'flag', 'tcmp']))
    if k == 'or':
        cond = ['or', ['flag', 0], ['flag', 1]]
        on, off = [{'op': 'set_flag', 'i': draw(st.integers(0, 1)), 'v': True}], \
                  [{'op': 'set_flag', 'i': 0, 'v': False}, {'op': 'set_flag', 'i': 1, 'v': False}]
    elif k == 'and':
        cond = ['and', ['flag', 0], ['not', ['flag', 1]]]
        on, off = [{'op': 'set_flag', 'i': 0, 'v': True}], [{'op': 'set_flag', 'i': 0, 'v': False}]
    elif k == 'flag':
        cond = ['flag', 0]
        on, off = [{'op': 'set_flag', 'i': 0, 'v': True}], [{'op': 'set_flag', 'i': 0, 'v': False}]
    else:
        cond = ['tcmp', 0, '>=', 2]
        on, off = [{'op': 'tset', 'i': 0, 'v': 3}], [{'op': 'tset', 'i': 0, 'v': 0}]
    times = sorted(draw(st.lists(st.sampled_from(CTL_TIMES), min_size=2, max_size=5, unique=True)))
    ctl = []
    for j, t in enumerate(times):
        ctl.append({'op': 'at_eq', 't': t})
        ctl += (on if j % 2 == 0 else off)
    steps = []
    for j in range(draw(st.integers(2, 4))):
        body = [{'op': 'sleep', 'd': draw(st.sampled_from([0.25, 0.5, 1, 2]))} for _ in range(draw(st.integers(0, 2)))]
        if draw(st.booleans()):
            body.append({'op': 'eternity'})
        if draw(st.integers(0, 2)) == 0:
            # a block of the same activity on the same object inside this one, which ends by itself first: the outer
            # block stays guarded
            body.insert(0, {'op': 'until', 'notif': ['named', 0], 'children': [],
                            'body': [{'op': 'sleep', 'd': draw(st.sampled_from([0, 0.25]))}]})
        steps.append({'op': 'until', 'notif': ['named', 0], 'children': [], 'body': body})
        steps.append({'op': 'sleep', 'd': draw(st.sampled_from([0.25, 0.5, 1, 1.5]))})
    hd = {'name': 'hd', 'steps': [{'op': 'sleep', 'd': 0.3125}]}
    prog = {'start': 0, 'objs': {'flags': 2, 'tracked': [0, 0], 'conds': [cond]},
            'roots': [{'name': 'ctl', 'steps': ctl},
                      {'name': 'r0', 'steps': [{'op': 'scope', 'children': [hd, {'name': 'a1', 'steps': steps}], 'body': []}]}]}
    return prog


@st.composite
def date_reuse_programs(draw):
    """One date condition object (`deadline = time >= T` / `time == T`) guards several blocks of several activities:
    entered long before T, exactly at T (in a later round of that step, after the date's trigger has fired), after T."""
    T = draw(st.sampled_from([1, 2, 2.5]))
    cond = [draw(st.sampled_from(['time_ge', 'time_eq'])), T]

    def block():
        body = [{'op': 'sleep', 'd': draw(st.sampled_from([0.25, 0.5, 1, 2]))} for _ in range(draw(st.integers(0, 2)))]
        if draw(st.booleans()):
            body.append({'op': 'eternity'})
        return {'op': 'until', 'notif': ['named', 0], 'children': [], 'body': body}
    acts = []
    for j in range(draw(st.integers(1, 2))):         # waiting for the date from the start
        acts.append({'name': 'e%d' % j, 'steps': [{'op': 'sleep', 'd': draw(st.sampled_from([0, 0.25, 0.5]))}, block(),
                                                  {'op': 'sleep', 'd': 0.25}]})
    for j in range(draw(st.integers(1, 3))):         # arriving exactly at the date, in round 0, 1, 2 ...
        arrive = [{'op': 'at_eq', 't': T}] if draw(st.booleans()) else [{'op': 'sleep', 'd': T}]
        acts.append({'name': 'x%d' % j, 'steps': arrive + [{'op': 'instant'}] * draw(st.integers(0, 3)) + [block(), {'op': 'sleep', 'd': 0.5}]})
    if draw(st.booleans()):                          # arriving later
        acts.append({'name': 'l0', 'steps': [{'op': 'sleep', 'd': T + draw(st.sampled_from([0.25, 1]))}, block(), {'op': 'sleep', 'd': 0.25}]})
    acts = draw(st.permutations(acts))
    hd = {'name': 'hd', 'steps': [{'op': 'sleep', 'd': 0.3125}]}
    return {'start': 0, 'objs': {'flags': 2, 'tracked': [0, 0], 'conds': [cond]},
            'roots': [{'name': 'ctl', 'steps': []},
                      {'name': 'r0', 'steps': [{'op': 'scope', 'children': [hd] + list(acts), 'body': []}]}]}


@st.composite
def timed_cleanup_cases(draw):
    """until-blocks whose interrupts arrive one after the other while the body is busy with clean-up that takes time
    (nested `finally` clauses that suspend), and a bounded clean-up (an until-block entered inside a `finally`)."""
    if draw(st.integers(0, 2)) == 0:
        inner = draw(st.sampled_from([['delay', 5], ['delay', 1], ['time_eq', 9], ['time_ge', 7.5]]))
        return {'tc': {'shape': 'bounded', 'deadlines': [draw(st.sampled_from([1, 2, 2.5]))], 'inner': inner, 'dur': 0}}
    k = draw(st.integers(1, 4))
    ds = draw(st.permutations([1, 2, 3, 4.5, 5]))[:k]
    return {'tc': {'shape': 'nested', 'deadlines': list(ds), 'stages': draw(st.integers(max(1, k - 1), k + 1)), 'dur': 7,
                   'handler': draw(st.booleans())}}


@st.composite
def toggle_programs(draw):
    """A connective over operands that go back and forth before the whole becomes true."""
    kind = draw(st.sampled_from(['and', 'and', 'nor', 'and3', 'or']))
    nfl = 3 if kind == 'and3' else 2
    if kind == 'and':
        cond = ['and', ['flag', 0], ['flag', 1]]
    elif kind == 'nor':
        cond = ['not', ['or', ['not', ['flag', 0]], ['not', ['flag', 1]]]]
    elif kind == 'and3':
        cond = ['and', ['and', ['flag', 0], ['flag', 1]], ['flag', 2]]
    else:
        cond = ['or', ['flag', 0], ['flag', 1]]
    if draw(st.integers(0, 3)) == 0:
        cond = ['and', cond, ['tcmp', 0, '>=', 2]]
    times = sorted(draw(st.lists(st.sampled_from(CTL_TIMES), min_size=3, max_size=6, unique=True)))
    ctl = []
    vals = [False] * nfl
    # operands that hold already when the block is entered (and are withdrawn later, before the whole becomes true)
    early = draw(st.booleans())
    if early:
        for i in range(nfl):
            if draw(st.booleans()):
                vals[i] = True
                ctl.append({'op': 'set_flag', 'i': i, 'v': True})
    for t in times:
        ctl.append({'op': 'at_eq', 't': t})
        for _ in range(draw(st.integers(1, 2))):
            i = draw(st.integers(0, nfl - 1))
            vals[i] = not vals[i]
            ctl.append({'op': 'set_flag', 'i': i, 'v': vals[i]})
        if draw(st.integers(0, 4)) == 0:
            ctl.append({'op': 'tset', 'i': 0, 'v': draw(st.sampled_from([0, 3]))})
    body = [{'op': 'sleep', 'd': draw(st.sampled_from([0.25, 0.5, 1, 2, 6]))} for _ in range(draw(st.integers(0, 2)))]
    body.append({'op': 'eternity'} if draw(st.integers(0, 3)) else {'op': 'sleep', 'd': 7})
    notif = ['named', 0] if draw(st.booleans()) else cond
    steps = [{'op': 'sleep', 'd': draw(st.sampled_from([0.25, 0.5] if early else [0, 0.25, 0.5]))},
             {'op': 'until', 'notif': notif, 'children': [], 'body': body}, {'op': 'sleep', 'd': 0.5}]
    if draw(st.integers(0, 2)) == 0:
        steps = [{'op': 'until', 'notif': ['delay', draw(st.sampled_from([2, 4, 8]))], 'children': [], 'body': steps}]
    hd = {'name': 'hd', 'steps': [{'op': 'sleep', 'd': 0.3125}]}
    return {'start': 0, 'objs': {'flags': nfl, 'tracked': [0, 0], 'conds': [cond]},
            'roots': [{'name': 'ctl', 'steps': ctl},
                      {'name': 'r0', 'steps': [{'op': 'scope', 'children': [hd, {'name': 'a1', 'steps': steps}], 'body': []}]}]}


@st.composite
def exit_programs(draw):
    """Nested until() blocks whose notifications fire in one time step while the innermost body leaves through a
    block with asynchronous (timeless) clean-up: the interrupt of an outer block must not get lost."""
    depth = draw(st.integers(2, 4))
    t = draw(st.sampled_from(CTL_TIMES))
    order = draw(st.permutations(list(range(depth))))
    ctl = [{'op': 'at_eq', 't': t}]
    for j, i in enumerate(order):
        ctl.append({'op': 'set_flag', 'i': i, 'v': True})
        if j < depth - 1 and draw(st.integers(0, 3)) == 0:
            ctl.append({'op': 'instant'})
    inner = [{'op': 'cleanup', 'body': [{'op': 'sleep', 'd': draw(st.sampled_from([6, 9]))}],
              'final': [{'op': 'instant'} for _ in range(draw(st.integers(1, 3)))]}]
    for i in reversed(range(depth)):
        blk = {'op': 'until', 'notif': ['flag', i], 'children': [], 'body': inner}
        inner = [blk, {'op': 'sleep', 'd': draw(st.sampled_from([0.5, 1, 2]))}]
        if draw(st.integers(0, 2)) == 0 and i:
            inner = [{'op': 'cleanup', 'body': inner, 'final': [{'op': 'instant'}]}]
    hd = {'name': 'hd', 'steps': [{'op': 'sleep', 'd': 0.3125}]}
    return {'start': 0, 'objs': {'flags': depth, 'tracked': [0, 0], 'conds': []},
            'roots': [{'name': 'ctl', 'steps': ctl},
                      {'name': 'r0', 'steps': [{'op': 'scope', 'children': [hd, {'name': 'a1', 'steps': inner}], 'body': []}]}]}


@st.composite
def programs(draw, tier, connectives=False):
    big = tier == 'thorough'
    counter = [0]
    nflags, ntr = 2, 2

    def name():
        counter[0] += 1
        return 'a%d' % counter[0]

    def atom():
        k = draw(st.integers(0, 11))
        if k < 3:
            return ['flag', draw(st.integers(0, nflags - 1))]
        if k < 4:
            return ['not', ['flag', draw(st.integers(0, nflags - 1))]]
        if k < 6:
            return ['tcmp', draw(st.integers(0, ntr - 1)), draw(st.sampled_from(sorted(OPS))), draw(st.integers(0, 3))]
        if k < 7:
            return ['done', 'hd'] if draw(st.booleans()) else ['not', ['done', 'hd']]
        if k < 8:
            return ['time_ge', draw(GRID)]
        if k < 9:
            return ['time_eq', draw(GRID)]
        if k < 10:
            return ['time_lt', draw(GRID)]
        if k < 11:
            return ['instant'] if draw(st.integers(0, 3)) == 0 else ['eternity']
        return ['tcmp2', 0, draw(st.sampled_from(sorted(OPS))), 1]

    named = []

    def notif():
        if draw(st.integers(0, 3)) == 0:
            return ['delay', draw(st.sampled_from(DELAYS))]
        if named and draw(st.integers(0, 2)) == 0:
            return ['named', draw(st.integers(0, len(named) - 1))]
        if connectives and draw(st.booleans()):
            a, b = atom(), atom()
            if a[0] == 'time_eq' or b[0] == 'time_eq':
                return [draw(st.sampled_from(['and', 'or'])), a, b]
            e = [draw(st.sampled_from(['and', 'or'])), a, b]
            return ['not', e] if draw(st.integers(0, 4)) == 0 else e
        return atom()

    def timed():
        k = draw(st.sampled_from(['sleep', 'sleep', 'sleep', 'at_eq', 'at_ge', 'at_lt', 'instant', 'at_ctl']))
        if k == 'sleep':
            return {'op': 'sleep', 'd': draw(st.sampled_from(DELAYS))}
        if k == 'at_ctl':      # wake in a step in which the controller acts: same-step ties with flags
            return {'op': 'at_ge', 't': draw(st.sampled_from(CTL_TIMES))}
        if k in ('at_eq', 'at_ge', 'at_lt'):
            return {'op': k, 't': draw(GRID)}
        return {'op': k}

    def steps(depth, maxlen):
        out = []
        for _ in range(draw(st.integers(1 if depth == 0 else 0, maxlen))):
            r = draw(st.integers(0, 9))
            if r < 6 or depth >= (3 if big else 2):
                out.append(timed())
            else:
                blk = {'op': 'until' if r < 9 else 'scope', 'children': [], 'body': steps(depth + 1, 3)}
                if blk['op'] == 'until':
                    blk['notif'] = notif()
                    if draw(st.integers(0, 3)) == 0:
                        blk['body'].append({'op': 'eternity'})
                for _ in range(draw(st.integers(0, 2))):
                    ch = {'name': name(), 'steps': steps(depth + 1, 3)}
                    if draw(st.integers(0, 3)) == 0:
                        ch['after'] = draw(st.sampled_from(DELAYS))
                    blk['children'].append(ch)
                out.append(blk)
        return out

    if connectives or draw(st.integers(0, 3)) == 0:
        for _ in range(draw(st.integers(1, 2))):
            a, b = atom(), atom()
            while a[0] == 'done' or (a[0] == 'not' and a[1][0] == 'done'):
                a = atom()
            while b[0] == 'done' or (b[0] == 'not' and b[1][0] == 'done'):
                b = atom()
            named.append([draw(st.sampled_from(['and', 'or'])), a, b] if connectives else a)
    hd = {'name': 'hd', 'steps': [{'op': 'sleep', 'd': draw(st.sampled_from([0.3125, 0.8125, 1.5625, 2.0625, 3.3125]))}]}
    mains = [{'name': name(), 'steps': steps(0, 6 if big else 5)} for _ in range(draw(st.integers(1, 4 if big else 3)))]
    r0 = {'name': 'r0', 'steps': [{'op': 'scope', 'children': [hd] + mains, 'body': []}]}
    ctl_steps = []
    for t in sorted(draw(st.lists(st.sampled_from(CTL_TIMES), min_size=1, max_size=4, unique=True))):
        ctl_steps.append({'op': 'at_eq', 't': t})
        for _ in range(draw(st.integers(0, 2))):
            ctl_steps.append({'op': 'instant'})
        for _ in range(draw(st.integers(1, 3))):
            if draw(st.booleans()):
                ctl_steps.append({'op': 'set_flag', 'i': draw(st.integers(0, nflags - 1)), 'v': draw(st.booleans())})
            else:
                ctl_steps.append({'op': 'tset', 'i': draw(st.integers(0, ntr - 1)), 'v': draw(st.integers(0, 3))})
    ctl = {'name': 'ctl', 'steps': ctl_steps}
    prog = {'start': draw(st.sampled_from([0, 0, 0, -3, -1.5])),
            'objs': {'flags': nflags, 'tracked': [draw(st.integers(0, 3)) for _ in range(ntr)], 'conds': named},
            'roots': [ctl, r0]}
    if draw(st.integers(0, 3)) == 0:
        prog['till'] = draw(st.sampled_from([0, 0.5, 1, 2, 3, 4.625, 6, 20]))
        if prog['till'] < prog['start']:
            prog['till'] = 0
    return prog


def shift_program(prog, off):
    """the same program on a clock that starts `off` later (every absolute date moved): with a large, exactly
    representable offset the float resolution is ~1e-7 - dates one tick of the grid apart are still different dates"""
    import copy as _copy
    prog = _copy.deepcopy(prog)

    def expr(e):
        if not isinstance(e, list) or not e:
            return
        if e[0] in ('time_ge', 'time_lt', 'time_eq') and not isinstance(e[1], str):
            e[1] = e[1] + off
        for x in e[1:]:
            if isinstance(x, list):
                expr(x)

    def walk(steps):
        for st_ in steps:
            if st_.get('op') in ('at_eq', 'at_ge', 'at_lt'):
                st_['t'] = st_['t'] + off
            if 'notif' in st_:
                expr(st_['notif'])
            for ch in st_.get('children', ()) or ():
                if ch.get('at') is not None:
                    ch['at'] = ch['at'] + off
                walk(ch['steps'])
            walk(st_.get('body', ()) or ())
            walk(st_.get('final', ()) or ())
    prog['start'] = prog['start'] + off
    if prog.get('till') is not None:
        prog['till'] = prog['till'] + off
    for c in prog.get('objs', {}).get('conds', ()) or ():
        expr(c)
    for r in prog['roots']:
        walk(r['steps'])
    return prog


class C07(Check):
    pid = 'C07'
    level = 'exploration'
    rule = ('Programs in the C01 language (timed waits, nested Scope/until, children with after=) whose until() '
            'notifications are delays, date conditions (>=, ==, < with future/now/past dates), instant, eternity, flags and '
            'tracked comparisons driven by one controller activity (incl. set-and-revert within one step), task completion '
            'and its negation, negations, and (side stream) connectives; bodies that wake in the very step the controller '
            'acts; optional run(till=T) with T >= start. Oracle: C01 clock model + independent evaluation of the trigger '
            'time. non-trivial = notification already true on entry, or trigger and completion in one time step, or '
            'nesting >= 2 untils, or till; distinct by sha1. Side streams: one condition object reused by several blocks, connectives '
            'whose operands toggle back and forth, nested untils fired in one step while the body unwinds through asynchronous clean-up, '
            'one date condition object guarding blocks entered before/at/after its date, 1-4 nested untils whose interrupts arrive during '
            'clean-up that takes time (also generated as one coroutine function), programs shifted to a clock starting at 2^31.')
    budgets = {'quick': dict(examples=2400, procs=4), 'thorough': dict(examples=200000, procs=16)}
    level_text = ('For every generated program the exit time of every block must equal min(trigger, completion, enclosing '
                  'triggers) from the model, every event before that time must happen and none after it, blocks ended by '
                  'their own notification raise nothing, the activity continues per the model afterwards, and with till=T '
                  'nothing is logged or activated at a time later than T.')
    level_note = ('Controller times lie off the program grid so that value changes never coincide with a block entry; cases '
                  'that would be order-dependent are discarded (counted as invalid). Events exactly at a deadline are '
                  'optional. until(connective) that is false on entry is finding D2 (side stream only).')
    technique = 'property-based testing against a reference clock + notification-trigger model'
    design_ref = 'DESIGN.md section 3, C07'

    def strategy(self, tier):
        main = programs(tier, connectives=False)
        side = programs(tier, connectives=True)
        # ... and the same kinds of programs on a clock with large values (seconds since 1970, say)
        late = st.one_of(main, side, side, toggle_programs()).map(lambda pr: shift_program(pr, 2.0 ** 31))
        return st.one_of(main, main, main, main, main, main, side, reuse_programs(), toggle_programs(), exit_programs(),
                         date_reuse_programs(), timed_cleanup_cases(), late)

    # ---- directed family: interrupts that arrive while the body is busy with clean-up that takes time
    @staticmethod
    def tc_program(tc):
        dur = tc['dur']
        if tc['shape'] == 'nested':
            ds = tc['deadlines']                    # outermost ... innermost
            inner = [{'op': 'eternity'}]
            for _ in range(tc['stages']):
                inner = [{'op': 'cleanup', 'body': inner, 'final': [{'op': 'sleep', 'd': dur}]}]
            for n, d in enumerate(reversed(ds)):
                inner = [{'op': 'until', 'notif': ['time_eq', d], 'children': [], 'body': inner}]
                if n < len(ds) - 1:
                    inner.append({'op': 'sleep', 'd': 50})        # the enclosing block's body would go on
            steps = inner + [{'op': 'sleep', 'd': 0.25}]
        else:
            # a bounded clean-up: an until-block entered while the outer interrupt is unwinding the body
            fin = [{'op': 'until', 'notif': tc['inner'], 'children': [], 'body': [{'op': 'eternity'}]}, {'op': 'sleep', 'd': 0.5}]
            body = [{'op': 'cleanup', 'body': [{'op': 'eternity'}], 'final': fin}]
            steps = [{'op': 'until', 'notif': ['time_eq', tc['deadlines'][0]], 'children': [], 'body': body}, {'op': 'sleep', 'd': 0.25}]
        return {'start': 0, 'objs': {'flags': 1, 'tracked': [0], 'conds': []},
                'roots': [{'name': 'r0', 'steps': [{'op': 'until', 'notif': ['time_eq', 500], 'children': [
                    {'name': 'a1', 'steps': steps}], 'body': []}]}]}

    @staticmethod
    def tc_source(tc):
        """the same program as *one* coroutine function (blocks, clean-up clauses and the code after them share one frame;
        the DSL interpreter runs every step in a frame of its own)"""
        L = ['async def act(log):']

        def emit(depth, text):
            L.append('    ' * depth + text)
        if tc['shape'] == 'nested':
            ds, m, dur = tc['deadlines'], tc['stages'], tc['dur']
            for i, d in enumerate(ds):
                emit(1 + i, 'async with until(time == %r):' % d)
            base = 1 + len(ds)
            for j in range(m):
                emit(base + j, 'try:')
            emit(base + m, 'await eternity')
            for j in reversed(range(m)):
                emit(base + j, 'finally:')
                emit(base + j + 1, "log('cleanup_begin')")
                if tc.get('handler'):
                    # the clean-up waits inside the handler of an exception of its own
                    emit(base + j + 1, 'try:')
                    emit(base + j + 2, "raise KeyError('refused')")
                    emit(base + j + 1, 'except KeyError:')
                    emit(base + j + 2, 'await (time + %r)' % dur)
                else:
                    emit(base + j + 1, 'await (time + %r)' % dur)
                emit(base + j + 1, "log('cleanup_end')")
            for i in reversed(range(len(ds))):
                if i:
                    emit(1 + i, "log('went_on_inside_block_%d')" % (i - 1))
                    emit(1 + i, 'await (time + 50)')
            emit(1, "log('leave')")
            emit(1, 'await (time + 0.25)')
            emit(1, "log('ok')")
        else:
            inner = tc['inner']
            cond = {'delay': 'time + %r', 'time_eq': 'time == %r', 'time_ge': 'time >= %r'}[inner[0]] % inner[1]
            emit(1, 'async with until(time == %r):' % tc['deadlines'][0])
            emit(2, 'try:')
            emit(3, 'await eternity')
            emit(2, 'finally:')
            emit(3, "log('cleanup_begin')")
            emit(3, 'async with until(%s):' % cond)
            emit(4, 'await eternity')
            emit(3, "log('leave')")
            emit(3, 'await (time + 0.5)')
            emit(3, "log('ok')")
            emit(3, "log('cleanup_end')")
            emit(1, "log('leave')")
            emit(1, 'await (time + 0.25)')
            emit(1, "log('ok')")
        return '\n'.join(L) + '\n'

    def tc_case(self, case):
        out = Outcome()
        out.evals = 1
        tc = case['tc']
        dur = tc['dur']
        ds = sorted(tc['deadlines'])
        if len(set(ds)) != len(ds) or not ds or (tc['shape'] == 'nested' and dur <= ds[-1] - ds[0]) or min(ds) <= 0:
            raise InvalidCase('deadlines must be distinct, positive, and closer together than one clean-up stage')
        want = []
        if tc['shape'] == 'nested':
            k, m = len(ds), tc['stages']
            if not (k - 1 <= m <= k + 1) or m < 1:
                raise InvalidCase('stages')
            now = None
            for i in range(1, m + 1):
                if i <= k:
                    now = ds[i - 1]
                    want.append(('cleanup_begin', now))
                else:
                    want.append(('cleanup_begin', now))
                if i >= k:
                    now = now + dur
                    want.append(('cleanup_end', now))
            end = ds[-1] if m < k else now
            want += [('leave', end)] * k + [('ok', end + 0.25)]
        else:
            t0 = ds[0]
            inner = tc['inner']
            t1 = t0 + num(inner[1]) if inner[0] == 'delay' else num(inner[1])
            if t1 <= t0:
                raise InvalidCase('inner deadline')
            want = [('cleanup_begin', t0), ('leave', t1), ('ok', t1 + 0.5), ('cleanup_end', t1 + 0.5), ('leave', t1 + 0.5), ('ok', t1 + 0.75)]
        prog = self.tc_program(tc)
        it, outcome, exc, p = execute(prog, Probe(b_step=4000, b_total=40000))
        if outcome != 'ok':
            out.fail('run_outcome', 'timed_cleanup:%s:%s' % (outcome, type(exc).__name__), 'run() ended with %s %r' % (outcome, exc))
        got = [(e[3], e[4]) for e in it.log if e[0] <= it.end_seq and e[1] == 'a1' and e[3] in ('cleanup_begin', 'cleanup_end', 'leave', 'ok')
               and (e[3] != 'ok' or 'f' not in e[2] or tc['shape'] == 'bounded')]
        bad = [e for e in it.log if e[0] <= it.end_seq and e[1] == 'a1' and e[3] == 'leave' and e[5] is not None
               and e[5][0] not in ('signal', 'genexit')]
        if bad:
            out.fail('block_exception', 'timed_cleanup:' + str(bad[0][5][0]), 'block left with %r' % (bad[0][5],))
        if got != want:
            sig = 'mismatch'
            for a, b in zip(got, want):
                if a != b:
                    sig = ('wrong_time:' + a[0]) if a[0] == b[0] else 'wrong_event'
                    break
            else:
                sig = ('unexpected:' + got[len(want)][0]) if len(got) > len(want) else ('missing:' + want[len(got)][0])
            out.fail('clock_model', 'timed_cleanup:' + sig, 'until-blocks %r around clean-up that takes time (%r)\n got  %r\n want %r' % (
                tc['deadlines'], tc, got, want))
        # the same program written as one coroutine function
        import usim
        ns = {'until': usim.until, 'time': usim.time, 'eternity': usim.eternity}
        exec(self.tc_source(tc), ns)
        got2 = []

        async def guard():
            async with usim.until(usim.time == 500):
                await ns['act'](lambda what: got2.append((what, usim.time.now)))
        from vlib.probe import _TLS
        pr = Probe(b_step=4000, b_total=40000)
        _TLS.stack.append(pr)
        try:
            try:
                usim.run(guard())
            except BaseException as e:      # noqa
                out.fail('run_outcome', 'timed_cleanup:one_frame:%s' % type(e).__name__, 'run() ended with %r\n%s' % (e, self.tc_source(tc)))
        finally:
            _TLS.stack.pop()
        out.evals += 1
        if tc['shape'] == 'nested':
            want2 = [w for w in want if w[0] != 'leave'][:-1] + [('leave', want[-1][1] - 0.25), want[-1]]
        else:
            want2 = want
        if got2 != want2 and not any(f.oracle == 'run_outcome' for f in out.failures):
            sig = 'mismatch'
            for a, b in zip(got2, want2):
                if a != b:
                    sig = ('wrong_time:' + a[0]) if a[0] == b[0] else ('wrong_event:' + a[0].rstrip('0123456789'))
                    break
            else:
                sig = ('unexpected:' + got2[len(want2)][0]) if len(got2) > len(want2) else ('missing:' + want2[len(got2)][0])
            out.fail('clock_model', 'timed_cleanup:one_frame:' + sig, 'got  %r\nwant %r\n%s' % (got2, want2, self.tc_source(tc)))
        out.features = {'timed_cleanup', 'timed_cleanup_' + tc['shape']}
        out.nontrivial = True
        return out

    def run_case(self, prog, tier='quick'):
        if 'tc' in prog:
            return self.tc_case(prog)
        out = Outcome()
        out.evals = 1
        model = Model(prog)
        start = num(prog['start'])
        till = prog.get('till')
        H = INF if till is None else num(till)
        if H < start:
            raise InvalidCase('till before start')
        roots = {r['name']: r for r in prog['roots']}
        if 'ctl' in roots:
            model.build_timeline(roots['ctl'], start)
        # the helper task's end (time-only)
        for r in prog['roots']:
            for s in r['steps']:
                for ch in s.get('children', ()) or ():
                    if ch['name'] == 'hd':
                        model.hd_end = start + sum(num(x['d']) for x in ch['steps'])
        model.roots = set(roots)
        for r in prog['roots']:
            model.activity(r, start, H)
        nacts = len(prog['roots']) + sum(count_acts(r['steps']) for r in prog['roots'])
        probe = Probe(b_step=400 * (nacts + 5), b_total=4000 * (nacts + 5), record=till is not None)
        it, outcome, exc, p = execute(prog, probe)
        pre = 'connective_pending:' if model.pending_connective else ''
        if outcome != 'ok':
            out.fail('run_outcome', pre + '%s:%s' % (outcome, type(exc).__name__), 'run() ended with %s %r' % (outcome, exc))
        if till is not None:
            # activations of program activities (roots and task payloads); internal helper coroutines
            # such as a date condition's trigger are not program code
            late = [a for a in p.acts if a[1] > H and a[4].endswith('Interp.activity')]
            if late:
                out.fail('till', pre + 'activation_after_till', 'activation at t=%r with till=%r' % (late[0][1], H))
        got = {}
        for e in it.log:
            if e[0] > it.end_seq:
                break
            if e[3] in KINDS and 'f' not in e[2]:           # (clean-up code after an interruption is not modelled)
                got.setdefault(e[1], []).append((e[2], e[3], e[4]))
                if e[3] == 'leave' and e[5] is not None and e[5][0] not in ('signal', 'genexit'):
                    out.fail('block_exception', pre + str(e[5][0]), 'block %s%s left with %r' % (e[1], e[2], e[5]))
            if till is not None and e[4] is not None and e[4] > H:
                out.fail('till', pre + 'event_after_till', '%r logged at t=%r with till=%r' % (e[1:4], e[4], H))
        for act, exp in model.exp.items():
            have = got.get(act, [])
            hs = set(have)
            want = [(i, k, t) for (i, k, t, opt) in exp if not opt or (i, k, t) in hs]
            if have != want:
                sig = 'mismatch'
                for a, b in zip(have, want):
                    if a != b:
                        sig = 'wrong_time:' + a[1] if a[:2] == b[:2] else 'wrong_event'
                        break
                else:
                    sig = ('unexpected:' + have[len(want)][1]) if len(have) > len(want) else ('missing:' + want[len(have)][1])
                out.fail('clock_model', pre + sig, 'activity %s\n got  %r\n want %r' % (act, have, want))
        for act in got:
            if act not in model.exp:
                out.fail('clock_model', pre + 'unknown_activity', act)
        out.features = set(model.feat)
        if till is not None:
            out.features.add('till')
        # trigger and completion within one step: some optional event exists
        if any(opt for exp in model.exp.values() for (_, _, _, opt) in exp):
            out.features.add('tie_trigger_completion')
        out.nontrivial = bool(out.features & {'already_true', 'tie_trigger_completion', 'till'})
        if model.pending_connective:
            out.excluded = 0
        return out


CHECK = C07()
