"""C12 - resources are conserved: never negative, never leaked, claims never wait."""
import copy
from hypothesis import strategies as st

from vlib.runner import Check, Outcome
from vlib.interp import execute
from vlib.probe import Probe
from vlib.scopelog import foreign_exception, Structure

HOLDS = [0, 0, 0.5, 1, 2]


@st.composite
def cases(draw, tier):
    big = tier == 'thorough'
    fields = ['a'] if draw(st.integers(0, 2)) else ['a', 'b']
    kind = draw(st.sampled_from(['cap', 'res']))
    cap = {f: draw(st.integers(1, 4)) for f in fields}
    big_units = draw(st.integers(0, 5)) == 0      # large quantities (e.g. bytes): 10**10 + small
    hn = [0]
    sl = lambda: {'op': 'sleep', 'd': draw(st.sampled_from(HOLDS))}  # noqa

    BIG = 10 ** 10
    if big_units:
        cap = {f: BIG + v for f, v in cap.items()}

    def amounts(limit):
        am = {f: draw(st.integers(0, min(limit[f], 4))) for f in fields if draw(st.integers(0, 3)) or len(fields) == 1}
        if draw(st.integers(0, 5)) == 0:
            am = dict(limit)            # the full supply
        elif big_units and draw(st.integers(0, 2)) == 0:
            am = {f: max(limit[f] - draw(st.integers(0, 3)), 0) for f in fields}     # almost everything
        return am

    def block(limit, src, depth):
        am = amounts(limit)
        hn[0] += 1
        h = 'h%d' % hn[0]
        body = []
        for _ in range(draw(st.integers(0, 3))):
            r = draw(st.integers(0, 9))
            if r < 5:
                body.append(sl())
            elif r < 6:
                body.append({'op': 'instant'})
            elif r < 8 and depth < 2 and am and draw(st.integers(0, 2)) == 0:
                # tasks of a scope opened inside the block borrow parts of the share (closed forcefully when the block is
                # left abnormally: their parts are on the way back while the share itself is handed back)
                full = {f: am.get(f, 0) for f in fields}
                hn[0] += 1
                kids_ = [{'name': 'n%d_%d' % (hn[0], j), 'steps': ([sl()] if draw(st.booleans()) else []) + [block(full, {'from': h}, depth + 1)]}
                         for j in range(draw(st.integers(1, 2)))]
                if draw(st.integers(0, 3)) == 0:
                    kids_[-1]['volatile'] = True
                body.append({'op': 'scope', 'name': 'N%d' % hn[0], 'catch': True, 'children': kids_, 'body': [sl()]})
            elif r < 8 and depth < 2 and am:
                full = {f: am.get(f, 0) for f in fields}
                body.append(block(full, {'from': h}, depth + 1))
            else:
                body.append({'op': 'levels', 'from': h})
        blk = {'op': draw(st.sampled_from(['borrow', 'borrow', 'claim'])), 'amounts': am, 'body': body, 'as': h}
        blk.update(src)
        return blk

    def borrower(i):
        steps = []
        if draw(st.booleans()):
            steps.append({'op': 'sleep', 'd': draw(st.sampled_from([0, 0.5, 1, 2]))})
        for _ in range(draw(st.integers(1, 2))):
            b = block(cap, {'r': 'R'}, 0)
            inner = b
            w = draw(st.integers(0, 9))
            if w == 0:
                b = {'op': 'until', 'name': 'U%d_%d' % (i, len(steps)), 'children': [], 'body': [b],
                     'notif': ['delay', draw(st.sampled_from([0.5, 1, 2]))]}
            elif w == 1:
                b = {'op': 'until', 'name': 'U%d_%d' % (i, len(steps)), 'children': [], 'body': [b], 'notif': ['flag', 0]}
            steps.append(b)
            if draw(st.integers(0, 2)) == 0:
                steps.append(sl())
            if draw(st.integers(0, 4 if w > 1 else 1)) == 0 and "'scope'" not in str(inner):
                # the same borrow object is entered a second time (after the first use ended - normally, or interrupted
                # by the until() around it)
                inner['obj'] = inner['as']
                steps.append(copy.deepcopy(inner))
        return {'name': 'b%d' % i, 'steps': steps}

    kids = [borrower(i) for i in range(draw(st.integers(2, 5 if big else 4)))]
    if kind == 'res' and draw(st.booleans()):
        msteps = []
        for _ in range(draw(st.integers(1, 4))):
            r = draw(st.integers(0, 9))
            am = {f: draw(st.integers(0, 3)) for f in fields if draw(st.booleans()) or len(fields) == 1}
            if r < 3:
                msteps.append({'op': 'increase', 'r': 'R', 'amounts': am})
            elif r < 6:
                msteps.append({'op': 'decrease', 'r': 'R', 'amounts': am})
            elif r < 7 and am:
                msteps.append({'op': 'rset', 'r': 'R', 'amounts': am})
            else:
                msteps.append(sl())
        kids.append({'name': 'm0', 'steps': msteps})
    for k in kids:
        if draw(st.integers(0, 4)) == 0:
            k['volatile'] = True
    blk = {'op': 'scope', 'name': 'S', 'children': kids, 'body': [sl()], 'catch': True}
    if draw(st.integers(0, 5)) == 0:
        blk['op'], blk['notif'] = 'until', (['delay', draw(st.sampled_from([0.5, 1, 2, 3]))] if draw(st.booleans()) else ['flag', 0])
    ctl = {'name': 'ctl', 'steps': [{'op': 'at_eq', 't': draw(st.sampled_from([0.5, 1, 2]))}] +
           [{'op': 'instant'} for _ in range(draw(st.integers(0, 3)))] + [{'op': 'set_flag', 'i': 0, 'v': True}]}
    fin = {'name': 'fin', 'steps': [{'op': 'at_ge', 't': 500}, {'op': 'levels', 'r': 'R'}]}
    prog = {'start': 0, 'objs': {'flags': 1, 'resources': [{'kind': kind, 'name': 'R', 'levels': cap}]},
            'roots': [{'name': 'r0', 'steps': [blk]}, ctl, fin]}
    targets = [k['name'] for k in kids if k['name'].startswith('b')]
    if big and draw(st.integers(0, 2)) == 0:
        faults = 'all'
    else:
        faults = draw(st.lists(st.fixed_dictionaries({'k': st.integers(0, 150), 'target': st.sampled_from(targets),
                                                      'token': st.just([1])}), max_size=5))
    return {'prog': prog, 'targets': targets, 'faults': faults, 'fields': fields,
            'ctl_sweep': big and draw(st.integers(0, 2)) == 0}


def vec(d, fields):
    return tuple(d.get(f, 0) for f in fields)


def judge(out, case, it, oc, exc, obs, ctx):
    prog, fields = case['prog'], case['fields']
    if oc != 'ok':
        out.fail('run_outcome', ('exc:' + type(exc).__name__) if oc == 'exc' else oc, '%r;%s' % (exc, ctx))
        return
    fe = foreign_exception(it.log, it.end_seq)
    if fe:
        out.fail('run_outcome', 'activity_exc:%s' % fe[1][1], '%s%s ended with %r, which the program did not raise;%s' % (
            fe[0][1], fe[0][2], fe[1], ctx))
    S = Structure(prog)
    log = [e for e in it.log if e[0] <= it.end_seq]
    init = vec(prog['objs']['resources'][0]['levels'], fields)
    # ---- per block instance: phases
    blocks = {}
    for e in log:
        if e[3] in ('acquiring', 'held', 'releasing', 'released', 'abandoned', 'unavailable'):
            b = blocks.setdefault((e[1], e[2]), {'node': S.step_at(e[1], e[2])})
            b[e[3]] = e
    interrupted = set()
    for key, b in blocks.items():
        b['amt'] = vec(b['acquiring'][5][0], fields)
        b['src'] = b['node'].get('from') or 'R'
        end = b.get('released') or b.get('abandoned') or b.get('unavailable')
        b['end_seq'] = end[0] if end else None
        b['linger_until'] = None
        ab = b.get('abandoned')
        if ab is not None:
            phase, desc = ab[5]
            # left abnormally: the give-back may be dispatched as new activities, which run
            # within this time step (documented for forceful close); until the clock moves on
            # the block still counts as "releasing"
            b['linger_until'] = ab[4]
            if desc[0] == 'genexit':
                out.features.add('forceful_close')
            if phase == 'held' or (phase == 'releasing' and b['releasing'][6] == ab[6]):
                out.features.add('interrupted_while_held')
            else:
                interrupted.add(phase)
                out.features.add('interrupted_in_' + phase)
        # claims
        if b['node']['op'] == 'claim':
            avail = vec(b['acquiring'][5][1], fields)
            should_fail = any(a < w for a, w in zip(avail, b['amt']))
            if should_fail != ('unavailable' in b):
                out.fail('claim', 'refused_wrongly' if 'unavailable' in b else 'not_refused',
                         'claim %r with %r available;%s' % (b['amt'], avail, ctx))
            if 'held' in b and b['held'][4] != b['acquiring'][4]:
                out.fail('claim', 'claim_waited', 'claim entered at t=%r, asked at t=%r;%s' % (b['held'][4], b['acquiring'][4], ctx))
            if not should_fail and 'held' not in b and b.get('abandoned') is None and b['end_seq'] is None:
                out.fail('claim', 'claim_waited', 'claim of available resources never entered;%s' % ctx)
            out.features.add('claim')
    # ---- supply over time: initial +- completed increase/decrease/set
    changes = []      # (seq, delta)
    for e in log:
        if e[3] == 'increase_begin':
            changes.append((e[0], vec(e[5][0], fields)))
        elif e[3] == 'decrease_begin':
            changes.append((e[0], tuple(-x for x in vec(e[5][0], fields))))
        elif e[3] == 'rset_begin':
            am, before = e[5]
            changes.append((e[0], tuple((am[f] - before[f]) if f in am else 0 for f in fields)))
    if changes:
        out.features.add('supply_changes')

    def supply_at(seq):
        s = list(init)
        for (cs, d) in changes:
            if cs <= seq:
                s = [x + y for x, y in zip(s, d)]
        return tuple(s)

    # ---- invariant at every boundary
    demand_exceeded = False
    for (k, seq, now, levels, hlevels) in obs:
        sup = supply_at(seq)
        inflight = [0] * len(fields)
        held = [0] * len(fields)
        for key, b in blocks.items():
            if b['src'] != 'R' or b['acquiring'][0] > seq:
                continue
            over = b['end_seq'] is not None and b['end_seq'] <= seq
            if over and b['linger_until'] is not None and now is not None and now <= b['linger_until']:
                over = False
            if not over and 'unavailable' not in b:
                inflight = [x + y for x, y in zip(inflight, b['amt'])]
            if 'held' in b and b['held'][0] <= seq and not ('releasing' in b and b['releasing'][0] <= seq):
                held = [x + y for x, y in zip(held, b['amt'])]
        lv = vec(levels, fields)
        if any(x > s for x, s in zip(inflight, sup)):
            demand_exceeded = True
        if any(x < 0 for x in lv):
            out.fail('levels', 'negative', 'levels %r at k=%d t=%r;%s' % (lv, k, now, ctx))
        elif any(x < s - i for x, s, i in zip(lv, sup, inflight)):
            sig = 'below_lower_bound'
            if interrupted:
                sig = 'leak_after_interrupted_' + '+'.join(sorted(interrupted))
            out.fail('conservation', sig, 'levels %r < supply %r - acquiring/held/releasing %r at k=%d t=%r;%s' % (
                lv, sup, tuple(inflight), k, now, ctx))
            break
        elif any(x > s - h for x, s, h in zip(lv, sup, held)):
            sig = 'above_upper_bound'
            if interrupted:
                sig = 'surplus_after_interrupted_' + '+'.join(sorted(interrupted))
            out.fail('conservation', sig, 'levels %r > supply %r - held %r at k=%d t=%r;%s' % (lv, sup, tuple(held), k, now, ctx))
            break
        # nested shares
        for h, hl in hlevels.items():
            # (one handle name may belong to several uses of one borrow object: the use that holds it right now)
            owner = next((b for b in blocks.values() if b['node'].get('as') == h and 'held' in b and b['held'][0] <= seq
                          and not ('releasing' in b and b['releasing'][0] <= seq)), None)
            if owner is None:
                continue
            share = owner['amt']
            nin = [0] * len(fields)
            nheld = [0] * len(fields)
            for b in blocks.values():
                if b['src'] != h or b['acquiring'][0] > seq or 'unavailable' in b:
                    continue
                over = b['end_seq'] is not None and b['end_seq'] <= seq
                if over and b['linger_until'] is not None and now is not None and now <= b['linger_until']:
                    over = False        # (left abnormally: the give-back to the share runs within this time step, as above)
                if not over:
                    nin = [x + y for x, y in zip(nin, b['amt'])]
                if 'held' in b and b['held'][0] <= seq and not ('releasing' in b and b['releasing'][0] <= seq):
                    nheld = [x + y for x, y in zip(nheld, b['amt'])]
            hv = vec(hl, fields)
            if any(x < 0 for x in hv) or any(x > s for x, s in zip(hv, share)):
                out.fail('nested', 'share_exceeded', 'share %s levels %r outside [0, %r];%s' % (h, hv, share, ctx))
            elif any(x < s - i for x, s, i in zip(hv, share, nin)) or any(x > s - hh for x, s, hh in zip(hv, share, nheld)):
                if not interrupted:
                    out.fail('nested', 'share_not_conserved', 'share %s levels %r, share %r, nested in-flight %r held %r;%s' % (
                        h, hv, share, nin, nheld, ctx))
            out.features.add('nested')
    # ---- quiescence: everything returned; nobody waits for something that is available
    if obs:
        k, seq, now, levels, hlevels = obs[-1]
        sup = supply_at(it.end_seq)
        lv = vec(levels, fields)
        still_held = [0] * len(fields)
        for b in blocks.values():
            if b['src'] == 'R' and 'held' in b and b['end_seq'] is None:
                still_held = [x + y for x, y in zip(still_held, b['amt'])]
        if not any(still_held) and lv != sup:
            sig = 'final_level_mismatch'
            if interrupted:
                sig = 'leak_after_interrupted_' + '+'.join(sorted(interrupted))
            out.fail('conservation', sig, 'at quiescence levels %r != supply %r;%s' % (lv, sup, ctx))
        for b in blocks.values():
            if b['src'] == 'R' and b['end_seq'] is None and 'held' not in b and b['node']['op'] == 'borrow':
                if all(x >= w for x, w in zip(lv, b['amt'])):
                    sig = 'waiting_although_available'
                    if interrupted:
                        sig += '_after_interrupted_' + '+'.join(sorted(interrupted))
                    out.fail('liveness', sig, 'borrow %r still waiting at quiescence with %r available;%s' % (b['amt'], lv, ctx))
    return demand_exceeded


class C12(Check):
    pid = 'C12'
    level = 'fault_enumeration'
    rule = ('One supply (Capacities or Resources, 1-2 named integer resources) with 2-5 borrowers/claimants (amounts '
            'incl. 0 and the full supply, holds incl. 0, nested borrowing from a borrowed share, blocks inside until(), '
            'volatile borrowers, optional enclosing until()), concurrent increase/decrease/set; Task.cancel injected at '
            'sampled (thorough: all) boundaries of every borrower; levels sampled at every activation boundary. '
            'non-trivial = demand exceeded supply at some boundary, or a block was interrupted/closed while acquiring, '
            'holding or releasing; distinct by sha1(program+faults). Also tasks of a scope opened inside a borrow block that borrow '
            'parts of the share, and pairs of stop signals within a few activations.')
    budgets = {'quick': dict(examples=1600, procs=4), 'thorough': dict(examples=12000, procs=16)}
    level_text = ('Sequential resource model + exhaustive boundary cancel injection: at every activation boundary '
                  'supply - (acquiring+held+releasing) <= levels <= supply - held and levels >= 0 (nested shares '
                  'likewise), levels == supply at quiescence, claims refuse exactly when unavailable on entry and never '
                  'wait, no borrower waits at quiescence for resources that are available.')
    level_note = ('Supply model from logged completed increase/decrease/set; phases from interpreter log. A forcefully '
                  'closed block counts as releasing until the clock moves on (documented dispatch of the give-back).')
    technique = 'property-based testing with boundary fault injection; conservation invariant sampled at every activation boundary against a sequential resource model'
    design_ref = 'DESIGN.md section 4, C12'

    def strategy(self, tier):
        return cases(tier)

    def _run(self, case, faults):
        obs = []

        def observe(it, k, loop):
            obs.append((k, it.seq, loop.time, dict(it.resources['R'].levels),
                        {h: dict(r.levels) for h, r in it.handles.items()}))
        it, oc, exc, p = execute(case['prog'], Probe(b_step=5000, b_total=50000), faults=faults, observe=observe)
        if oc == 'ok':
            obs.append((p.k, it.end_seq, None, dict(it.resources['R'].levels), {}))
        return it, oc, exc, p, obs

    def run_case(self, case, tier='quick'):
        out = Outcome()
        it, oc, exc, p, obs = self._run(case, ())
        it0 = it
        out.evals = 1
        d = judge(out, case, it, oc, exc, obs, ' faults=None')
        N = p.k
        if case['faults'] == 'all':
            plan = [[{'k': k, 'target': t, 'token': [1]}] for t in case['targets'] for k in range(N + 1)][:1500]
        else:
            plan = [[dict(f, k=f['k'] % (N + 1))] for f in case['faults']]
            # two stop signals for one borrower within a few activations (second cancel, also in the very same turn)
            plan += [[dict(f, k=f['k'] % (N + 1)), dict(f, k=(f['k'] % (N + 1)) + j, token=[2])]
                     for j, f in enumerate(case['faults'][:3])]
        if 'until' in str(case['prog']['roots'][0]):
            # the flag that until(flag) blocks wait for fires at activation boundaries (the interrupted activity goes on,
            # e.g. to use the same borrow object again)
            ks = range(N + 1) if case['faults'] == 'all' else sorted({(f['k'] * 7 + 3) % (N + 1) for f in case['faults']})
            plan += [[{'kind': 'flag', 'i': 0, 'k': k}] for k in ks][:400]
        for faults in plan:
            it, oc, exc, p, obs = self._run(case, faults)
            out.evals += 1
            d = judge(out, case, it, oc, exc, obs, ' faults=%r' % (faults,)) or d
        if d or {'forceful_close', 'interrupted_in_acquiring', 'interrupted_in_releasing',
                 'interrupted_while_held'} & out.features:
            out.nontrivial = True
        if case.get('ctl_sweep'):
            from vlib.gen import ctl_variants
            for q in ctl_variants(case['prog'], it0):
                c2 = dict(case, prog=q)
                it, oc, exc, p, obs = self._run(c2, ())
                out.evals += 1
                judge(out, c2, it, oc, exc, obs, ' ctl=%r' % ([r['steps'] for r in q['roots'] if r['name'] == 'ctl'][0][:1],))
            out.features.add('ctl_sweep')
        return out


CHECK = C12()
