"""C05 - a scope fails as itself or as Concurrent: promptly, with exactly the right content."""
from hypothesis import strategies as st

from vlib.runner import Check, Outcome
from vlib.interp import execute, PRIV_CLASSES
from vlib.probe import Probe
from vlib.gen import scope_programs, fault_strategy
from vlib.scopelog import Structure, by_activity

REAL = ('prog', 'conc', 'other')          # descriptors of genuine failures
QUIET = ('cancelled', 'closed', 'volclosed', 'genexit', 'signal')


@st.composite
def replaced_abort_programs(draw):
    """A child fails while the body of its scope sits in an inner until-block whose notification fires in that very time
    step, and the body's way out leads through asynchronous (timeless) clean-up: the abort of the scope must not get lost
    behind the inner block's own interrupt - the scope ends at the time of the failure, with that failure."""
    d = draw(st.sampled_from([0.5, 1, 2]))
    kind = draw(st.sampled_from(['done', 'done', 'flag', 'flag', 'time_eq', 'delay', 'time_ge']))
    notif = {'done': ['done', 'f'], 'flag': ['flag', 0], 'time_eq': ['time_eq', d], 'delay': ['delay', d], 'time_ge': ['time_ge', d]}[kind]
    inner = {'op': 'cleanup', 'body': [{'op': 'sleep', 'd': draw(st.sampled_from([6, 9]))}],
             'final': [{'op': 'instant'} for _ in range(draw(st.integers(1, 3)))]}
    depth = draw(st.integers(1, 2))
    body = [inner]
    for i in range(depth):
        body = [{'op': 'until', 'name': 'U%d' % i, 'notif': notif if i == 0 else ['flag', 1], 'catch': True, 'children': [], 'body': body},
                {'op': 'sleep', 'd': 1}, {'op': 'mark', 'v': 'went on'}]
        if draw(st.integers(0, 3)) == 0:
            body = [{'op': 'cleanup', 'body': body, 'final': [{'op': 'instant'}]}]
    kids = [{'name': 'f', 'steps': [{'op': 'sleep', 'd': d}] + [{'op': 'instant'} for _ in range(draw(st.integers(0, 2)))] +
             [{'op': 'raise', 'eid': 1, 'cls': draw(st.sampled_from(['E', 'K', 'A']))}]}]
    if draw(st.booleans()):
        kids.append({'name': 'g', 'steps': [{'op': 'sleep', 'd': draw(st.sampled_from([0.5, 3]))}, {'op': 'sleep', 'd': 4}]})
    if draw(st.booleans()):
        kids.reverse()
    ctl = [{'op': 'at_eq', 't': d}] + [{'op': 'instant'} for _ in range(draw(st.integers(0, 3)))] + [
        {'op': 'set_flag', 'i': 0, 'v': True}, {'op': 'set_flag', 'i': 1, 'v': True}]
    roots = [{'name': 'r', 'steps': [{'op': 'scope', 'name': 'S', 'catch': True, 'catch_priv': True, 'children': kids, 'body': body},
                                     {'op': 'sleep', 'd': 1}]},
             {'name': 'ctl', 'steps': ctl}]
    if draw(st.booleans()):
        roots.reverse()
    return {'prog': {'start': 0, 'objs': {'flags': 2, 'locks': 1, 'queues': 1}, 'roots': roots}, 'targets': ['f'], 'faults': []}


@st.composite
def cases(draw, tier):
    if draw(st.integers(0, 11)) == 0:
        return draw(replaced_abort_programs())
    c = draw(scope_programs(tier, fail=5, volatile=2, until=2, late_spawn=1, priv=2, finally_spawn=0,
                            nocatch=2, uncaught_blocks=5, finally_raise=2, sync=2, near_dates=2, catch_priv=5))
    if tier == 'thorough' and draw(st.integers(0, 3)) == 0:
        c['faults'] = 'all'
    else:
        c['faults'] = draw(fault_strategy(c['targets'], n=3))
    return c


def strip(d):
    """Descriptor without Concurrent serial numbers (for content comparison)."""
    if d is None:
        return None
    if d[0] == 'conc':
        return ('conc', tuple(strip(c) for c in d[1]))
    return tuple(d)


def judge(out, prog, it, oc, exc, ctx):
    S = Structure(prog)
    log = [e for e in it.log if e[0] <= it.end_seq]
    per = by_activity(it.log, it.end_seq)
    if oc != 'ok' and not (oc == 'exc' and it.describe(exc)[0] == 'prog'):
        sig = ('exc:' + type(exc).__name__) if oc == 'exc' else oc
        out.fail('run_outcome', sig, 'run() ended with %s %r;%s' % (oc, exc, ctx))
    spawned = {e[5][0] for e in log if e[3] == 'spawned'}
    ev_of = {'leave': {}, 'body_exc': {}, 'enter': {}}
    for e in log:
        if e[3] in ev_of:
            try:
                node = S.step_at(e[1], e[2])
            except Exception:
                continue
            if isinstance(node, dict) and node.get('op') in ('scope', 'until') and node.get('name'):
                ev_of[e[3]][node['name']] = e

    def priv(d):
        return d is not None and d[0] == 'prog' and S.raises.get(d[1]) in PRIV_CLASSES

    for bname, lv in ev_of['leave'].items():
        lseq, ltime, lpay = lv[0], lv[4], lv[5]
        kids = [c for c in S.block_children.get(bname, ())
                if c in S.static_children.get(bname, ()) or c in spawned]
        F = []
        quiet_seen = False
        for c in kids:
            for e in per.get(c, ()):
                if e[3] == 'exc' and e[0] < lseq:
                    if e[5][0] in REAL:
                        F.append(e)
                    else:
                        quiet_seen = True
        F.sort(key=lambda e: e[0])
        Fd = [e[5] for e in F]
        be = ev_of['body_exc'].get(bname)
        own = ('signal', 'CancelScope', bname)
        B = None
        foreign = False
        if be is not None:
            if be[5][0] in REAL:
                B = be
            elif tuple(be[5]) != own:
                foreign = True
        # never the scope's own signal
        if lpay is not None and tuple(lpay) == own:
            out.fail('exit_mode', 'own_signal_leaked', 'block %s left with its own CancelScope;%s' % (bname, ctx))
            continue
        P = next((d for d in Fd if priv(d)), None)
        if len(Fd) >= 2:
            out.features.add('multi_failure')
        if any(d[0] == 'conc' for d in Fd):
            out.features.add('nested_concurrent')
        if P is not None:
            out.features.add('privileged')
        if quiet_seen and (Fd or B):
            out.features.add('suppressed_kind_present')
        if lpay is not None and lpay[0] in ('genexit', 'signal'):
            foreign = True      # the signal arrived while the block was waiting for its children
        if foreign:
            out.features.add('foreign_signal')
            # documented: an outer cancellation/interrupt replaces concurrent failures; only the
            # privileged escalation and "no Concurrent + regular at once" remain checkable
            if lpay is not None and lpay[0] == 'conc' and not Fd:
                out.fail('content', 'concurrent_from_nothing', 'block %s: %r;%s' % (bname, lpay, ctx))
            continue
        if B is not None:
            Bd = B[5]
            allowed = [strip(Bd)] if (priv(Bd) or P is None) else [strip(P), strip(Bd)]
            if P is not None and priv(Bd) and S.raises.get(Bd[1]) in ('A2', 'KI2', 'SE2', 'A0'):
                # body and a child both fail with privileged exceptions: the statement allows either; usim keeps the
                # body's only if its class is *exactly* one of the three (children are tested with isinstance)
                allowed = [strip(Bd), strip(P)]
            mode = 'body'
        elif P is not None:
            allowed, mode = [strip(P)], 'privileged'
        elif Fd:
            allowed, mode = [('conc', tuple(strip(d) for d in Fd))], 'concurrent'
        else:
            allowed, mode = [None], 'clean'
        got = strip(lpay)
        if got not in allowed:
            if mode == 'concurrent' and got is not None and got[0] == 'conc':
                have, want = list(got[1]), list(allowed[0][1])
                if sorted(map(repr, have)) == sorted(map(repr, want)):
                    sig = 'concurrent_order'
                elif len(have) > len(want) or any(have.count(x) > want.count(x) for x in have):
                    sig = 'concurrent_extra_or_duplicate'
                else:
                    sig = 'concurrent_missing'
            else:
                sig = '%s_expected_got_%s' % (mode, 'none' if got is None else got[0])
            out.fail('content', sig, 'block %s: left with %r, allowed %r (F=%r, body=%r);%s' % (
                bname, lpay, allowed, Fd, B and B[5], ctx))
        elif mode == 'concurrent' or mode == 'privileged' or (mode == 'body' and Fd):
            out.nontrivial = out.nontrivial or len(Fd) >= 2 or quiet_seen or bool(B and Fd)
        # identity of a nested Concurrent child: the very object (serial) the child raised
        if mode == 'concurrent' and lpay is not None and lpay[0] == 'conc':
            for a, b in zip(lpay[1], Fd):
                if a[0] == 'conc' and b[0] == 'conc' and a[2] != b[2]:
                    out.fail('content', 'nested_not_identical', 'block %s re-created a nested Concurrent;%s' % (bname, ctx))
        # promptness: the block ends at the virtual time of the first failure
        first = min([e for e in F] + ([B] if B is not None else []), key=lambda e: e[0], default=None)
        if first is not None and ltime != first[4]:
            out.fail('promptness', 'late_exit', 'block %s: first failure at t=%r (seq %d) but block left at t=%r;%s' % (
                bname, first[4], first[0], ltime, ctx))
        if first is not None:
            out.features.add('failed_block')
            # ... and nothing of the block's tasks runs afterwards
            for d in S.descendants(bname):
                late = [e for e in per.get(d, ()) if e[0] > lseq]
                if late:
                    out.fail('promptness', 'ran_after_failure', 'block %s failed at %r, %s logged %r later;%s' % (
                        bname, ltime, d, late[0], ctx))
                    break


class C05(Check):
    pid = 'C05'
    level = 'exploration'
    rule = ('Generated scope trees (as C04) with failures assigned to bodies and children: ProgErr hierarchy, '
            'privileged instances (AssertionError/KeyboardInterrupt/SystemExit), children failing with their own '
            "scope's Concurrent (nested), simultaneous failures, failures during graceful shutdown, plus "
            'cancellations/closures/escaping TaskCancelled that must not appear; 0-3 injected cancels. '
            'non-trivial = a failed block with >=2 child failures, or a failure next to a suppressed kind, or '
            'body and child failure together; distinct by sha1(program+faults). Also directed programs in which a child fails while '
            'the body leaves an inner until-block (firing in that step) through asynchronous clean-up.')
    budgets = {'quick': dict(examples=2000, procs=4), 'thorough': dict(examples=150000, procs=16)}
    level_text = ('For every block of every generated tree the exception leaving the block is compared with the '
                  'exact expected one computed from the logged child/body failures (identity of program-raised '
                  'objects, order of occurrence, each once; privileged unwrapped; body exception as itself; never '
                  'the own signal), and the exit time with the time of the first failure.')
    level_note = ('Trusts the interpreter taps around each child payload and block. When a foreign signal (owner '
                  'cancelled, enclosing until) passes through a block only containment is asserted (documented to '
                  'replace concurrent failures). P-vs-body ranking is not asserted (statement leaves it open).')
    technique = 'property-based testing (scope/failure-assignment generator); exact expected-outcome oracle from the logged history'
    design_ref = 'DESIGN.md section 3, C05'

    def strategy(self, tier):
        return cases(tier)

    def run_case(self, case, tier='quick'):
        out = Outcome()
        prog = case['prog']
        mk = lambda: Probe(b_step=4000, b_total=40000)  # noqa
        it, oc, exc, p = execute(prog, mk())
        out.evals = 1
        judge(out, prog, it, oc, exc, ' faults=None')
        N = p.k
        if case['faults'] == 'all':
            plan = [{'k': k, 'target': t, 'token': [100]} for t in case['targets'] for k in range(N + 1)][:800]
            out.features.add('exhaustive_k')
        else:
            plan = case['faults']
        for f in plan:
            faults = [dict(f, k=f['k'] % (N + 1))]
            it, oc, exc, p = execute(prog, mk(), faults=faults)
            out.evals += 1
            judge(out, prog, it, oc, exc, ' faults=%r' % (faults,))
        return out


CHECK = C05()
