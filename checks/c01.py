"""C01 - virtual time is monotone; every timed wait resumes at exactly its date.

Oracle: an independent clock model (fold over each activity's steps) written from the
statement.  Programs interact through time only, so the model is exact.
"""
from hypothesis import strategies as st

from vlib.runner import Check, Outcome, InvalidCase
from vlib.interp import execute, num, INF
from vlib.probe import Probe

NEVER = None
TIMED = ('sleep', 'at_eq', 'at_ge', 'at_lt', 'instant', 'eternity')


def resume(now, s):
    """When does a timed wait begun at `now` resume (statement of C01)?"""
    op = s['op']
    if op == 'sleep':
        return now + num(s['d'])
    if op == 'instant':
        return now
    if op == 'eternity':
        return NEVER
    t = num(s['t'])
    if op == 'at_eq':
        return t if t >= now else NEVER
    if op == 'at_ge':
        return max(now, t)
    if op == 'at_lt':
        return now if now < t else NEVER
    raise InvalidCase(op)


class _NoLimit:
    """'No enclosing deadline at all': later than every date, the infinite one included (an event at date inf ties
    with a deadline at inf, but not with the absence of a deadline)."""
    def __gt__(self, other):
        return True

    def __ge__(self, other):
        return True

    def __lt__(self, other):
        return False

    def __le__(self, other):
        return other is self

    def __repr__(self):
        return 'NOLIMIT'


NOLIMIT = _NoLimit()


class ClockModel:
    """Expected (activity, idx, kind, time, optional) events of a time-only program."""

    def __init__(self):
        self.exp = {}     # act -> list of (idx, kind, time, optional)
        self.roots = set()
        self.feat = set()

    def put(self, act, idx, kind, t, H):
        # an event at exactly the enclosing deadline ties with the interrupt: optional
        self.exp.setdefault(act, []).append((idx, kind, t, t == H))

    def deadline(self, entry, notif):
        """Trigger time of an until() notification entered at `entry` (INF = never)."""
        if notif[0] == 'time_ge':
            return max(entry, num(notif[1]))
        if notif[0] == 'time_eq':
            return num(notif[1]) if num(notif[1]) >= entry else INF
        if notif[0] != 'delay':
            raise InvalidCase('C01 guards are delays and dates')
        return entry + num(notif[1])

    def activity(self, a, start, H):
        """Returns completion time (NEVER if it never completes on its own before/at H)."""
        name = a['name']
        self.exp.setdefault(name, [])
        if start > H:
            return NEVER
        self.put(name, (), 'start', start, H)
        end = self.steps(name, (), a['steps'], start, H)
        if end is not NEVER:
            self.put(name, (), 'end', end, H)
        return end

    def steps(self, act, base, steps, now, H):
        for i, s in enumerate(steps):
            idx = base + (i,)
            op = s['op']
            if op in TIMED:
                t = resume(now, s)
                if t is NEVER:
                    self.feat.add('never')
                    return NEVER
                if t > H:
                    return NEVER
                if t == INF:
                    # clock reaches infinity: only modelled as the very last wait of a root
                    if act not in self.roots or base != () or i != len(steps) - 1:
                        raise InvalidCase('wait for time inf is only modelled at the end of a root')
                    self.feat.add('inf')
                if t == now:
                    self.feat.add('zero')
                self.put(act, idx, 'ok', t, H)
                now = t
            elif op in ('scope', 'until'):
                entry = now
                if op == 'until':
                    D = self.deadline(entry, s['notif'])
                    self.feat.add('guard')
                else:
                    D = INF
                H2 = min(H, D)
                self.put(act, idx, 'enter', entry, H)
                comp = entry
                for ch in s.get('children', ()):
                    if ch.get('at') is not None:
                        cs = num(ch['at'])
                        if cs < entry:
                            raise InvalidCase('child start in the past')
                        self.feat.add('child_at')
                    else:
                        d = num(ch.get('after') or 0)
                        if d < 0:
                            raise InvalidCase('negative after')
                        cs = entry + d
                        if d:
                            self.feat.add('child_after')
                    ce = self.activity(ch, cs, H2)
                    comp = INF if (ce is NEVER or comp == INF) else max(comp, ce)
                be = self.steps(act, idx + ('b',), s.get('body', ()), entry, H2)
                if be is not NEVER:
                    self.put(act, idx, 'body_end', be, H2)
                comp = INF if (be is NEVER or comp == INF) else max(comp, be)
                ex = min(comp, H2)
                if ex == INF:
                    return NEVER        # neither completion nor any deadline: never ends
                self.put(act, idx, 'leave', ex, H)
                if comp > H2 and D > H:
                    # ended by an enclosing deadline, not by itself: the activity does not go on
                    return NEVER
                now = ex
            elif op == 'cleanup':
                # a block with asynchronous but timeless clean-up on interruption: transparent for the clock
                if any(f['op'] != 'instant' for f in s.get('final', ())):
                    raise InvalidCase('clean-up code of the clock language takes no time')
                be = self.steps(act, idx + ('b',), s.get('body', ()), now, H)
                if be is NEVER:
                    return NEVER
                now = be
            else:
                raise InvalidCase('op %r not in the C01 language' % op)
        return now


def count_acts(steps):
    n = 0
    for s in steps:
        if s['op'] in ('scope', 'until'):
            for ch in s.get('children', ()):
                n += 1 + count_acts(ch['steps'])
            n += count_acts(s.get('body', ()))
    return n


# ---------------------------------------------------------------------------
DELAYS = [0, 0.25, 0.5, 1, 1, 2, 3, 5]
GRID = st.integers(-8, 36).map(lambda x: x / 4)


def dates(floaty):
    if floaty == 1:
        return st.floats(-1e6, 1e6, allow_nan=False, allow_infinity=False)
    if floaty == 2:       # one-decimal dates: not representable, every addition rounds
        return st.integers(-20, 90).map(lambda x: x / 10)
    return GRID


def delays(floaty):
    if floaty == 1:
        return st.floats(0, 1e5, allow_nan=False, allow_infinity=False)
    if floaty == 2:
        return st.integers(0, 30).map(lambda x: x / 10)
    return st.sampled_from(DELAYS)


@st.composite
def shared_date_programs(draw):
    """several activities around ONE date object (`deadline = time >= T` kept in a variable): plain waits, waits that are
    torn down before the date, until-blocks guarded by it - also nested in one activity, or around a wait for the same
    object - in every order of arrival; whoever is torn down, everybody else resumes at the date"""
    start = draw(st.sampled_from([0, 0, -2, 1.5]))
    T = start + draw(st.sampled_from([1, 2, 2.5, 4]))
    kind = draw(st.sampled_from(['at_ge', 'at_ge', 'at_eq']))
    guard = 'time_ge' if kind == 'at_ge' else 'time_eq'
    roots = []
    for i in range(draw(st.integers(2, 5))):
        steps = []
        pre = draw(st.sampled_from([0, 0, 0.25, 0.5]))
        if pre:
            steps.append({'op': 'sleep', 'd': pre})
        form = draw(st.sampled_from(['wait', 'wait', 'torn', 'torn', 'guarded', 'nested', 'guard_and_wait', 'nested_short',
                                     'guard_and_torn_wait']))
        wait = {'op': kind, 't': T}
        if form == 'wait':
            steps.append(wait)
        elif form == 'torn':
            # gives up before the date (and may come back to the same object afterwards)
            steps.append({'op': 'until', 'notif': ['delay', draw(st.sampled_from([0, 0.25, 0.5, 0.75]))], 'children': [],
                          'body': [wait]})
            if draw(st.booleans()):
                steps.append(wait)
        elif form == 'guarded':
            steps.append({'op': 'until', 'notif': [guard, T], 'children': [], 'body': [{'op': 'sleep', 'd': 5}]})
        elif form == 'nested':
            steps.append({'op': 'until', 'notif': [guard, T], 'children': [], 'body': [
                {'op': 'until', 'notif': [guard, T], 'children': [], 'body': [{'op': 'sleep', 'd': 5}]},
                {'op': 'sleep', 'd': 5}]})
        elif form == 'nested_short':
            # the inner block on the same object ends by itself before the date: the outer one is still guarded by it
            steps.append({'op': 'until', 'notif': [guard, T], 'children': [], 'body': [
                {'op': 'until', 'notif': [guard, T], 'children': [], 'body': [{'op': 'sleep', 'd': draw(st.sampled_from([0, 0.25]))}]},
                {'op': 'sleep', 'd': 5}]})
        elif form == 'guard_and_torn_wait':
            # ... likewise a wait for the guard's own object that is given up before the date
            steps.append({'op': 'until', 'notif': [guard, T], 'children': [], 'body': [
                {'op': 'until', 'notif': ['delay', draw(st.sampled_from([0, 0.25]))], 'children': [], 'body': [wait]},
                {'op': 'sleep', 'd': 5}]})
        else:
            steps.append({'op': 'until', 'notif': [guard, T], 'children': [], 'body': [wait, {'op': 'sleep', 'd': 5}]})
        if draw(st.booleans()):
            steps.append({'op': 'sleep', 'd': 0.5})
        roots.append({'name': 'a%d' % (i + 1), 'steps': steps})
    return {'start': start, 'floaty': 0, 'roots': roots, 'shared_dates': True}


@st.composite
def many_dates_programs(draw):
    """hundreds of distinct dates pending at once, most of them abandoned (their waiters are torn down early): what is
    left still resumes in the order of the dates, each exactly at its date"""
    n_dead = draw(st.integers(100, 180))
    n_live = draw(st.integers(140, 180))
    roots = []
    for i in range(n_dead):
        # torn down one after the other, long before their dates
        roots.append({'name': 'a%d' % (i + 1), 'steps': [{'op': 'until', 'notif': ['delay', 0.5 + (i % 20) * 0.5], 'children': [],
                                                         'body': [{'op': 'sleep', 'd': 30 + i * 0.25}]}]})
    for j in range(n_live):
        # distinct dates in a scrambled order of creation, new ones all the time
        roots.append({'name': 'a%d' % (n_dead + j + 1), 'steps': [
            {'op': 'sleep', 'd': 3 + (j * 37 % n_live) * 0.75}, {'op': 'sleep', 'd': 0.5 + (j * 13 % 7) * 1.25},
            {'op': 'sleep', 'd': 0.25 + (j * 5 % 11) * 0.75}]})
    if draw(st.booleans()):
        # the crowd arrives in stages (a common date per stage): the number of pending dates grows step by step
        for i, r in enumerate(roots):
            r['steps'].insert(0, {'op': 'sleep', 'd': float(i % 6)})
    order = draw(st.permutations(list(range(len(roots)))))
    roots = [roots[i] for i in order]
    return {'start': 0, 'floaty': 0, 'roots': roots, 'shared_dates': False}


@st.composite
def programs(draw, tier):
    if draw(st.integers(0, 39)) == 0:
        return draw(many_dates_programs())
    if draw(st.integers(0, 7)) == 0:
        return draw(shared_date_programs())
    floaty = {0: 1, 1: 2, 2: 2}.get(draw(st.integers(0, 9)), 0)
    big = tier == 'thorough'
    counter = [0]
    D, T = delays(floaty), dates(floaty)

    def name():
        counter[0] += 1
        return 'a%d' % counter[0]

    def timed():
        k = draw(st.sampled_from(['sleep', 'sleep', 'sleep', 'at_eq', 'at_ge', 'at_lt',
                                  'instant', 'eternity' if draw(st.integers(0, 5)) == 0 else 'sleep']))
        if k == 'sleep':
            return {'op': 'sleep', 'd': draw(D)}
        if k in ('at_eq', 'at_ge', 'at_lt'):
            if k == 'at_lt' and draw(st.integers(0, 7)) == 0:
                return {'op': k, 't': 'inf'}
            return {'op': k, 't': draw(T)}
        return {'op': k}

    def steps(depth, maxlen):
        out = []
        for _ in range(draw(st.integers(1 if depth == 0 else 0, maxlen))):
            r = draw(st.integers(0, 9))
            if r < 7 or depth >= (3 if big else 2):
                out.append(timed())
            else:
                blk = {'op': 'until' if r == 9 or draw(st.booleans()) else 'scope',
                       'children': [], 'body': steps(depth + 1, 3)}
                if blk['op'] == 'until':
                    blk['notif'] = ['delay', draw(D)]
                    if draw(st.integers(0, 2)) == 0:
                        # a date as the guard (with shared date objects: the very object that the body, an inner
                        # block or another activity waits for as well)
                        blk['notif'] = [draw(st.sampled_from(['time_ge', 'time_ge', 'time_eq'])), draw(T)]
                for _ in range(draw(st.integers(0, 3))):
                    ch = {'name': name(), 'steps': steps(depth + 1, 4)}
                    m = draw(st.integers(0, 3))
                    if m == 1:
                        ch['after'] = draw(D)
                    elif m == 2:
                        ch['at_off'] = draw(D)      # resolved to an absolute date below
                    elif m == 3 and floaty:
                        ch['at_abs'] = draw(T)      # absolute date, kept if it is not in the past
                    blk['children'].append(ch)
                out.append(blk)
        return out

    prog = {'start': draw(T), 'floaty': floaty,
            'roots': [{'name': name(), 'steps': steps(0, 8 if big else 6)}
                      for _ in range(draw(st.integers(1, 6 if big else 4)))]}
    for r in prog['roots']:
        if draw(st.integers(0, 11)) == 0:
            if draw(st.integers(0, 2)) == 0:
                r['steps'].append({'op': 'sleep', 'd': 'inf'})       # `time + inf`: resumes when the clock gets there
            else:
                r['steps'].append({'op': draw(st.sampled_from(['at_ge', 'at_eq'])), 't': 'inf'})
    return resolve(prog)


def resolve(prog):
    """Turn child 'at_off' offsets into absolute 'at' dates using the clock model
    (a valid program never starts a child in the past)."""
    def walk(steps, now):
        for s in steps:
            if s['op'] in TIMED:
                t = resume(now, s) if now is not NEVER else NEVER
                now = t
            else:
                entry = now
                for ch in s.get('children', ()):
                    if 'at_abs' in ch:
                        d = ch.pop('at_abs')
                        if entry is not NEVER and d >= entry and entry not in (INF, -INF):
                            ch['at'] = d
                        else:
                            ch['after'] = 0.5
                    if 'at_off' in ch:
                        off = ch.pop('at_off')
                        if entry is NEVER or entry == INF or entry == -INF:
                            ch['after'] = off
                        else:
                            ch['at'] = entry + off
                    cs = NEVER if entry is NEVER else (
                        num(ch['at']) if ch.get('at') is not None else entry + num(ch.get('after') or 0))
                    walk(ch['steps'], cs)
                walk(s.get('body', ()), entry)
                # time after the block is irrelevant for validity of later children only
                # through `now`; take the model's answer
                if now is not NEVER:
                    m = ClockModel()
                    now = m.steps('_', (), [s], entry, INF)
        return now
    for r in prog['roots']:
        walk(r['steps'], num(prog['start']))
    return prog


KINDS = ('start', 'end', 'ok', 'enter', 'body_end', 'leave')


class C01(Check):
    pid = 'C01'
    level = 'exploration'
    rule = ('Hypothesis-generated programs of 1-6 concurrently running activities (roots and '
            'scope.do children with after=/at=, 0-3 nested Scope/until(time+d) blocks) made of '
            'timed waits (time+d, time==t, time>=t, time<t, instant, eternity) on a dyadic grid '
            '(10% arbitrary floats); oracle = independent clock model + probe monotonicity. '
            'non-trivial = program has >=2 activities resuming at one date, or a past/now date, '
            'or a zero delay, or a never-wait; distinct by sha1 of the canonical program. Also: until-blocks guarded by dates, one '
            'condition object per date shared by the waits, guards and blocks of a program, directed programs around one date object.')
    budgets = {'quick': dict(examples=1600, procs=4), 'thorough': dict(examples=160000, procs=16)}
    level_text = ('Generated-program search against an independent clock model: every timed resume, block '
                  'exit and child start of every generated program must happen at exactly the modelled date; '
                  'clock monotone at every activation. Bounded by program size (<=6 activities x 8 steps, '
                  'nesting <=3) and the time grid; no proof of absence.')
    level_note = ('Trusts the clock model (written from the statement), the DSL interpreter and the probe wrapper. '
                  'Ties at an until() deadline are accepted either way.')
    technique = 'property-based testing (Hypothesis program generator) against a reference clock model'
    design_ref = 'DESIGN.md section 3, C01'
    assumptions = ('activities interact through time only, so the clock model is exact',
                   'events at exactly an enclosing until() deadline may or may not happen (tie)')

    def strategy(self, tier):
        return programs(tier)

    def run_case(self, prog, tier='quick'):
        out = Outcome()
        out.evals = 1
        model = ClockModel()
        start = num(prog['start'])
        model.roots = {r['name'] for r in prog['roots']}
        for r in prog['roots']:
            model.activity(r, start, NOLIMIT)
        nacts = len(prog['roots']) + sum(count_acts(r['steps']) for r in prog['roots'])
        probe = Probe(b_step=400 * (nacts + 5), b_total=4000 * (nacts + 5))
        # (every other program keeps one condition *object* per date - `deadline = time >= 10` used by several
        #  activities, some of which are torn out of their wait before the date - instead of a new one per wait)
        shared = prog.get('shared_dates', len(str(prog)) % 2 == 0)
        it, outcome, exc, p = execute(prog, probe, hooks={'date_cache': {}} if shared else None)
        if shared:
            out.features.add('shared_date_objects')
        if outcome != 'ok':
            out.fail('run_outcome', '%s:%s' % (outcome, type(exc).__name__),
                     'run() ended with %s %r' % (outcome, exc))
        if not p.monotone_ok:
            out.fail('monotone', 'probe', 'activation times decreased')
        # log times never decrease in sequence order
        last = None
        got = {}
        for (seq, act, idx, kind, now, payload, _k) in it.log:
            if seq > it.end_seq:
                break
            if last is not None and now < last:
                out.fail('monotone', 'log', 'time went from %r to %r at seq %d' % (last, now, seq))
                break
            last = now
            if kind in KINDS:
                got.setdefault(act, []).append((idx, kind, now))
                if kind == 'leave' and payload is not None and payload[0] not in ('signal', 'genexit'):
                    out.fail('block_exception', str(payload[0]),
                             'block %s%s left with %r' % (act, idx, payload))
        dates_seen = {}
        for act, exp in model.exp.items():
            have = got.get(act, [])
            hs = set(have)
            want = [(i, k, t) for (i, k, t, opt) in exp if not opt or (i, k, t) in hs]
            if have != want:
                # classify the first difference
                sig = 'mismatch'
                for a, b in zip(have, want):
                    if a != b:
                        if a[:2] == b[:2]:
                            sig = 'wrong_time:%s' % self._opname(prog, act, a[0], a[1])
                        else:
                            sig = 'wrong_event'
                        break
                else:
                    if len(have) > len(want):
                        extra = have[len(want)]
                        sig = 'unexpected:%s' % self._opname(prog, act, extra[0], extra[1])
                    else:
                        miss = want[len(have)]
                        sig = 'missing:%s' % self._opname(prog, act, miss[0], miss[1])
                out.fail('clock_model', sig, 'activity %s\n got  %r\n want %r' % (act, have, want))
            for (i, k, t, opt) in exp:
                if k in ('ok', 'start'):
                    dates_seen.setdefault(t, set()).add(act)
        for act in got:
            if act not in model.exp:
                out.fail('clock_model', 'unknown_activity', act)
        if any(len(v) >= 2 for v in dates_seen.values()):
            model.feat.add('shared_date')
        out.features = set(model.feat)
        if prog.get('floaty'):
            out.features.add('floaty')
        if nacts >= 3:
            out.features.add('acts>=3')
        out.nontrivial = bool(model.feat & {'shared_date', 'zero', 'never'})
        return out

    @staticmethod
    def _opname(prog, act, idx, kind):
        if kind != 'ok':
            return kind
        # find the step
        def find(a):
            if a['name'] == act:
                return a
            for s in _all_blocks(a['steps']):
                for ch in s.get('children', ()):
                    r = find(ch)
                    if r:
                        return r
            return None
        a = None
        for r in prog['roots']:
            a = a or find(r)
        try:
            steps = a['steps']
            node = None
            for p in idx:
                if p == 'b':
                    steps = node['body']
                else:
                    node = steps[p]
            return node['op']
        except Exception:
            return 'ok'


def _all_blocks(steps):
    for s in steps:
        if s['op'] in ('scope', 'until'):
            yield s
            yield from _all_blocks(s.get('body', ()))
            for ch in s.get('children', ()):
                yield from _all_blocks(ch['steps'])


CHECK = C01()
