"""C16 - collect()/first() give the right results at the right time and abort the rest."""
from hypothesis import strategies as st

from vlib.runner import Check, Outcome, InvalidCase
from vlib.interp import execute, num
from vlib.probe import Probe
from vlib.scopelog import foreign_exception, Structure, by_activity

DUR = [None, 0, 0, 0.5, 1, 1, 2, 2, 3, 5, 4, 6, 7, 1.5, 2.5]


def val(i):
    """unique result of activity i; deliberately not monotone in i"""
    return 100 + (5 * i + 3) % 11


@st.composite
def lock_user_cases(draw):
    start = draw(st.sampled_from([0, 2.5]))
    pre = draw(st.sampled_from([0, 0.5]))
    hold = lambda name, d, v: {'name': name, 'steps': [{'op': 'lock', 'i': 0, 'body': [{'op': 'sleep', 'd': d}]}, {'op': 'return', 'v': v}]}  # noqa
    users = [hold('h%d' % j, draw(st.sampled_from([5, 7])), 50 + j) for j in range(draw(st.integers(2, 3)))]
    if draw(st.booleans()):
        # ... one of them asks a little later (it is queued, not designated, when the abort comes)
        users[-1]['steps'].insert(0, {'op': 'sleep', 'd': 0.25})
    quick = {'name': 'q', 'steps': [{'op': 'sleep', 'd': 1}, {'op': 'return', 'v': 3}]}
    kind = draw(st.sampled_from(['first', 'first', 'collect']))
    if kind == 'first':
        acts = users + [quick]
        acts = [acts[i] for i in draw(st.permutations(list(range(len(acts)))))] if draw(st.booleans()) else acts
        a = {'op': 'first', 'acts': acts, 'count': 1}
    else:
        quick['steps'][-1] = {'op': 'raise', 'eid': 1, 'cls': 'K'}
        acts = users + [quick]
        a = {'op': 'scope', 'catch': True, 'children': [], 'body': [{'op': 'collect', 'acts': acts}]}
    b = {'op': 'collect', 'acts': [hold('d', 1, 11), hold('e', 1, 12)]}
    steps = ([{'op': 'sleep', 'd': pre}] if pre else []) + [a, b, {'op': 'sleep', 'd': 1}]
    prog = {'start': start, 'objs': {'locks': 1}, 'roots': [{'name': 'r0', 'steps': [
        {'op': 'scope', 'name': 'S', 'catch': True, 'body': [], 'children': [
            {'name': 'cl', 'steps': steps}, {'name': 'ot', 'steps': [{'op': 'sleep', 'd': 1}, {'op': 'sleep', 'd': 1}]}]}]}]}
    return {'prog': prog, 'faults': [], 'lock_users': {'done_at': start + pre + 1 + 2, 'values': [11, 12], 'idx': [len(steps) - 2]}}


@st.composite
def cases(draw, tier):
    if draw(st.integers(0, 15)) == 0:
        return draw(lock_user_cases())
    big = tier == 'thorough'
    n = draw(st.integers(0, 8))
    kind = draw(st.sampled_from(['collect', 'first', 'first']))
    eid = [0]
    acts = []
    fails = draw(st.integers(0, 2)) == 0 if kind == 'collect' else draw(st.integers(0, 3)) == 0
    for i in range(n):
        d = draw(st.sampled_from(DUR))
        steps = []
        if d is not None:
            steps.append({'op': 'sleep', 'd': d})
        if fails and draw(st.integers(0, 2)) == 0:
            eid[0] += 1
            steps.append({'op': 'raise', 'eid': eid[0], 'cls': draw(st.sampled_from(['E', 'K', 'V']))})
        else:
            steps.append({'op': 'return', 'v': val(i)})
        acts.append({'name': 'x%d' % i, 'steps': steps})
    if n and draw(st.integers(0, 4)) == 0:
        # one activity supervises children of its own and waits for them at the end of its block: when it is aborted
        # there (it is slow: a loser, unless all results are wanted), its children go with it
        i = draw(st.integers(0, n - 1))
        acts[i]['steps'] = [{'op': 'scope', 'name': 'LS', 'catch': False, 'body': [{'op': 'sleep', 'd': 0.25}], 'children': [
            {'name': 'lk0', 'steps': [{'op': 'sleep', 'd': 9}, {'op': 'sleep', 'd': 9}]},
            {'name': 'lk1', 'steps': [{'op': 'sleep', 'd': draw(st.sampled_from([0.5, 9]))}, {'op': 'sleep', 'd': 9}]}]}] + \
            [x for x in acts[i]['steps'] if x['op'] in ('return', 'raise')]
    extra = []
    if kind == 'collect' and n and draw(st.integers(0, 3)) == 0:
        # some activities wait for a task of the surrounding scope which a third party cancels: they fail with
        # TaskCancelled - a failure like any other for collect()
        extra = [{'name': 'vt', 'steps': [{'op': 'sleep', 'd': 40}]},
                 {'name': 'kl', 'steps': [{'op': 'sleep', 'd': draw(st.sampled_from([0.5, 1, 2, 3]))},
                                          {'op': 'cancel', 'ref': 'vt', 'token': [7]}]}]
        picks = draw(st.lists(st.integers(0, n - 1), min_size=1, max_size=2))
        for i in picks:
            acts[i]['steps'] = [x for x in acts[i]['steps'] if x['op'] == 'sleep'] + [
                {'op': 'await_task', 'ref': 'vt', 'nocatch': True}]
    if kind == 'collect':
        op = {'op': 'collect', 'acts': acts}
    else:
        op = {'op': 'first', 'acts': acts}
        c = draw(st.integers(0, 4))
        if c == 0:
            pass                                  # default count=1
        elif c == 1:
            op['count'] = None
        else:
            op['count'] = draw(st.integers(0, n + 1))
        if draw(st.integers(0, 2)) == 0:
            op['gap'] = draw(st.sampled_from([0.5, 1, 2, 4]))
        if draw(st.integers(0, 3)) == 0 and n:
            op['brk'] = draw(st.integers(1, n))
        if 'brk' not in op and draw(st.integers(0, 2)) == 0:
            # `results = first(...)` kept in a variable of the caller (an iterator that is kept *and* abandoned by `break`
            # is not told so by Python: closing it is then the caller's job - not generated)
            op['keep'] = True
    wrapped = op
    if draw(st.integers(0, 3)) == 0:
        # the caller is torn out of collect() / its loop over first() by an `until` around it, and goes on afterwards
        g = draw(st.sampled_from([0.25, 0.75, 1.25, 2.75, 4.25]))
        wrapped = {'op': 'until', 'notif': ['delay', g], 'children': [], 'body': [op]}
        if draw(st.booleans()):
            # ... or by the failure of a task in a scope of its own around the call (the caller handles that failure)
            wrapped = {'op': 'scope', 'catch': True, 'body': [op], 'children': [
                {'name': 'gf', 'steps': [{'op': 'sleep', 'd': g}, {'op': 'raise', 'eid': 900, 'cls': 'K'}]}]}
    caller = {'name': 'cl', 'steps': ([{'op': 'sleep', 'd': draw(st.sampled_from([0, 0.5, 1]))}] if draw(st.booleans()) else [])
              + [wrapped, {'op': 'sleep', 'd': 1}, {'op': 'sleep', 'd': 6}]}
    other = {'name': 'ot', 'steps': [{'op': 'sleep', 'd': 1}, {'op': 'sleep', 'd': 1}]}
    if draw(st.integers(0, 3)) == 0:
        # an independent second caller of first() at the same time: two iterations must not get in each other's way
        d1, d2 = draw(st.sampled_from([(1, 2), (0.5, 3), (2, 2.5)]))
        extra = extra + [{'name': 'c2', 'steps': [{'op': 'first', 'count': 2, 'acts': [
            {'name': 'y0', 'steps': [{'op': 'sleep', 'd': d1}, {'op': 'return', 'v': 201}]},
            {'name': 'y1', 'steps': [{'op': 'sleep', 'd': d2}, {'op': 'return', 'v': 202}]}]}]}]
    blk = {'op': 'scope', 'name': 'S', 'children': extra + [caller, other], 'body': [], 'catch': True}
    prog = {'start': draw(st.sampled_from([0, 0, -1, 2.5])), 'objs': {}, 'roots': [{'name': 'r0', 'steps': [blk]}]}
    faults = draw(st.lists(st.fixed_dictionaries({'k': st.integers(0, 60), 'target': st.just('cl'), 'token': st.just([1])}),
                           max_size=3))
    return {'prog': prog, 'faults': faults}


def comp_time(start, a, tc=None):
    """(completion time, round) of a one-wait activity started at `start` (tc: when the awaited task is cancelled)."""
    t, rnd = start, 0
    for s in a['steps']:
        if s['op'] == 'scope':
            # an activity that supervises children of its own: done when its body and all of them are
            ends = [comp_time(t, {'steps': s.get('body', ())}, tc)[0]] + [comp_time(t, ch, tc)[0] for ch in s['children']]
            t, rnd = max(ends), 1
            continue
        if s['op'] == 'sleep':
            t = t + num(s['d'])
            rnd = 1
        elif s['op'] == 'await_task':
            if tc is None:
                raise InvalidCase('nobody cancels the awaited task')
            t = max(t, tc)
            rnd = 1
    return t, rnd


def ident(a):
    last = a['steps'][-1]
    return last['eid'] if last['op'] == 'raise' else 'vt'


def judge(out, case, it, oc, exc, ctx):
    prog = case['prog']
    if oc != 'ok':
        out.fail('run_outcome', ('exc:' + type(exc).__name__) if oc == 'exc' else oc, '%r;%s' % (exc, ctx))
        return
    fe = foreign_exception(it.log, it.end_seq)
    if fe:
        out.fail('run_outcome', 'activity_exc:%s' % fe[1][1], '%s%s ended with %r, which the program did not raise;%s' % (
            fe[0][1], fe[0][2], fe[1], ctx))
    S = Structure(prog)
    log = [e for e in it.log if e[0] <= it.end_seq]
    per = by_activity(it.log, it.end_seq)
    if 'c2' in S.acts:
        node2 = S.acts['c2']['steps'][0]
        want2 = [(a['steps'][1]['v'], prog['start'] + num(a['steps'][0]['d'])) for a in node2['acts']]
        got2 = [(e[5], e[4]) for e in per.get('c2', ()) if e[3] == 'got']
        if got2 != want2:
            out.fail('first', 'second_caller_disturbed', 'an independent first() running at the same time yielded %r, expected %r;%s' % (
                got2, want2, ctx))
        out.features.add('two_callers')
    cl = S.acts['cl']
    sidx = next(i for i, s in enumerate(cl['steps']) if s['op'] in ('collect', 'first', 'until', 'scope'))
    node = cl['steps'][sidx]
    opidx = (sidx,)
    guard_leave = None
    if node['op'] in ('until', 'scope'):
        if len(node['body']) != 1 or node['body'][0]['op'] not in ('collect', 'first'):
            raise InvalidCase('guard')
        guard_leave = next((e for e in per.get('cl', ()) if e[2] == (sidx,) and e[3] == 'leave'), None)
        node = node['body'][0]
        opidx = (sidx, 'b', 0)
        out.features.add('caller_in_until')
    acts = node['acts']
    names = [a['name'] for a in acts]
    n = len(acts)
    es = [e for e in per.get('cl', ()) if e[2] == opidx]
    begin = [e for e in es if e[3] == 'begin']
    if not begin:
        return
    t0 = begin[0][4]
    cancelled = any(f[4] not in (None, 'SUCCESS', 'FAILED', 'CANCELLED') for f in it.fault_log)
    torn_out = guard_leave is not None and not any(
        e[3] in ('ok', 'got_exc', 'valueerror') or (node['op'] == 'collect' and e[3] == 'got') for e in es if e[0] < guard_leave[0])
    if torn_out:
        cancelled = True
        out.features.add('caller_torn_out_by_until')
    tc = None
    if 'kl' in S.acts:
        kl = S.acts['kl']['steps']
        if len(kl) != 2 or kl[0]['op'] != 'sleep' or kl[1]['op'] != 'cancel':
            raise InvalidCase('killer')
        tc = prog['start'] + num(kl[0]['d'])
    ct = [comp_time(t0, a, tc) for a in acts]
    failing = [i for i, a in enumerate(acts) if any(s['op'] in ('raise', 'await_task') for s in a['steps'])]
    if any(s['op'] == 'await_task' for a in acts for s in a['steps']):
        out.features.add('activity_fails_with_taskcancelled')
    res = [e for e in es if e[3] in ('got', 'got_exc', 'ok', 'valueerror')]
    end_ev = None          # the event after which nothing of the activities may run
    if node['op'] == 'collect':
        done = [e for e in es if e[3] in ('got', 'got_exc')]
        if not done:
            if not cancelled:
                out.fail('collect', 'no_result', 'collect never returned;%s' % ctx)
            fin = [e for e in per.get('cl', ()) if e[3] == 'fin']
            end_ev = fin[0] if fin else None
        else:
            d = done[0]
            end_ev = d
            if not failing:
                want_t = max([t0] + [c[0] for c in ct])
                want = [val(i) for i in range(n)]
                if d[3] != 'got' or d[5] != want:
                    sig = 'wrong_order' if d[3] == 'got' and sorted(d[5]) == sorted(want) else 'wrong_results'
                    out.fail('collect', sig, 'collect returned %r, expected %r;%s' % (d[5], want, ctx))
                elif d[4] != want_t:
                    out.fail('collect', 'wrong_time', 'collect returned at %r, slowest activity ends at %r;%s' % (d[4], want_t, ctx))
                if n >= 2:
                    out.features.add('collect_ok')
            else:
                tf = min(ct[i][0] for i in failing)
                firsts = {ident(acts[i]) for i in failing if ct[i][0] == tf}
                if d[3] != 'got_exc':
                    out.fail('collect', 'failure_swallowed', 'collect returned %r although %r fail;%s' % (d[5], failing, ctx))
                else:
                    desc = d[5]
                    kids = [desc] if desc[0] in ('prog', 'cancelled') else list(desc[1]) if desc[0] == 'conc' else []
                    eids = {k[1] for k in kids if k[0] in ('prog', 'cancelled')}
                    if desc[0] == 'closed' and firsts == {'vt'}:
                        # a scope does not re-raise TaskCancelled: the caller gets the outcome of the first
                        # unsuccessful activity in argument order, which may be one aborted *because of* the failure
                        out.features.add('taskcancelled_reported_as_closed_sibling')
                    elif not eids or not eids <= firsts:
                        out.fail('collect', 'wrong_failure', 'collect raised %r; first failures (t=%r) are eids %r;%s' % (
                            desc, tf, sorted(firsts), ctx))
                    if d[4] != tf:
                        out.fail('collect', 'failure_late', 'collect raised at %r, first failure at %r;%s' % (d[4], tf, ctx))
                out.features.add('collect_failure')
    else:
        count = node.get('count', 1)
        k = n if count is None else count
        brk = node.get('brk')
        gap = num(node['gap']) if node.get('gap') else 0
        if k > n:
            if not any(e[3] == 'valueerror' for e in es):
                if not cancelled:
                    out.fail('first', 'no_valueerror', 'first(count=%r) of %d activities did not raise ValueError;%s' % (count, n, ctx))
            else:
                out.features.add('first_valueerror')
                for nm in names:
                    if per.get(nm):
                        out.fail('first', 'ran_despite_valueerror', '%s ran although first() refused;%s' % (nm, ctx))
            return
        if failing and not cancelled:
            # ---- some activities fail: results come in completion order until the failure is reported - at once if the
            # consumer is waiting for a result, otherwise when it comes back for the next one; first() may also be done before
            winners = sorted((i for i in range(n) if i not in failing), key=lambda i: (ct[i][0], ct[i][1], i))
            tf = min(ct[i][0] for i in failing)
            firsts = {ident(acts[i]) for i in failing if ct[i][0] == tf}
            lim = k if brk is None else min(k, brk)
            exp, ask, raise_at, ambiguous = [], t0, None, False
            while True:
                if len(exp) >= lim:
                    # all results wanted were handed out; unless the consumer breaks off it asks once more (after its
                    # gap), which is when first() ends - and reports a failure that happened meanwhile
                    if not (brk is not None and brk <= k):
                        if tf < ask:
                            raise_at = ask
                        elif tf == ask:
                            ambiguous = True
                    break
                if tf < ask:
                    raise_at = ask
                    break
                nxt = winners[len(exp)] if len(exp) < len(winners) else None
                c = None if nxt is None else max(ct[nxt][0], ask)
                if c is None or tf < c:
                    raise_at = tf
                    break
                if tf == c or tf == ask:
                    ambiguous = True          # result and failure in one time step: either may come first
                    break
                exp.append((val(nxt), c))
                ask = c + gap
            out.features.add('first_with_failure')
            if ambiguous:
                out.features.add('first_failure_tie')
            else:
                gots = [(e[5], e[4]) for e in es if e[3] == 'got']
                excs = [e for e in es if e[3] == 'got_exc']
                if gots != exp:
                    out.fail('first', 'results_before_failure', 'first() over failing activities yielded %r, expected %r (failure at %r);%s' % (
                        gots, exp, tf, ctx))
                elif raise_at is None:
                    if excs:
                        out.fail('first', 'failure_after_done', 'first() was done before the failure at %r but raised %r;%s' % (tf, excs[0][5], ctx))
                elif not excs:
                    out.fail('first', 'failure_swallowed', 'an activity failed at %r but first() did not raise (expected at %r);%s' % (tf, raise_at, ctx))
                else:
                    desc = excs[0][5]
                    kids = [desc] if desc[0] == 'prog' else list(desc[1]) if desc[0] == 'conc' else []
                    eids = {k_[1] for k_ in kids if k_[0] == 'prog'}
                    if not eids or not eids <= {ident(acts[i]) for i in failing if ct[i][0] <= raise_at}:
                        out.fail('first', 'wrong_failure', 'first() raised %r; failures so far %r;%s' % (desc, sorted(firsts), ctx))
                    elif excs[0][4] != raise_at:
                        out.fail('first', 'failure_time', 'first() raised at %r, expected %r (failure at %r, consumer %s);%s' % (
                            excs[0][4], raise_at, tf, 'waiting' if raise_at == tf else 'busy until then', ctx))
                    end_ev = excs[0]
            if end_ev is None:
                fin = [e for e in es if e[3] in ('ok', 'got_exc')]
                end_ev = fin[0] if fin else None
            order = None
        else:
            order = sorted(range(n), key=lambda i: (ct[i][0], ct[i][1], i))
    if node['op'] == 'first' and order is not None:
        gots = [e for e in es if e[3] == 'got']
        lim = k if brk is None else min(k, brk)
        # expected deliveries
        ask = t0
        for j, g in enumerate(gots):
            if j >= lim:
                out.fail('first', 'too_many', 'first(count=%r, break after %r) yielded %d results;%s' % (count, brk, len(gots), ctx))
                break
            i = order[j]
            want_v, want_t = val(i), max(ct[i][0], ask)
            if g[5] != want_v:
                out.fail('first', 'wrong_order', 'result %d is %r, expected %r (completion order %r);%s' % (j, g[5], want_v, order, ctx))
                break
            if g[4] != want_t:
                out.fail('first', 'wrong_time', 'result %d delivered at %r, expected %r (completes %r, asked %r);%s' % (
                    j, g[4], want_t, ct[i][0], ask, ctx))
                break
            ask = g[4] + gap
        okev = [e for e in es if e[3] == 'ok']
        if okev and not cancelled and len(gots) == lim:
            # the iteration ends as soon as the consumer asks again / breaks: it does not wait for losers
            if okev[0][4] != ask:
                out.fail('first', 'end_late', 'first() ended at %r, the consumer was done at %r;%s' % (okev[0][4], ask, ctx))
            for i in range(n):
                if ct[i][0] > ask and any(e[3] == 'end' for e in per.get(names[i], ())):
                    out.fail('abort', 'loser_completed', '%s (due %r) ran to completion although first() was done at %r;%s' % (
                        names[i], ct[i][0], ask, ctx))
                    break
        if okev:
            end_ev = okev[0]
            if len(gots) != lim and not cancelled:
                out.fail('first', 'too_few', 'first(count=%r) over %d activities ended after %d results;%s' % (count, n, len(gots), ctx))
            if lim < n:
                out.features.add('first_aborts_losers')
        else:
            if not cancelled:
                out.fail('first', 'never_finished', 'first() did not finish;%s' % ctx)
            fin = [e for e in per.get('cl', ()) if e[3] == 'fin']
            end_ev = fin[0] if fin else None
        if gap:
            out.features.add('slow_consumer')
        if brk is not None and brk < k:
            out.features.add('early_break')
        if len({c[0] for c in ct}) < len(ct):
            out.features.add('ties')
    if torn_out:
        end_ev = guard_leave       # the caller left its block: nothing of the activities may run from here on
    # ---- aborted activities run no code afterwards, and their clean-up ran by then
    if end_ev is not None:
        nested_kids = [ch['name'] for a in acts for s_ in a['steps'] if s_['op'] == 'scope' for ch in s_['children']]
        for nm in names + nested_kids:
            evs = per.get(nm, ())
            late = [e for e in evs if e[0] > end_ev[0]]
            # (what an activity logs while it is being unwound - blocks left by GeneratorExit, task states - is no code of its own)
            late = [e for e in late if not (e[4] == end_ev[4] and (
                e[3] == 'tasks' or (e[3] in ('body_exc', 'leave', 'exc') and e[5] and e[5][0] in ('genexit', 'closed', 'volclosed'))))]
            if node.get('keep'):
                # an iterator that the caller kept in a variable is closed when the caller's frame goes - right after the
                # caller itself ended, in the same time step: the forced-close entries of the losers come that much later
                late = [e for e in late if not (e[4] == end_ev[4] and (e[3] == 'fin' or (e[3] == 'exc' and e[5] == ('genexit',))))]
            if late:
                out.fail('abort', 'ran_after_end', '%s logged %r after %s ended at seq %d t=%r;%s' % (
                    nm, late[0][2:5], node['op'], end_ev[0], end_ev[4], ctx))
                break
            if evs and not any(e[3] == 'fin' for e in evs):
                out.fail('abort', 'no_cleanup', '%s was started but never finalised;%s' % (nm, ctx))
                break
    if cancelled:
        out.features.add('caller_cancelled')
    # the unrelated sibling is not disturbed
    ot = per.get('ot', ())
    if not any(e[3] == 'end' for e in ot):
        out.fail('abort', 'sibling_disturbed', 'unrelated sibling did not complete;%s' % ctx)


class C16(Check):
    pid = 'C16'
    level = 'exploration'
    rule = ('collect()/first() over 0-8 activities with durations from a small grid (ties and zero/no suspension '
            'common), unique results, failures for some (collect), count in {default, None, 0..n+1}, consumer eager / '
            'slow (gap) / early break, caller cancelled at up to 3 sampled activation boundaries; start times incl. '
            'negative/fractional. non-trivial = ties, or losers to abort, or slow consumer / break / cancelled caller, '
            'or failures; distinct by sha1(program+faults). Also activities that hold or wait for a lock when they are aborted, followed '
            'by a collect() over users of that lock.')
    budgets = {'quick': dict(examples=3000, procs=4), 'thorough': dict(examples=300000, procs=16)}
    level_text = ('Reference model of completion order and delivery times (max(completion, time the consumer asked)); '
                  'collect: argument order at the slowest time, first failure raised at its time; after the last '
                  'yield/break/cancellation no loser logs another event and every started loser was finalised.')
    level_note = ('Each activity has at most one wait so that tie order = argument order is fixed by the statement. '
                  'Failing activities inside first() are not generated (statement is silent).')
    technique = 'property-based testing against a completion-order/delivery-time reference model; history containment check'
    design_ref = 'DESIGN.md section 4, C16'

    def strategy(self, tier):
        return cases(tier)

    def lock_case(self, case):
        """activities of first() / collect() that hold or wait for a lock when they are aborted leave it free: a later
        collect() over activities that use the lock one after the other returns on time"""
        out = Outcome()
        out.evals = 1
        it, oc, exc, p = execute(case['prog'], Probe(b_step=4000, b_total=40000))
        if oc != 'ok':
            out.fail('run_outcome', 'lock_users:%s:%s' % (oc, type(exc).__name__), 'run() ended with %s %r' % (oc, exc))
            return out
        want_t, want, idx = case['lock_users']['done_at'], case['lock_users']['values'], tuple(case['lock_users']['idx'])
        got = [e for e in it.log if e[0] <= it.end_seq and e[1] == 'cl' and tuple(e[2]) == idx and e[3] == 'got']
        if not got:
            out.fail('collect', 'lock_users:no_result', 'collect() over users of a lock that aborted activities of an earlier '
                     'first()/collect() had held or waited for never returned (expected %r at %r)' % (want, want_t))
        elif got[0][5] != want or got[0][4] != want_t:
            out.fail('collect', 'lock_users:wrong_result_or_time', 'collect() returned %r at %r, expected %r at %r' % (
                got[0][5], got[0][4], want, want_t))
        out.nontrivial = True
        out.features.add('aborted_lock_users')
        return out

    def run_case(self, case, tier='quick'):
        if 'lock_users' in case:
            return self.lock_case(case)
        out = Outcome()
        mk = lambda: Probe(b_step=4000, b_total=40000)  # noqa
        it, oc, exc, p = execute(case['prog'], mk())
        out.evals = 1
        judge(out, case, it, oc, exc, ' faults=None')
        N = p.k
        for f in case['faults']:
            faults = [dict(f, k=f['k'] % (N + 1))]
            it, oc, exc, p = execute(case['prog'], mk(), faults=faults)
            out.evals += 1
            judge(out, case, it, oc, exc, ' faults=%r' % (faults,))
        if {'ties', 'first_aborts_losers', 'slow_consumer', 'early_break', 'caller_cancelled', 'collect_failure'} & out.features:
            out.nontrivial = True
        return out


CHECK = C16()
