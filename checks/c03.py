"""C03 - the kernel never fails on its own: no leaked signal, internal error or livelock."""
import os
from hypothesis import strategies as st

from vlib.runner import Check, Outcome
from vlib.interp import execute
from vlib.probe import Probe
from vlib.gen import whole_programs, scope_programs
from vlib.scopelog import Structure


_WALL = [10]


@st.composite
def late_spawn_cancel_programs(draw):
    """The owner of a scope waits for its children; in one time step a child ends, and another child starts a further
    activity in the scope, cancels it at once (before its first turn) and ends as well - in either order, with further
    children around: the scope simply ends in that step."""
    d = draw(st.sampled_from([0, 0.5, 1, 2]))
    n = draw(st.integers(1, 2))
    sp = [{'op': 'sleep', 'd': d}] + [{'op': 'instant'} for _ in range(draw(st.integers(0, 1)))]
    for j in range(n):
        sp.append({'op': 'spawn_into', 'ref': 'S', 'child': {'name': 'late%d' % j, 'steps': [{'op': 'mark', 'v': 'ran'}, {'op': 'sleep', 'd': 1}]}})
        if j == 0 or draw(st.booleans()):
            sp.append({'op': 'cancel', 'ref': 'late%d' % j, 'token': [j]})
    kids = [{'name': 'elder', 'steps': [{'op': 'sleep', 'd': d}]}, {'name': 'spawner', 'steps': sp}]
    if draw(st.booleans()):
        kids.append({'name': 'third', 'steps': [{'op': 'sleep', 'd': draw(st.sampled_from([0, d, d + 1]))}]})
    kids = [kids[i] for i in draw(st.permutations(list(range(len(kids)))))]
    body = [{'op': 'sleep', 'd': draw(st.sampled_from([0, d]))}] if draw(st.booleans()) else []
    return {'start': 0, 'objs': {'flags': 1, 'locks': 1, 'queues': 1},
            'roots': [{'name': 'r', 'steps': [{'op': 'scope', 'name': 'S', 'catch': True, 'children': kids, 'body': body},
                                              {'op': 'sleep', 'd': 1}]}]}


@st.composite
def cases(draw, tier):
    # first() over activities that can fail used to be a 5 % side stream (finding D17, open at the time); since the
    # fix it is part of half of the whole-program cases
    side = draw(st.booleans())
    which = draw(st.integers(0, 3))
    if draw(st.integers(0, 9)) == 0:
        # the directed families of the until / scope-failure checks (interrupts that overtake each other during clean-up
        # that takes time, nested blocks fired in one step, an abort replaced by an inner block's interrupt): whatever the
        # outcome, no internal signal or assertion may come out of them
        from checks import c05, c07
        k = draw(st.integers(0, 5))
        if k >= 4:
            prog = draw(late_spawn_cancel_programs())
        elif k == 0:
            prog = c07.C07.tc_program(draw(c07.timed_cleanup_cases())['tc'])
        elif k == 1:
            prog = draw(c07.exit_programs())
        elif k == 2:
            prog = draw(c07.date_reuse_programs())
        else:
            prog = draw(c05.replaced_abort_programs())['prog']
        names = []

        def walk(steps):
            for s_ in steps:
                if s_.get('op') in ('scope', 'until') and not s_.get('name'):
                    s_['name'] = 'X%d' % (len(names) + sum(map(len, names)))       # (the signal taps tell blocks by name)
                    names.append('')
                for ch in s_.get('children', ()) or ():
                    names.append(ch['name'])
                    walk(ch['steps'])
                walk(s_.get('body', ()) or ())
                walk(s_.get('final', ()) or ())
        for r in prog['roots']:
            walk(r['steps'])
        c = {'prog': prog, 'targets': [n for n in names if n]}
    elif which == 0:
        c = draw(scope_programs(tier, fail=4, volatile=3, until=4, late_spawn=3, priv=1, finally_spawn=2,
                                nocatch=1, uncaught_blocks=3, catch_priv=3))
    else:
        c = draw(whole_programs(tier, first_failures=side))
    c['side'] = side
    if tier == 'thorough' and draw(st.integers(0, 3)) == 0:
        c['faults'] = 'all'
    else:
        n = draw(st.integers(0, 5))
        c['faults'] = [{'k': draw(st.integers(0, 200)), 'target': draw(st.sampled_from(c['targets'])), 'token': [7]}
                       for _ in range(n)] if c['targets'] else []
    return c


def prog_created(desc):
    if desc is None:
        return True
    if desc[0] == 'prog':
        return True
    if desc[0] == 'conc':
        return all(prog_created(c) for c in desc[1])
    return False


def first_with_failure(prog):
    """feature of open finding D17: first() over an activity that can fail"""
    found = []

    def walk(steps):
        for s in steps:
            if s.get('op') == 'first' and any(any(x['op'] == 'raise' for x in a['steps']) for a in s['acts']):
                found.append(s)
            for ch in s.get('children', ()) or ():
                walk(ch['steps'])
            for key in ('body', 'final'):
                walk([x for x in (s.get(key) or ()) if isinstance(x, dict)])
            if 'child' in s:
                walk(s['child']['steps'])
            for a in s.get('acts', ()) or ():
                walk(a['steps'])
    for r in prog['roots']:
        walk(r['steps'])
    return bool(found)


def judge(out, case, it, oc, exc, p, ctx):
    prog = case['prog']
    tag = 'first_failure:' if first_with_failure(prog) else ''
    # (1) what leaves run()
    if oc == 'livelock':
        out.fail('livelock', tag + 'activations_in_one_step', '%r;%s' % (exc, ctx))
    elif oc == 'runaway':
        out.fail('livelock', tag + 'runaway', '%r;%s' % (exc, ctx))
    elif oc == 'timeout':
        out.fail('livelock', tag + 'wall_clock', 'no progress within the wall-clock safety net;%s' % ctx)
        _WALL[0] = 3        # (programs take milliseconds; once a run has hung for 10 s the following ones get less patience)
    elif oc == 'exc':
        d = it.describe(exc)
        if not prog_created(d):
            msg = str(exc)[:400]
            kind = type(exc).__name__
            if 'cannot reuse' in msg:
                kind += ':reuse'
            elif 'schedule date' in msg:
                kind += ':past_date'
            elif 'may only be specialised by Exception subclasses' in msg and 'CancelScope' in msg:
                kind += ':concurrent_of_cancelscope'     # an escaped CancelScope made a child 'fail'
            out.fail('run_raises', tag + kind, 'run() ended with %r (%s), which the program did not create;%s' % (exc, d, ctx))
    # (2) signals seen by the taps
    S = Structure(prog)
    log = [e for e in it.log if e[0] <= it.end_seq]
    left = {}
    for e in log:
        if e[3] == 'leave':
            try:
                node = S.step_at(e[1], e[2])
            except Exception:
                continue
            if isinstance(node, dict) and node.get('name'):
                left[node['name']] = e[0]
                if e[5] is not None and tuple(e[5][:3]) == ('signal', 'CancelScope', node['name']):
                    out.fail('signal', tag + 'own_cancel_leaves_block', 'block %s left with its own CancelScope;%s' % (node['name'], ctx))
    task_names = set(it.tasks)
    for e in log:
        if e[3] not in ('exc', 'body_exc', 'leave', 'cleanup_begin', 'abandoned'):
            continue
        d = e[5]
        if e[3] == 'abandoned':
            d = d[1]
        if d is None or d[0] != 'signal':
            continue
        typ, who = d[1], d[2]
        if typ == 'Interrupt':
            out.fail('signal', tag + 'bare_interrupt_escaped', 'a wake-up Interrupt escaped its wait: %r;%s' % (e[:6], ctx))
        elif typ == 'CancelTask':
            # a cancellation may only ever be seen inside the task it was created for
            owner = e[1]
            chain = set()
            a = owner
            while a is not None:
                chain.add(a)
                b = S.child_of.get(a)
                a = S.blocks[b]['owner'] if b in S.blocks else None
            if who is None or who not in chain:
                out.fail('signal', tag + 'foreign_cancel_task', '%s saw CancelTask of %r: %r;%s' % (owner, who, e[:6], ctx))
        elif typ == 'CancelScope':
            if who is None:
                out.fail('signal', tag + 'unknown_scope_signal', '%s saw the CancelScope of a scope it never entered by name '
                         '(an internal scope): %r;%s' % (e[1], e[:6], ctx))
            elif who in left and left[who] < e[0]:
                out.fail('signal', tag + 'stale_scope_signal', 'CancelScope of %s seen at seq %d after the block was left at seq %d;%s' % (
                    who, e[0], left[who], ctx))
            elif who in S.blocks:
                # only the owner of the block, inside the block
                if S.blocks[who]['owner'] != e[1]:
                    out.fail('signal', tag + 'foreign_scope_signal', '%s saw CancelScope of %s owned by %s;%s' % (
                        e[1], who, S.blocks[who]['owner'], ctx))
        else:
            out.fail('signal', tag + 'unknown_signal:' + typ, '%r;%s' % (e[:6], ctx))
    if p.max_step > 50:
        out.features.add('busy_step>50')
    for e in log:
        if e[3] in ('exc', 'body_exc', 'leave') and e[5] is not None:
            out.features.add('race:' + str(e[5][0]))
        elif e[3] == 'cancel_call':
            out.features.add('race:cancel_call')
    if any(f[4] not in (None, 'SUCCESS', 'FAILED', 'CANCELLED') for f in it.fault_log):
        out.features.add('race:fault_applied')


class C03(Check):
    pid = 'C03'
    level = 'fault_enumeration'
    rule = ('Valid programs over the whole public API (timers, flags, tracked values, conditions, locks, queues, channels, '
            'resources, pipes, tickers, nested Scope/until with failures, volatile children, late spawns, cancellations, '
            'collect/first, run(till)) on a tiny time grid so that signals race each other; Task.cancel injected at 0-5 sampled '
            '(thorough: all) activation boundaries. non-trivial = program with >=1 race feature (until/cancel/failure/close/'
            'fault) executed; distinct by sha1(program+faults). Also the directed families of the until / scope-failure checks '
            '(interrupts overtaking each other during clean-up, an abort replaced by an inner interrupt) and late spawns that are '
            'cancelled at once, under the same outcome and signal-tap oracle.')
    budgets = {'quick': dict(examples=2400, procs=4), 'thorough': dict(examples=30000, procs=16)}
    level_text = ('Crash-style search with an explicit oracle: run() must end normally or with an exception object the program '
                  'created (also inside Concurrent); taps around every block and payload must never see a bare wake-up '
                  'Interrupt, a CancelTask of another task, a CancelScope of a foreign/already-left/internal scope; at most '
                  'B_step activations per time step (livelock).')
    level_note = ('Every generated program makes only valid API calls (documented refusals are caught at the statement). '
                  'Thorough tier additionally drives the same strategy with atheris (coverage-guided) via tools/fuzz_c03.py.')
    technique = 'property-based testing / fuzzing of whole-API programs with boundary fault injection; outcome + signal-tap oracle'
    design_ref = 'DESIGN.md section 3, C03'

    def strategy(self, tier):
        return cases(tier)

    # ---- thorough tier: the same property under coverage-guided fuzzing (atheris / libFuzzer)
    _fuzz = {}

    def extra_phase(self, tier, seed):
        import glob
        import json
        import shutil
        import subprocess
        import sys
        from vlib.runner import ROOT
        if tier != 'thorough':
            return []
        runs = int(20000 * float(os.environ.get('VERIF_SCALE', '1')))
        base = os.path.join(ROOT, '.fuzz', 'C03-%d' % os.getpid())
        shutil.rmtree(base, ignore_errors=True)
        procs = []
        env = dict(os.environ, PYTHONPATH=os.pathsep.join([os.environ.get('USIM_REPO', '/repo'), ROOT, os.path.join(ROOT, '.deps')]))
        try:
            subprocess.run([sys.executable, '-c', 'import atheris'], env=env, check=True, capture_output=True)
        except Exception:
            r = subprocess.run([sys.executable, '-m', 'pip', 'install', '--no-index', '--find-links', '/opt/veriftools/wheels',
                                '--target', os.path.join(ROOT, '.deps'), 'atheris'], capture_output=True)
            if r.returncode:
                self._fuzz = {'atheris': 'not installable offline: skipped'}
                return []
        for j in range(8):
            out = os.path.join(base, 'w%d' % j)
            os.makedirs(os.path.join(out, 'corpus'), exist_ok=True)
            cmd = [sys.executable, '-B', os.path.join(ROOT, 'tools', 'fuzz_c03.py'), out, '-runs=%d' % runs,
                   '-seed=%d' % (seed * 100 + j + 1), '-max_len=16384', '-len_control=0',
                   '-artifact_prefix=%s/' % out, os.path.join(out, 'corpus')]
            procs.append((out, subprocess.Popen(cmd, env=env, stdout=subprocess.DEVNULL, stderr=subprocess.DEVNULL, cwd=ROOT)))
        found, cases_n, evals_n = [], 0, 0
        for out, pr in procs:
            try:
                pr.wait(timeout=600)
            except subprocess.TimeoutExpired:
                pr.kill()               # time budget: inconclusive for this worker, never a violation
            try:
                stt = json.load(open(os.path.join(out, 'stats.json')))
                cases_n += stt['cases']
                evals_n += stt['evals']
            except Exception:
                pass
            for f in glob.glob(os.path.join(out, 'fail_*.json')):
                found.append(json.load(open(f))['case'])
        self._fuzz = {'atheris_workers': len(procs), 'atheris_runs_per_worker': runs, 'atheris_valid_cases': cases_n,
                      'atheris_executions': evals_n, 'atheris_failing_inputs': len(found)}
        shutil.rmtree(base, ignore_errors=True)
        return found

    def extra_evidence(self):
        return dict(self._fuzz)

    def run_case(self, case, tier='quick'):
        out = Outcome()
        prog = case['prog']
        mk = lambda: Probe(b_step=3000, b_total=60000)  # noqa
        it, oc, exc, p = execute(prog, mk(), wall=_WALL[0])
        out.evals = 1
        judge(out, case, it, oc, exc, p, ' faults=None')
        N = p.k
        if case['faults'] == 'all':
            plan = [[{'k': k, 'target': t, 'token': [7]}] for t in case['targets'] for k in range(N + 1)][:1200]
        else:
            plan = [[dict(f, k=f['k'] % (N + 1))] for f in case['faults']]
            if len(plan) >= 2:
                plan.append(plan[0] + plan[1])
        for faults in plan:
            it, oc, exc, p = execute(prog, mk(), faults=faults, wall=_WALL[0])
            out.evals += 1
            judge(out, case, it, oc, exc, p, ' faults=%r' % (faults,))
        out.nontrivial = any(f.startswith('race:') for f in out.features)
        if case.get('side'):
            out.features.add('side_stream')
        return out


CHECK = C03()
