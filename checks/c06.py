"""C06 - task lifecycle: forward-only status, stable result, precise cancellation.

cancel() is injected at every activation boundary (fault enumeration) and also issued by
program steps.  Oracle: invariants over the recorded history (status samples at every
boundary, the target's own log, what every awaiter received).
"""
from hypothesis import strategies as st

from vlib.runner import Check, Outcome, InvalidCase
from vlib.interp import execute, num
from vlib.probe import Probe

RANK = {'CREATED': 0, 'RUNNING': 1, 'SUCCESS': 2, 'FAILED': 2, 'CANCELLED': 2}
SLEEPS = [0, 0, 0.5, 1, 1, 2, 3]


@st.composite
def programs(draw, tier):
    big = tier == 'thorough'
    sleep = lambda: {'op': 'sleep', 'd': draw(st.sampled_from(SLEEPS))}  # noqa
    objs = {'locks': 1, 'queues': 1, 'flags': 1, 'resources': [{'kind': 'cap', 'name': 'R', 'levels': {'a': 2}}]}
    helpers = []
    # ---- payload of the subject task
    kind = draw(st.sampled_from(['sleeps', 'sleeps', 'lock', 'queue', 'borrow', 'scope', 'instant',
                                 'mixed', 'cleanup', 'cleanup', 'nested_borrow', 'until_exit', 'selfcancel']))
    pay = []
    n = draw(st.integers(0, 4))
    for _ in range(n):
        pay.append(sleep() if draw(st.booleans()) else {'op': 'instant'})
    if kind in ('lock', 'mixed'):
        helpers.append({'name': 'h_lock', 'steps': [{'op': 'lock', 'i': 0, 'body': [
            {'op': 'sleep', 'd': draw(st.sampled_from([0.5, 1, 2, 4]))}]}]})
        pay.append({'op': 'lock', 'i': 0, 'body': [sleep()]})
    if kind in ('queue', 'mixed'):
        helpers.append({'name': 'h_prod', 'steps': [{'op': 'sleep', 'd': draw(st.sampled_from([0, 1, 3]))},
                                                    {'op': 'qput', 's': 0, 'v': 7}]})
        pay.append({'op': 'qget', 's': 0})
    if kind in ('borrow', 'mixed'):
        helpers.append({'name': 'h_res', 'steps': [{'op': 'borrow', 'r': 'R', 'amounts': {'a': 2}, 'body': [
            {'op': 'sleep', 'd': draw(st.sampled_from([0.5, 1, 2]))}]}]})
        pay.append({'op': 'borrow', 'r': 'R', 'amounts': {'a': draw(st.integers(0, 2))}, 'body': [sleep()]})
    if kind == 'selfcancel':
        # the task cancels itself while it is running (from its own call stack): the cancellation is raised at its next
        # suspension point, in that time step
        pay.append({'op': 'cancel', 'ref': 's0', 'token': [444]})
        pay += [{'op': 'sleep', 'd': draw(st.sampled_from([0, 1, 2]))}, sleep()]
    if kind == 'cleanup':
        pay.append({'op': 'cleanup', 'body': [sleep(), sleep()],
                    'final': [{'op': 'sleep', 'd': draw(st.sampled_from([0, 1, 2, 4]))}, sleep()]})
    if kind == 'nested_borrow':
        # a borrowed share of which a child in a nested scope holds a part
        pay.append({'op': 'borrow', 'r': 'R', 'amounts': {'a': 2}, 'as': 'hp', 'body': [
            {'op': 'scope', 'children': [{'name': 's0c', 'steps': [
                {'op': 'borrow', 'from': 'hp', 'amounts': {'a': draw(st.integers(1, 2))}, 'body': [sleep(), {'op': 'sleep', 'd': 2}]}]}],
             'body': [sleep()]}]})
    both = None
    if kind == 'until_exit':
        # an until() block around a block whose exit suspends (giving back borrowed resources / a lock's helper /
        # asynchronous clean-up): the notification may fire while the payload is already being unwound by a cancel
        inner = draw(st.sampled_from(['borrow', 'cleanup', 'borrow']))
        blk = {'op': 'borrow', 'r': 'R', 'amounts': {'a': 1}, 'body': [sleep(), {'op': 'sleep', 'd': 6}]} if inner == 'borrow' else \
            {'op': 'cleanup', 'body': [sleep(), {'op': 'sleep', 'd': 6}], 'final': [{'op': 'instant'}, sleep()]}
        pay.append({'op': 'until', 'name': 'U0', 'notif': ['flag', 0], 'children': [], 'body': [blk]})
        pay.append({'op': 'sleep', 'd': draw(st.sampled_from([1, 2, 5]))})
        ops = [{'op': 'cancel', 'ref': 's0', 'token': [777]}, {'op': 'set_flag', 'i': 0, 'v': True}]
        if draw(st.integers(0, 3)) == 0:
            ops.reverse()
        if draw(st.integers(0, 3)) == 0:
            ops.insert(1, {'op': 'instant'})
        both = {'name': 'cf', 'steps': [{'op': 'sleep', 'd': draw(st.sampled_from([0.5, 1, 2, 3]))}] + ops}
    if kind in ('scope',):
        pay.append({'op': 'scope', 'children': [{'name': 's0c', 'steps': [sleep(), sleep()]}],
                    'body': [sleep()]})
    if draw(st.booleans()):
        pay.append(sleep())
    fails = draw(st.integers(0, 7)) == 0
    if fails:
        pay.append({'op': 'raise', 'eid': 1, 'cls': draw(st.sampled_from(['E', 'K', 'V']))})
    elif draw(st.booleans()):
        pay.append({'op': 'return', 'v': 42})
    subj = {'name': 's0', 'steps': pay}
    m = draw(st.integers(0, 3))
    if m == 1:
        subj['after'] = draw(st.sampled_from([0, 0.5, 1, 2]))
    elif m == 2:
        subj['at_off'] = draw(st.sampled_from([0, 0.5, 1, 2]))
    children = [subj]
    # ---- time-only siblings (may be fault targets)
    nsib = draw(st.integers(0, 3 if big else 2))
    for i in range(nsib):
        children.append({'name': 't%d' % i, 'steps': [sleep() for _ in range(draw(st.integers(0, 3)))]})
    # ---- awaiters inside the scope (only if the subject cannot fail: a failure aborts them)
    naw = draw(st.integers(0, 3))
    for i in range(naw):
        children.append({'name': 'w%d' % i, 'steps': [sleep() for _ in range(draw(st.integers(0, 2)))] + [
            {'op': 'await_task', 'ref': 's0'} for _ in range(draw(st.integers(1, 3)))]})
    # ---- a program-level canceller
    if draw(st.integers(0, 2)) == 0:
        children.append({'name': 'c0', 'steps': [sleep() for _ in range(draw(st.integers(0, 2)))] + [
            {'op': 'cancel', 'ref': draw(st.sampled_from(['s0'] + ['t%d' % i for i in range(nsib)])),
             'token': [900 + j]} for j in range(draw(st.integers(1, 2)))]})
    if both is not None and draw(st.integers(0, 3)) > 0:
        children.append(both)
    elif both is not None:
        helpers.append({'name': 'h_flag', 'steps': [{'op': 'sleep', 'd': draw(st.sampled_from([0.5, 1, 2, 3]))},
                                                    {'op': 'set_flag', 'i': 0, 'v': True}]})
    order = draw(st.permutations(list(range(len(children)))))
    children = [children[i] for i in order]
    start = draw(st.sampled_from([0, 0, -1, 2.5]))
    for ch in children:
        if 'at_off' in ch:
            ch['at'] = start + ch.pop('at_off')
    body = [sleep() for _ in range(draw(st.integers(0, 2)))]
    if draw(st.integers(0, 5)) == 0:
        # the owner cancels the subject and then aborts the whole scope in the same turn / a little later
        body = [sleep() for _ in range(draw(st.integers(0, 1)))] + [{'op': 'cancel', 'ref': 's0', 'token': [555]}] + \
               [{'op': 'instant'} for _ in range(draw(st.integers(0, 1)))] + [{'op': 'raise', 'eid': 99, 'cls': 'K'}]
    r0 = {'name': 'r0', 'steps': [
        {'op': 'scope', 'name': 'S', 'children': children, 'body': body, 'catch': True},
        {'op': 'status', 'ref': 's0'}, {'op': 'await_task', 'ref': 's0'},
        {'op': 'sleep', 'd': 1}, {'op': 'status', 'ref': 's0'}, {'op': 'await_task', 'ref': 's0'}]}
    # an awaiter outside the scope: survives a failure of the subject
    r1 = {'name': 'r1', 'steps': [sleep() for _ in range(draw(st.integers(0, 2)))] + [
        {'op': 'await_task', 'ref': 's0'} for _ in range(draw(st.integers(1, 2)))]}
    extra = []
    if draw(st.integers(0, 2)) == 0:
        # a careless awaiter (a task of another scope that dies of the subject's outcome) next to careful ones that
        # handle it and go on: what one awaiter does with the exception must not matter to the others
        for s_ in r1['steps']:
            if s_['op'] == 'await_task':
                s_['hold'] = draw(st.sampled_from([2, 4, 8]))
        r1['steps'] += [{'op': 'await_task', 'ref': 's0'}, sleep()]
        if draw(st.booleans()):
            # ... or it dies of the very exception object that the careful awaiter handed on after handling it
            for s_ in r1['steps']:
                if s_['op'] == 'await_task':
                    s_['store'] = True
            extra.append({'name': 'r3', 'steps': [{'op': 'sleep', 'd': draw(st.sampled_from([0.5, 1, 2, 3]))}, {
                'op': 'scope', 'name': 'S3', 'catch': True, 'body': [sleep()], 'children': [
                    {'name': 'x1', 'steps': [sleep(), {'op': 'raise_saved'}, sleep()]}]}, sleep()]})
        extra.append({'name': 'r2', 'steps': [sleep() for _ in range(draw(st.integers(0, 3)))] + [
            {'op': 'scope', 'name': 'S2', 'catch': True, 'body': [sleep()], 'children': [
                {'name': 'x0', 'steps': [sleep() for _ in range(draw(st.integers(0, 2)))] + [
                    {'op': 'await_task', 'ref': 's0', 'nocatch': True}, sleep()]}]},
            sleep(), {'op': 'await_task', 'ref': 's0'}, sleep()]})
    roots = [{'name': h['name'], 'steps': h['steps']} for h in helpers] + extra + [r0, r1]
    prog = {'start': start, 'objs': objs, 'roots': roots}
    targets = ['s0'] + ['t%d' % i for i in range(nsib)]
    if tier == 'thorough' and draw(st.integers(0, 3)) > 0:
        faults = 'all'
    else:
        faults = [{'k': draw(st.integers(0, 80)), 'target': draw(st.sampled_from(targets)), 'token': [100 + j]}
                  for j in range(draw(st.integers(1, 6)))]
    double = draw(st.integers(0, 3)) == 0
    return {'prog': prog, 'faults': faults, 'targets': targets, 'double': double}


def ops_of(steps):
    """all operation names in a step list, nested blocks (but not other activities) included"""
    out = set()
    for st_ in steps:
        out.add(st_['op'])
        for key in ('body', 'final'):
            if isinstance(st_.get(key), list):
                out |= ops_of(st_[key])
    return out


def find_act(prog, name):
    def rec(steps):
        for s in steps:
            for ch in s.get('children', ()) or ():
                if ch['name'] == name:
                    return ch
                r = rec(ch['steps'])
                if r:
                    return r
            r = rec(s.get('body', ()) or ())
            if r:
                return r
        return None
    for r in prog['roots']:
        if r['name'] == name:
            return r
        x = rec(r['steps'])
        if x:
            return x
    return None


@st.composite
def crowd_cases(draw):
    return {'crowd': {'n': draw(st.integers(1100, 1700)), 'per_step': draw(st.sampled_from([50, 200, 2000])),
                      'how': draw(st.sampled_from(['return', 'fail', 'cancel']))}}


class C06(Check):
    pid = 'C06'
    level = 'fault_enumeration'
    rule = ('[also: until(flag) around a block whose exit suspends, cancel() and flag.set() in one activation] '
            'Generated scopes with a subject task (payload: sleeps/instants/lock wait/queue get/borrow/'
            'nested scope/return/raise), time-only siblings, 0-3 awaiters inside and one outside the scope '
            '(each awaiting 1-3 times, before and after completion), optional program-level cancel(); '
            'plus Task.cancel(token) injected before activation k (quick: 1-6 sampled k per program, '
            'thorough: every k in 0..N for every target, also pairs with two tokens). '
            'non-trivial = the task was not already finished when cancel() was called (created or '
            'suspended); distinct by sha1(program + effective fault point). Also crowds: 1100-1700 awaiters of one task that returns, fails '
            'or is cancelled.')
    budgets = {'quick': dict(examples=2400, procs=4), 'thorough': dict(examples=12000, procs=16)}
    level_text = ('Every generated program is re-run with Task.cancel() injected at activation boundaries '
                  '(all boundaries x all targets in the thorough tier); invariants over the history: status '
                  'rank monotone with one stable final value at every boundary, all awaiters get the identical '
                  'value / exception object, cancel-before-start runs no code, cancel-while-suspended is '
                  'delivered in the same time step with the first token, cancel-after-done changes nothing, '
                  'siblings and parent scope unaffected.')
    level_note = ('Injection uses only the public synchronous Task.cancel from the probe callback between two '
                  'activations. Bounded program shapes; payloads do not catch CancelTask.')
    technique = 'property-based testing with exhaustive boundary fault injection (cancel at every activation boundary); history invariants'
    design_ref = 'DESIGN.md section 3, C06'
    assumptions = ('helpers (lock holder, producer, resource holder) are never cancelled so all waits end',)

    def strategy(self, tier):
        return st.sampled_from(range(150)).flatmap(lambda k, tier=tier: crowd_cases() if k == 0 else programs(tier))

    def crowd_case(self, case):
        """more than a thousand activities await one task (`await task` / `await task.done`), started over many time steps;
        when it ends - returns, fails, is cancelled - every one of them learns its outcome in that time step"""
        import usim
        from vlib.probe import run_probed
        out = Outcome()
        out.evals = 1
        spec = case['crowd']
        n, how = spec['n'], spec['how']
        seen = {}

        async def subject():
            await (usim.time + 40)
            if how == 'fail':
                raise KeyError('subject')
            return 1138

        async def awaiter(i, task, done_only):
            try:
                if done_only:
                    await task.done
                    seen[i] = ('done', usim.time.now)
                else:
                    seen[i] = ('value', await task, usim.time.now)
            except usim.TaskCancelled as e:
                seen[i] = ('cancelled', e.subject is task, usim.time.now)
            except KeyError:
                seen[i] = ('failed', usim.time.now)

        holder = {}

        async def host():
            # the subject lives in a scope of its own (its failure ends that scope, not the awaiters')
            try:
                async with usim.Scope() as scope:
                    holder['task'] = scope.do(subject())
            except usim.Concurrent:
                pass

        async def main():
            async with usim.Scope() as top:
                top.do(host())
                await usim.instant
                task = holder['task']
                for i in range(n):
                    top.do(awaiter(i, task, i % 3 == 0))
                    if i % spec['per_step'] == spec['per_step'] - 1:
                        await (usim.time + 0.25)
                if how == 'cancel':
                    await (usim.time >= 20)
                    task.cancel('enough')
        end = 20 if how == 'cancel' else 40
        oc, exc, _ = run_probed([main()], till=200, probe=Probe(b_step=40 * n + 1000, b_total=400 * n))
        if oc != 'ok':
            out.fail('run_outcome', 'crowd:%s:%s' % (oc, type(exc).__name__), 'run() ended with %s %r' % (oc, exc))
            return out
        want = {'return': ('value', 1138, end), 'fail': ('failed', end), 'cancel': ('cancelled', True, end)}[how]
        bad = [i for i in range(n) if seen.get(i) != (('done', end) if i % 3 == 0 else want)]
        if bad:
            out.fail('awaiters', 'crowd:awaiter_not_served', '%d of %d awaiters did not learn the outcome (%s) at %r, e.g. #%d: %r' % (
                len(bad), n, how, end, bad[0], seen.get(bad[0])))
        out.nontrivial = True
        out.features.add('crowd_of_awaiters')
        return out

    # ------------------------------------------------------------------
    def run_case(self, case, tier='quick'):
        if 'crowd' in case:
            return self.crowd_case(case)
        out = Outcome()
        prog = case['prog']
        nact = 12
        mk = lambda: Probe(b_step=3000, b_total=30000)  # noqa
        it0, oc0, exc0, p0 = execute(prog, mk(), sample=True)
        out.evals = 1
        self.judge(out, case, it0, oc0, exc0, None)
        N = p0.k
        if case['faults'] == 'all':
            plan = [[{'k': k, 'target': t, 'token': [100]}] for t in case['targets'] for k in range(N + 1)]
            if case.get('double'):
                plan += [[{'k': k, 'target': 's0', 'token': [100]}, {'k': min(k + d, N), 'target': 's0', 'token': [101]}]
                         for k in range(N + 1) for d in (0, 1, 3)]
                # ... and the same token (equal values, distinct objects / no token at all) twice
                plan += [[{'k': k, 'target': 's0', 'token': tok}, {'k': min(k + d, N), 'target': 's0', 'token': list(tok)}]
                         for k in range(N + 1) for d in (1, 3) for tok in ([100], [])]
            out.features.add('exhaustive_k')
        else:
            fl = [dict(f, k=f['k'] % (N + 1)) for f in case['faults']]
            plan = [[f] for f in fl]
            if case.get('double') and len(fl) >= 2:
                a, b = sorted(fl[:2], key=lambda f: f['k'])
                plan.append([dict(a, target='s0'), dict(b, target='s0', token=[777])])
                plan.append([dict(a, target='s0'), dict(b, target='s0', token=list(a['token']))])     # an equal token again
                plan.append([dict(a, target='s0', token=[]), dict(b, target='s0', token=[])])          # no token, twice
                # ... and a repetition within the next few activations (the same time step, as a rule: the first request has
                # been delivered, the task is busy reacting to it)
                for d in (1, 2, 4):
                    plan.append([dict(a, target='s0'), dict(a, target='s0', k=min(a['k'] + d, N), token=list(a['token']))])
        for faults in plan:
            it, oc, exc, p = execute(prog, mk(), faults=faults, sample=True)
            out.evals += 1
            self.judge(out, case, it, oc, exc, faults)
        return out

    # ------------------------------------------------------------------
    def judge(self, out, case, it, oc, exc, faults):
        prog = case['prog']
        ctx = ' faults=%r' % (faults,)
        subject_fails = any(s['op'] == 'raise' for s in find_act(prog, 's0')['steps']) or \
            any(s['op'] == 'raise' for s in prog['roots'][-2]['steps'][0]['body'])    # ... or the scope body
        if oc != 'ok':
            if oc == 'exc':
                out.fail('run_outcome', 'exc:' + type(exc).__name__, 'run() raised %r;%s' % (exc, ctx))
            else:
                out.fail('run_outcome', oc, '%r;%s' % (exc, ctx))
            return
        log = [e for e in it.log if e[0] <= it.end_seq]
        # --- cancel calls in global order: injected ones and program steps
        calls = {}   # target -> list of (seq, time, status_before, token)
        for (k, target, seq, now, before, token) in it.fault_log:
            if before is not None:
                calls.setdefault(target, []).append((seq + 0.5, now, before, token))
        for (seq, act, idx, kind, now, payload, _k) in log:
            if kind == 'cancel_call':
                calls.setdefault(payload[0], []).append((seq, now, payload[1], payload[2]))
        # --- (a) status at every boundary: forward only, one stable final value, done <=> final
        last = {}
        first_start = {}
        for e in log:
            if e[3] == 'start':
                first_start.setdefault(e[1], e[0])
        delayed = {n for n in it.tasks if (find_act(prog, n) or {}).get('after') or
                   (find_act(prog, n) or {}).get('at') is not None}
        for (k, now, sseq, snap) in it.samples:
            for name, (status, done) in snap.items():
                r = RANK.get(status)
                if r is not None and r < 2 and name not in delayed:
                    ran = name in first_start and first_start[name] <= sseq
                    if (status == 'CREATED') == ran:
                        out.fail('status', 'created_vs_ran:%s' % status, '%s reports %s at k=%d but %s;%s' % (
                            name, status, k, 'its code has run' if ran else 'has not had a turn', ctx))
                if r is None:
                    out.fail('status', 'unknown:' + status, name + ctx)
                    continue
                if done != (r == 2):
                    out.fail('status', 'done_mismatch', '%s status=%s done=%s at k=%d;%s' % (name, status, done, k, ctx))
                if name in last:
                    ps, pr = last[name]
                    if r < pr:
                        out.fail('status', 'backwards:%s->%s' % (ps, status), '%s at k=%d;%s' % (name, k, ctx))
                    elif pr == 2 and status != ps:
                        out.fail('status', 'final_changed:%s->%s' % (ps, status), '%s at k=%d;%s' % (name, k, ctx))
                last[name] = (status, r)
        per = {}
        for e in log:
            per.setdefault(e[1], []).append(e)
        # --- per task rules
        for name in case['targets']:
            if name not in it.tasks:
                continue
            evs = per.get(name, [])
            started = [e for e in evs if e[3] == 'start']
            ended = [e for e in evs if e[3] == 'end']
            excd = [e for e in evs if e[3] == 'exc']
            final = last.get(name, (None, None))[0]
            cl = sorted(calls.get(name, []))
            live = [c for c in cl if RANK[c[2]] < 2]          # calls made while not finished
            if live:
                out.nontrivial = True
                out.nt_keys.add('%s@%r' % (name, [c[0] for c in live]))
                out.features.add('cancel_' + live[0][2].lower())
            elif cl:
                out.features.add('cancel_after_done')
            created_cancel = bool(live) and live[0][2] == 'CREATED'
            has_cleanup = 'cleanup' in ops_of(find_act(prog, name)['steps'])
            if live and started and started[0][0] > live[0][0] and name not in delayed:
                out.fail('cancel_created', 'started_after_cancel', '%s: cancel() before its first statement, yet '
                         'its code ran afterwards;%s' % (name, ctx))
            # (c) cancel before the first turn: no code runs
            if created_cancel:
                if started:
                    out.fail('cancel_created', 'code_ran', '%s logged start after being cancelled while CREATED;%s' % (name, ctx))
                if final != 'CANCELLED':
                    out.fail('cancel_created', 'final=%s' % final, name + ctx)
                expect = ('cancelled', live[0][3])
            elif live and not started and final == 'CANCELLED':
                # cancelled during its start delay (after=/at=): no code of the payload ever ran
                out.features.add('cancel_in_start_delay')
                expect = ('cancelled', live[0][3])
            elif excd and excd[0][5][:2] == ('signal', 'CancelTask'):
                # (d) delivered while suspended: same time step as the first live call
                if not live:
                    out.fail('cancel_running', 'spurious', '%s saw CancelTask without a cancel() call;%s' % (name, ctx))
                    continue
                if excd[0][4] != live[0][1] and not has_cleanup:
                    out.fail('cancel_running', 'late', '%s cancelled at %r, CancelTask seen at %r;%s' % (
                        name, live[0][1], excd[0][4], ctx))
                if final != 'CANCELLED':
                    out.fail('cancel_running', 'final=%s' % final, name + ctx)
                expect = ('cancelled', live[0][3])
            elif ended:
                if final != 'SUCCESS':
                    out.fail('outcome', 'success_as_%s' % final, name + ctx)
                expect = ('value', ended[0][5])
                if live:
                    # cancel() came while running but the task finished first: it must have
                    # finished within the time step of that call (nothing runs later)
                    if ended[0][4] != live[0][1]:
                        out.fail('cancel_running', 'ignored', '%s cancelled at %r but ended normally at %r;%s' % (
                            name, live[0][1], ended[0][4], ctx))
            elif excd and excd[0][5][0] == 'prog':
                if final != 'FAILED':
                    out.fail('outcome', 'failed_as_%s' % final, name + ctx)
                expect = ('exc', excd[0][5])
                if live and excd[0][4] != live[0][1]:
                    out.fail('cancel_running', 'ignored', name + ctx)
            elif excd and excd[0][5][0] == 'genexit':
                expect = None      # closed by a failing scope: C04/C05
            else:
                if live and not subject_fails:
                    out.fail('cancel_running', 'not_delivered', '%s: cancel() while %s, neither CancelTask nor '
                             'completion observed;%s' % (name, live[0][2], ctx))
                expect = None
            # every cancel() of a started, still running task is acted upon within its time step:
            # the task is interrupted (again, if it is busy cleaning up) or ends there
            for c in live:
                if c[2] != 'RUNNING' or not started or started[0][0] > c[0]:
                    continue
                hit = [e for e in evs if e[0] > c[0] and e[4] == c[1]
                       and e[3] in ('exc', 'cleanup_begin', 'end')]
                if not hit:
                    nth = 'first' if c is live[0] else 'repeated'
                    out.fail('cancel_running', 'not_acted_on:' + nth, '%s: cancel() at t=%r (seq %s) while '
                             'suspended was not delivered in that time step;%s' % (name, c[1], c[0], ctx))
                    break
            if live and live[0][2] == 'RUNNING' and not excd and any(
                    s['op'] == 'raise' for s in prog['roots'][-2]['steps'][0]['body']):
                # the owner cancelled a *running* task and aborted the scope before the cancellation could be
                # delivered: the synchronous close may win (outcome closed) - only agreement is required
                outcomes = {e[5][0] for e in log if e[3] == 'got_exc' and self._awaits(prog, e[1], e[2], name)}
                if len(outcomes) > 1:
                    out.fail('awaiters', 'disagree', 'awaiters of %s saw %r;%s' % (name, sorted(outcomes), ctx))
                expect = None
            # nothing of the task runs after the cancellation was delivered / after it ended
            if live and not created_cancel and not subject_fails and not has_cleanup:
                t_cancel = live[0][1]
                late = [e for e in evs if e[3] in ('ok', 'start', 'got') and e[4] is not None and e[4] > t_cancel]
                if late:
                    out.fail('cancel_running', 'ran_later', '%s ran %r after cancel at %r;%s' % (name, late[0][2:5], t_cancel, ctx))
            # (b) every awaiter gets the same thing
            if name == 's0' and expect is not None:
                seen = []
                for e in log:
                    if e[3] in ('got', 'got_exc') and self._awaits(prog, e[1], e[2], 's0'):
                        seen.append(e)
                for e in seen:
                    if expect[0] == 'value':
                        okk = e[3] == 'got' and e[5] == expect[1]
                    elif expect[0] == 'exc':
                        okk = e[3] == 'got_exc' and e[5] == expect[1]
                    else:
                        # several cancel() calls may be in flight (async clean-up of the payload can
                        # take a later one): the token must be that of one of them; with a single
                        # call it is exactly that call's token
                        okk = (e[3] == 'got_exc' and e[5][0] == 'cancelled' and e[5][1] == 's0'
                               and tuple(e[5][2]) in {tuple(c[3]) for c in live})
                        if okk and tuple(e[5][2]) != tuple(expect[1]):
                            out.features.add('later_token_won')
                    if not okk:
                        out.fail('awaiters', '%s_got_%s' % (expect[0], e[5][0] if e[3] == 'got_exc' else 'value'),
                                 'awaiter %s%s got %r, expected %r;%s' % (e[1], e[2], e[5], expect, ctx))
                if expect[0] == 'cancelled':
                    serials = {e[5][3] for e in seen if e[3] == 'got_exc' and e[5][0] == 'cancelled'}
                    if len(serials) > 1:
                        out.fail('awaiters', 'different_objects', 'awaiters got %d distinct TaskCancelled objects;%s' % (len(serials), ctx))
                if seen:
                    out.features.add('awaiters')
        # --- (f) parent scope and siblings unaffected
        if not subject_fails:
            leave = [e for e in per.get('r0', []) if e[3] == 'leave' and e[2] == (0,)]
            if not leave:
                out.fail('parent', 'scope_never_left', ctx)
            elif leave[0][5] is not None:
                out.fail('parent', 'scope_raised:%s' % (leave[0][5][0],), 'scope left with %r;%s' % (leave[0][5], ctx))
            cancelled = {n for n, c in calls.items() if any(RANK[x[2]] < 2 for x in c)}
            for a in self._all_names(prog):
                if a in cancelled or (a == 's0c' and 's0' in cancelled) or a in ('x0', 'x1'):
                    continue
                evs = per.get(a, [])
                if not any(e[3] == 'end' for e in evs):
                    out.fail('siblings', 'not_completed', 'activity %s did not reach its end;%s' % (a, ctx))
                    continue
                if a.startswith('t'):
                    ch = find_act(prog, a)
                    t0 = [e for e in evs if e[3] == 'start'][0][4]
                    want = t0 + sum(num(s['d']) for s in ch['steps'])
                    got = [e for e in evs if e[3] == 'end'][0][4]
                    if got != want:
                        out.fail('siblings', 'wrong_end_time', '%s ended at %r, model %r;%s' % (a, got, want, ctx))

        # --- (g) an awaiter that handles the outcome goes on, whatever other awaiters do with it
        for a in ('r1', 'r2', 'r3'):
            if find_act(prog, a) is not None and oc == 'ok' and not any(e[3] == 'end' for e in per.get(a, [])):
                out.fail('awaiters', 'careful_awaiter_did_not_go_on', 'activity %s handles every outcome of its awaits but never '
                         'reached its end;%s' % (a, ctx))
                out.features.add('careless_awaiter')

    @staticmethod
    def _all_names(prog):
        names = []

        def rec(steps):
            for s in steps:
                for ch in s.get('children', ()) or ():
                    names.append(ch['name'])
                    rec(ch['steps'])
                rec(s.get('body', ()) or ())
        for r in prog['roots']:
            names.append(r['name'])
            rec(r['steps'])
        return names

    @staticmethod
    def _awaits(prog, act, idx, ref):
        a = find_act(prog, act)
        if a is None:
            return False
        try:
            steps, node = a['steps'], None
            for p in idx:
                if p == 'b':
                    steps = node['body']
                else:
                    node = steps[p]
            return node['op'] == 'await_task' and node['ref'] == ref
        except Exception:
            return False


CHECK = C06()
