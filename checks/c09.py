"""C09 - Lock: mutual exclusion, re-entrancy, FIFO hand-off, always released."""
from hypothesis import strategies as st

from vlib.runner import Check, Outcome
from vlib.interp import execute
from vlib.probe import Probe
from vlib.scopelog import foreign_exception, Structure, by_activity

HOLDS = [0, 0, 0.5, 1, 1, 2]


@st.composite
def shared_generator_cases(draw):
    return {'shared_generator': {'how': draw(st.sampled_from(['volatile', 'volatile', 'cancel', 'until'])),
                                 'queued_behind': draw(st.booleans()), 'hold': draw(st.sampled_from([0, 0.5, 2]))}}


@st.composite
def cases(draw, tier):
    big = tier == 'thorough'
    ncont = draw(st.integers(2, 5 if big else 4))
    sl = lambda: {'op': 'sleep', 'd': draw(st.sampled_from(HOLDS))}  # noqa
    nested = [0]

    def hold(depth):
        body = []
        for _ in range(draw(st.integers(0, 3))):
            r = draw(st.integers(0, 11))
            if r < 4:
                body.append(sl())
            elif r < 6:
                body.append({'op': 'instant'})
            elif r < 8:
                body.append({'op': 'avail', 'i': 0})
            elif r == 9 and depth == 1:
                # while holding the lock: a short-lived scope whose child also asks for the lock and is
                # closed (by the holder itself) when the scope ends
                nested[0] += 1
                body.append({'op': 'until', 'name': 'N%d' % nested[0], 'notif': ['delay', draw(st.sampled_from([0.5, 1]))],
                             'children': [{'name': 'n%d' % nested[0], 'steps': [{'op': 'lock', 'i': 0, 'body': [sl()]}]}],
                             'body': [{'op': 'sleep', 'd': draw(st.sampled_from([0, 0.5, 1, 2]))}]})
            elif r == 8 and depth == 1:
                # while holding the lock: a supervised helper that fails (the holder handles the failure)
                nested[0] += 1
                body.append({'op': 'scope', 'name': 'N%d' % nested[0], 'catch': draw(st.booleans()),
                             'children': [{'name': 'n%d' % nested[0], 'steps': [
                                 {'op': 'sleep', 'd': draw(st.sampled_from([0, 0.5, 1]))}, {'op': 'raise', 'eid': nested[0], 'cls': 'K'}]}],
                             'body': [{'op': 'sleep', 'd': draw(st.sampled_from([0.5, 1, 2]))}]})
            elif depth < 3:
                body.append({'op': 'lock', 'i': 0, 'body': hold(depth + 1)})
        return body

    def contender(i):
        steps = []
        if draw(st.booleans()):
            steps.append({'op': 'sleep', 'd': draw(st.sampled_from([0, 0.5, 1, 2]))})
        for _ in range(draw(st.integers(1, 3))):
            if draw(st.integers(0, 3)) == 0:
                steps.append({'op': 'avail', 'i': 0})
            req = {'op': 'lock', 'i': 0, 'body': hold(1)}
            if draw(st.integers(0, 7)) == 0:
                # clean-up code inside the block that fails - also while the holder is being closed or cancelled
                nested[0] += 1
                req['body'] = [{'op': 'finally', 'body': req['body'], 'final': [{'op': 'raise', 'eid': 500 + nested[0], 'cls': 'V'}]}]
            w = draw(st.integers(0, 9))
            if w == 0:
                req = {'op': 'until', 'name': 'U%d_%d' % (i, len(steps)), 'notif': ['delay', draw(st.sampled_from([0.5, 1, 2]))],
                       'children': [], 'body': [req]}
            elif w == 1:
                req = {'op': 'until', 'name': 'U%d_%d' % (i, len(steps)), 'notif': ['flag', 0], 'children': [], 'body': [req]}
            steps.append(req)
            if draw(st.integers(0, 2)) == 0:
                steps.append(sl())
        return {'name': 'c%d' % i, 'steps': steps}

    conts = [contender(i) for i in range(ncont)]
    for c in conts:
        if draw(st.integers(0, 4)) == 0:
            c['after'] = draw(st.sampled_from([0.5, 1]))
    # volatile contenders are closed by the owner when its body (timed to end in a late round of some
    # time step) and the other contenders are done
    rbody = []
    if draw(st.integers(0, 2)) == 0:
        for c in conts:
            if draw(st.booleans()):
                c['volatile'] = True
        rbody = [{'op': 'sleep', 'd': draw(st.sampled_from([0.5, 1, 1.5, 2, 3]))}] + \
                [{'op': 'instant'} for _ in range(draw(st.integers(0, 3)))]
        if draw(st.booleans()):
            rbody.append({'op': 'raise', 'eid': 900, 'cls': 'V'})      # the owner's body fails: everybody is closed
    root_blk = {'op': 'scope', 'name': 'S', 'children': conts, 'body': rbody, 'catch': True}
    if draw(st.integers(0, 5)) == 0:
        root_blk['op'] = 'until'
        root_blk['notif'] = ['delay', draw(st.sampled_from([0.5, 1, 2, 3]))] if draw(st.booleans()) else ['flag', 0]
    ctl = {'name': 'ctl', 'steps': [{'op': 'at_eq', 't': draw(st.sampled_from([0.5, 1, 2]))}] +
           [{'op': 'instant'} for _ in range(draw(st.integers(0, 3)))] + [{'op': 'set_flag', 'i': 0, 'v': True}]}
    fin = {'name': 'fin', 'steps': [{'op': 'at_ge', 't': 500}, {'op': 'avail', 'i': 0},
                                    {'op': 'lock', 'i': 0, 'body': [{'op': 'avail', 'i': 0}]},
                                    {'op': 'avail', 'i': 0}]}
    prog = {'start': 0, 'objs': {'locks': 1, 'flags': 1},
            'roots': [{'name': 'r0', 'steps': [root_blk]}, ctl, fin]}
    targets = ['c%d' % i for i in range(ncont)]
    if big and draw(st.integers(0, 2)) == 0:
        faults = 'all'
    else:
        faults = draw(st.lists(st.fixed_dictionaries({'k': st.integers(0, 100), 'target': st.sampled_from(targets),
                                                      'token': st.just([1])}), max_size=5))
    return {'prog': prog, 'targets': targets, 'faults': faults, 'ctl_sweep': big and draw(st.integers(0, 2)) == 0}


def judge(out, prog, it, oc, exc, ctx):
    if oc != 'ok':
        out.fail('run_outcome', ('exc:' + type(exc).__name__) if oc == 'exc' else oc, '%r;%s' % (exc, ctx))
        return
    fe = foreign_exception(it.log, it.end_seq)
    if fe:
        out.fail('run_outcome', 'activity_exc:%s' % fe[1][1], '%s%s ended with %r, which the program did not raise;%s' % (
            fe[0][1], fe[0][2], fe[1], ctx))
    log = [e for e in it.log if e[0] <= it.end_seq]
    S = Structure(prog)
    is_lock = {}

    def lockstep(e):
        key = (e[1], e[2])
        if key not in is_lock:
            try:
                is_lock[key] = S.step_at(e[1], e[2]).get('op') in ('lock', 'avail')
            except Exception:
                is_lock[key] = False
        return is_lock[key]
    lock_ev = [e for e in log if e[3] in ('request', 'enter', 'leave', 'out', 'avail') and lockstep(e)]
    depth = {}            # act -> nesting depth inside the block
    pending = {}          # (act, idx) -> request event, not yet entered / abandoned
    reqs = []             # outermost requests in order: [req event, enter event or None]
    open_req = {}         # (act, idx) -> entry in reqs
    contended = False
    for e in lock_ev:
        seq, act, idx, kind, now, payload, k = e
        if kind == 'request':
            rec = [e, None, depth.get(act, 0)]
            open_req[(act, idx)] = rec
            pending[(act, idx)] = e
            if depth.get(act, 0) == 0:
                reqs.append(rec)
                if any(d > 0 for a, d in depth.items() if a != act) or len(pending) > 1:
                    contended = True
        elif kind == 'enter':
            others = [a for a, d in depth.items() if d > 0 and a != act]
            if others:
                out.fail('mutex', 'two_inside', '%s entered at seq %d t=%r while %s is inside;%s' % (act, seq, now, others, ctx))
            rec = open_req.get((act, idx))
            if rec is not None:
                rec[1] = e
                if rec[2] > 0 and e[6] != rec[0][6]:
                    out.fail('reentrant', 'owner_waited', '%s re-entered its own lock but had to wait;%s' % (act, ctx))
                if rec[2] == 0:
                    # no pending outermost request of someone else may be older (FIFO)
                    older = [p for (a, i), p in pending.items() if a != act and p[0] < rec[0][0]
                             and open_req[(a, i)][2] == 0]
                    if older:
                        out.fail('fifo', 'overtaken', '%s (asked at seq %d) got the lock before %s (asked at seq %d);%s' % (
                            act, rec[0][0], older[0][1], older[0][0], ctx))
            pending.pop((act, idx), None)
            depth[act] = depth.get(act, 0) + 1
        elif kind == 'leave':
            depth[act] = depth.get(act, 0) - 1
        elif kind == 'out':
            if (act, idx) in pending:          # abandoned while waiting / designated
                pending.pop((act, idx))
                out.features.add('abandoned_request')
        elif kind == 'avail':
            mine = depth.get(act, 0) > 0
            other = any(d > 0 for a, d in depth.items() if a != act)
            waiting = any(a != act for (a, i) in pending)
            want = mine or not (other or waiting)
            if payload != want:
                out.fail('available', 'want_%s' % want, '%s probed available=%r at seq %d t=%r; holder(other)=%s waiting=%s mine=%s;%s' % (
                    act, payload, seq, now, other, waiting, mine, ctx))
            if act == 'fin':
                out.features.add('final_probe')
    # a request that is neither granted nor abandoned: the waiter was forgotten
    for (a, i), p in pending.items():
        out.fail('handoff', 'starved', '%s asked at seq %d t=%r and never got the lock although it was not interrupted;%s' % (
            a, p[0], p[4], ctx))
    # the fresh activity at quiescence acquires without waiting
    fin = [e for e in lock_ev if e[1] == 'fin']
    fr = [e for e in fin if e[3] == 'request']
    fe = [e for e in fin if e[3] == 'enter']
    if fr and not pending:
        if not fe:
            out.fail('handoff', 'not_free_at_quiescence', 'fresh activity could not take the lock at the end;%s' % ctx)
        elif fe[0][6] != fr[0][6]:
            out.fail('handoff', 'fresh_waited', 'fresh activity had to wait for a free lock;%s' % ctx)
    if contended:
        out.features.add('contended')
    return contended


class C09(Check):
    pid = 'C09'
    level = 'fault_enumeration'
    rule = ('2-5 contenders (children of one scope) each issuing 1-3 lock requests with nesting depth 1-3, hold '
            'times incl. 0, same-turn re-requests, available-probes; some requests inside until(time+d)/until(flag), '
            'sometimes an enclosing until() closes everybody; Task.cancel injected at sampled (thorough: all) '
            'activation boundaries of every contender. Oracle: FIFO lock model replayed over the logged '
            'request/enter/leave/abandon events. non-trivial = >=2 overlapping requests and a fault/interrupt/close '
            'that made a waiter or holder leave; distinct by sha1(program+faults). Also contenders that wait for the lock inside an '
            'async generator which another activity still references, and are closed / cancelled / interrupted there.')
    budgets = {'quick': dict(examples=2000, procs=4), 'thorough': dict(examples=16000, procs=16)}
    level_text = ('Model-based history check under exhaustive boundary cancel injection: never two activities inside, '
                  'owner re-enters without waiting, grants in request order, `available` equals the model at every '
                  'probe, no non-interrupted request starves, and a fresh activity at quiescence finds the lock free '
                  'and takes it without waiting.')
    level_note = ('Model state is reconstructed from the interpreter log (request/enter/leave/out events with '
                  'activation numbers). The designated next owner counts as waiting/holding.')
    technique = 'property-based testing with boundary fault injection; FIFO lock reference model over the logged history'
    design_ref = 'DESIGN.md section 4, C09'

    def strategy(self, tier):
        return st.sampled_from(range(20)).flatmap(lambda k, tier=tier: shared_generator_cases() if k == 0 else cases(tier))

    def generator_case(self, case):
        """A contender asks for the lock from inside an async generator (every step is produced under the lock) that the
        activity which created it still references, and is ended - closed forcefully, cancelled, interrupted - while it
        waits there: the lock passes it by; it is free once the holder has left, and a later contender gets it."""
        import usim
        from vlib.probe import run_probed
        out = Outcome()
        out.evals = 1
        spec = case['shared_generator']
        seen = {}

        async def guarded(lock):
            for step in range(3):
                async with lock:
                    yield step

        async def consume(steps):
            async for _ in steps:
                await (usim.time + 1)

        async def bounded(steps):
            async with usim.until(usim.time + 0.5):
                await consume(steps)

        async def waiter(lock, key, hold):
            async with lock:
                seen[key] = usim.time.now
                await (usim.time + hold)

        async def main():
            lock = usim.Lock()
            steps = guarded(lock)           # this frame keeps the generator referenced
            async with usim.Scope() as outer:
                if spec['queued_behind']:
                    outer.do(waiter(lock, 'behind', 1), after=0.5)
                async with lock:
                    if True:
                        async with usim.Scope() as scope:
                            helper = scope.do(bounded(steps) if spec['how'] == 'until' else consume(steps),
                                              volatile=spec['how'] == 'volatile')
                            await (usim.time + 1)
                            if spec['how'] == 'cancel':
                                helper.cancel()
                    await (usim.time + spec['hold'])
                seen['free'] = lock.available
                seen['released'] = usim.time.now
                outer.do(waiter(lock, 'late', 0), after=1)
                await (usim.time + 6)
            del steps
        oc, exc, _ = run_probed([main()], till=60, probe=Probe(b_step=2000, b_total=20000))
        if oc != 'ok':
            out.fail('run_outcome', 'shared_generator:%s:%s' % (oc, type(exc).__name__), 'run() ended with %s %r' % (oc, exc))
            return out
        rel = seen.get('released')
        if spec['queued_behind']:
            if seen.get('behind') != rel:
                out.fail('handoff', 'shared_generator:starved', 'the contender queued behind an ended waiter got the lock at %r, the '
                         'holder left at %r (%s)' % (seen.get('behind'), rel, spec['how']))
            want_late = max(rel + 1, rel + 1)       # the one behind holds for 1
        else:
            if seen.get('free') is not True:
                out.fail('available', 'shared_generator:not_free', 'nobody holds the lock and its only waiter has ended (%s), but it '
                         'is not free' % spec['how'])
            want_late = rel + 1
        if seen.get('late') != want_late:
            out.fail('handoff', 'shared_generator:late_contender_starved', 'a contender asking at %r got the lock at %r (%s)' % (
                rel + 1, seen.get('late'), spec['how']))
        out.nontrivial = True
        out.features.add('waiter_ended_inside_shared_generator')
        return out

    def run_case(self, case, tier='quick'):
        if 'shared_generator' in case:
            return self.generator_case(case)
        out = Outcome()
        prog = case['prog']
        mk = lambda: Probe(b_step=4000, b_total=40000)  # noqa
        it, oc, exc, p = execute(prog, mk())
        it0 = it
        out.evals = 1
        contended = judge(out, prog, it, oc, exc, ' faults=None')
        N = p.k
        if case['faults'] == 'all':
            plan = [[{'k': k, 'target': t, 'token': [1]}] for t in case['targets'] for k in range(N + 1)][:1200]
        else:
            plan = [[dict(f, k=f['k'] % (N + 1))] for f in case['faults']]
            if len(plan) >= 2:
                plan.append(plan[0] + plan[1])
        for faults in plan:
            it, oc, exc, p = execute(prog, mk(), faults=faults)
            out.evals += 1
            c = judge(out, prog, it, oc, exc, ' faults=%r' % (faults,))
            if c and 'abandoned_request' in out.features:
                out.nontrivial = True
        if contended and 'abandoned_request' in out.features:
            out.nontrivial = True
        if case.get('ctl_sweep'):
            # until-interrupt / forceful close placed in every round of every time step of the run
            from vlib.gen import ctl_variants
            for q in ctl_variants(prog, it0):
                it, oc, exc, p = execute(q, mk())
                out.evals += 1
                judge(out, q, it, oc, exc, ' ctl=%r' % ([r['steps'] for r in q['roots'] if r['name'] == 'ctl'][0][:1] + ['x%d' % (len([r for r in q['roots'] if r['name'] == 'ctl'][0]['steps']) - 2)],))
            out.features.add('ctl_sweep')
        return out


CHECK = C09()
