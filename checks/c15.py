"""C15 - run() ends at quiescence, reports failures and keeps simulations isolated."""
import copy
import json
import sys
import threading
from hypothesis import strategies as st

import usim

from vlib.runner import Check, Outcome, InvalidCase
from vlib.interp import execute, num
from vlib.probe import Probe
from checks import c01

RET_VALUES = [0, 1, '', 'x', False, True, 42, [], [1]]


def outside():
    """what this thread sees of a simulation right now: None if there is none"""
    try:
        return usim.time.now
    except RuntimeError:
        return None


def strip_prog(prog):
    return prog


def _renamed(prog, prefix):
    def walk(steps):
        for s_ in steps:
            for ch in s_.get('children', ()):
                ch['name'] = prefix + ch['name']
                walk(ch['steps'])
            walk(s_.get('body', ()))
    for r in prog['roots']:
        r['name'] = prefix + r['name']
        walk(r['steps'])
    return prog


@st.composite
def small_prog(draw, tier, roots=(1, 3)):
    p = draw(c01.programs(tier))
    p['roots'] = p['roots'][:draw(st.integers(*roots))]
    return p


@st.composite
def dirty_prog(draw):
    """ends with live tasks that wait for each other (abandoned mid-flight)"""
    sl = lambda: {'op': 'sleep', 'd': draw(st.sampled_from([0.5, 1, 2, 3]))}  # noqa
    kids = [{'name': 'ka', 'steps': [sl(), sl()]},
            {'name': 'kb', 'steps': [{'op': 'await_task', 'ref': 'ka'}, sl()]},
            {'name': 'kc', 'steps': [{'op': 'await_done', 'ref': 'kb'}]},
            {'name': 'kd', 'steps': [{'op': 'lock', 'i': 0, 'body': [sl()]}, {'op': 'qget', 's': 0}]}]
    kids = kids[:draw(st.integers(2, 4))]
    body = [sl()]
    how = draw(st.sampled_from(['raise', 'till', 'block']))
    prog = {'start': 0, 'objs': {'locks': 1, 'queues': 1}, 'roots': [
        {'name': 'r0', 'steps': [{'op': 'scope', 'name': 'S', 'children': kids, 'body': body}]},
        {'name': 'r1', 'steps': [sl(), sl(), sl()]}]}
    if how == 'raise':
        prog['roots'][1]['steps'].insert(draw(st.integers(0, 2)), {'op': 'raise', 'eid': 1, 'cls': 'K'})
    elif how == 'till':
        prog['till'] = draw(st.sampled_from([0.5, 1, 1.5]))
    else:
        prog['roots'][0]['steps'][0]['children'].append({'name': 'kz', 'steps': [{'op': 'eternity'}]})
    return prog


@st.composite
def objs_prog(draw):
    """A simulation over a model's long-lived objects (lock, queue, channel, resource supply, all shared with the other
    runs of the history) that leaves every one of them as it found it."""
    sl = lambda: {'op': 'sleep', 'd': draw(st.sampled_from([0, 0.5, 1, 2]))}  # noqa
    kids = []
    for i in range(draw(st.integers(1, 3))):
        kids.append({'name': 'lk%d' % i, 'steps': [sl(), {'op': 'lock', 'i': 0, 'body': [sl(), {'op': 'mark', 'v': i}]}]})
    n = draw(st.integers(0, 3))
    if n:
        kids.append({'name': 'qp', 'steps': [x for j in range(n) for x in (sl(), {'op': 'qput', 's': 0, 'v': j})]})
        kids.append({'name': 'qc', 'steps': [{'op': 'qget', 's': 0} for _ in range(n)]})
    m = draw(st.integers(0, 3))
    if m:
        kids.append({'name': 'cc', 'steps': [{'op': 'citer', 's': 0, 'n': m}]})
        kids.append({'name': 'cp', 'steps': [{'op': 'sleep', 'd': 0.5}] + [x for j in range(m) for x in ({'op': 'cput', 's': 0, 'v': 10 + j}, sl())]})
    for i in range(draw(st.integers(0, 3))):
        kids.append({'name': 'rb%d' % i, 'steps': [sl(), {'op': 'borrow', 'r': 'R', 'amounts': {'a': draw(st.integers(1, 3))},
                                                          'body': [sl(), {'op': 'levels', 'r': 'R'}]}]})
    if draw(st.booleans()):
        # a borrower that is cancelled while it holds (or still acquires) its share
        kids.append({'name': 'rv', 'steps': [{'op': 'borrow', 'r': 'R', 'amounts': {'a': 2}, 'body': [{'op': 'sleep', 'd': 5}]}]})
        kids.append({'name': 'rk', 'steps': [{'op': 'sleep', 'd': draw(st.sampled_from([0, 0, 1]))}] +
                     [{'op': 'instant'} for _ in range(draw(st.integers(0, 3)))] + [{'op': 'cancel', 'ref': 'rv', 'token': [3]}]})
    if draw(st.booleans()):
        # a volatile borrower that is closed forcefully at the end of the scope while it holds its share
        kids.append({'name': 'rz', 'volatile': True, 'steps': [{'op': 'borrow', 'r': 'R', 'amounts': {'a': 1}, 'body': [{'op': 'sleep', 'd': 50}]}]})
    nflags = 0
    if draw(st.booleans()):
        # the model's flags: somebody guards a block by `until(a | b)` / `until(a & b)` (left when its body ends, or when
        # the condition fires), somebody else raises a flag for a while - not necessarily in the same run
        nflags = 2
        cnd = [draw(st.sampled_from(['or', 'or', 'and'])), ['flag', 0], ['flag', 1]]
        if draw(st.integers(0, 2)):
            kids.append({'name': 'fw', 'steps': [sl(), {'op': 'until', 'name': 'FU', 'notif': cnd, 'catch': True, 'children': [],
                                                      'body': [{'op': 'sleep', 'd': draw(st.sampled_from([0.5, 1, 3]))}]}, {'op': 'mark', 'v': 'fw'}]})
        if draw(st.booleans()):
            i = draw(st.integers(0, 1))
            kids.append({'name': 'fs', 'steps': [{'op': 'sleep', 'd': draw(st.sampled_from([0.25, 0.75, 2]))}, {'op': 'set_flag', 'i': i, 'v': True},
                                                 {'op': 'sleep', 'd': 0.5}, {'op': 'set_flag', 'i': i, 'v': False}]})
    kids = [kids[i] for i in draw(st.permutations(list(range(len(kids)))))]
    if any(k['name'] == 'rk' for k in kids):            # the victim exists before it is cancelled
        kids = [k for k in kids if k['name'] == 'rv'] + [k for k in kids if k['name'] != 'rv']
    return {'start': draw(st.sampled_from([0, 0, 5])),
            'objs': {'shared': True, 'flags': nflags, 'locks': 1, 'queues': 1, 'channels': 1, 'resources': [{'kind': draw(st.sampled_from(['cap', 'res'])),
                                                                                         'name': 'R', 'levels': {'a': 3}}]},
            'roots': [{'name': 'r0', 'steps': [{'op': 'scope', 'name': 'S', 'children': kids, 'body': [], 'catch': True},
                                                {'op': 'levels', 'r': 'R'}]}]}


@st.composite
def cases(draw, tier):
    kind = draw(st.sampled_from(['history', 'history', 'nesting', 'threads']))
    if kind == 'history':
        ops = []
        for _ in range(draw(st.integers(1, 6))):
            k = draw(st.sampled_from(['ok', 'ok', 'fail', 'leak', 'nested', 'probe', 'dirty', 'gc_inside', 'objs']))
            if k == 'objs':
                p = draw(objs_prog())
                for _ in range(draw(st.integers(1, 3))):
                    ops.append({'k': 'objs', 'prog': copy.deepcopy(p) if draw(st.booleans()) else draw(objs_prog())})
                continue
            if k == 'ok':
                ops.append({'k': 'ok', 'prog': draw(small_prog(tier))})
                if draw(st.integers(0, 11)) == 0:
                    # a long series of the same simulation, garbage collected in between (memory of finished simulations is
                    # reused for new ones)
                    base = ops[-1]['prog']
                    for _ in range(draw(st.integers(6, 12))):
                        if draw(st.integers(0, 2)):
                            ops.append({'k': 'probe', 'collect': True})
                        ops.append({'k': 'ok', 'prog': copy.deepcopy(base)})
                elif draw(st.integers(0, 2)) == 0:
                    if draw(st.booleans()):
                        ops.append({'k': 'probe', 'collect': True})
                    ops.append({'k': 'ok', 'prog': copy.deepcopy(ops[-1 if ops[-1]['k'] == 'ok' else -2]['prog'])})      # the same simulation once more
            elif k == 'fail':
                p = draw(small_prog(tier))
                for r in p['roots']:
                    r['steps'] = [s for s in r['steps'] if s['op'] in c01.TIMED and s['op'] not in ('eternity',)]
                n = 0
                tie = draw(st.integers(0, 2)) == 0      # several roots fail in the very first time step: the first one counts
                for i, r in enumerate(p['roots']):
                    if i == 0 or tie or draw(st.booleans()):
                        n += 1
                        at = 0 if tie else draw(st.integers(0, len(r['steps'])))
                        if draw(st.integers(0, 4)) == 0:
                            # the root fails with the TaskCancelled of a task it cancelled and then awaits
                            r['steps'][at:at] = [{'op': 'scope', 'name': 'tcs%d' % n, 'catch': False,
                                                  'children': [{'name': 'tcv%d' % n, 'steps': [{'op': 'sleep', 'd': 5}]}],
                                                  'body': [{'op': 'cancel', 'ref': 'tcv%d' % n},
                                                           {'op': 'await_task', 'ref': 'tcv%d' % n, 'nocatch': True}]}]
                        else:
                            r['steps'].insert(at, {'op': 'raise', 'eid': n, 'cls': draw(st.sampled_from(['E', 'K', 'A']))})
                if draw(st.integers(0, 1)) == 0 and 'inf' not in json.dumps(p['roots']):
                    p['till'] = 1e12            # a deadline that is never reached must not change how a failure is reported
                ops.append({'k': 'fail', 'prog': p})
                if draw(st.integers(0, 2)) == 0:
                    # the same simulation without the failures afterwards (it uses the same date condition objects)
                    q = copy.deepcopy(p)
                    for r in q['roots']:
                        r['steps'] = [s_ for s_ in r['steps'] if s_['op'] not in ('raise', 'scope')]
                    q.pop('till', None)
                    ops.append({'k': 'ok', 'prog': q})
            elif k == 'leak':
                p = draw(small_prog(tier, roots=(1, 2)))
                for r in p['roots']:
                    r['steps'] = [s for s in r['steps'] if s['op'] in c01.TIMED and s['op'] not in ('eternity', 'at_lt', 'at_eq')]
                v = draw(st.sampled_from(RET_VALUES))
                p['roots'][-1]['steps'].append({'op': 'return', 'v': v})
                if draw(st.integers(0, 2)) == 0 and 'inf' not in json.dumps(p['roots']):
                    p['till'] = 1e12
                ops.append({'k': 'leak', 'prog': p, 'v': v})
            elif k == 'nested':
                outer = draw(small_prog(tier, roots=(1, 2)))
                inner = draw(small_prog(tier, roots=(1, 2)))
                if draw(st.integers(0, 2)) == 0:
                    inner['roots'][0]['steps'].append({'op': 'raise', 'eid': 77, 'cls': 'V'})
                r = outer['roots'][0]
                r['steps'].insert(draw(st.integers(0, len(r['steps']))), {'op': 'nested_run', 'prog': inner, 'id': 0})
                ops.append({'k': 'nested', 'prog': outer})
            elif k == 'dirty':
                ops.append({'k': 'dirty', 'prog': draw(dirty_prog())})
                if draw(st.booleans()):
                    # a simulation that is cut short (by a failure, by `till`) before a date that one of its activities waits
                    # for, followed by one that waits for the same date (the same condition object) and gets there
                    D = draw(st.sampled_from([2, 3.5, 5]))
                    kind_ = draw(st.sampled_from(['at_ge', 'at_eq']))
                    waiter = {'name': 'a1', 'steps': [{'op': kind_, 't': D}, {'op': 'sleep', 'd': 0.5}]}
                    cut = {'start': 0, 'objs': {}, 'roots': [copy.deepcopy(waiter), {'name': 'a2', 'steps': [
                        {'op': 'sleep', 'd': draw(st.sampled_from([0.5, 1, 1.5]))}, {'op': 'raise', 'eid': 1, 'cls': 'K'}]}]}
                    ops.append({'k': 'fail', 'prog': cut})
                    ops.append({'k': 'ok', 'prog': {'start': 0, 'objs': {}, 'roots': [copy.deepcopy(waiter)]}})
            elif k == 'gc_inside':
                p = {'start': 0, 'objs': {}, 'roots': [{'name': 'g0', 'steps': [{'op': 'sleep', 'd': 1}, {'op': 'gc_collect'},
                                                                                {'op': 'sleep', 'd': 1}, {'op': 'instant'}]},
                                                      {'name': 'g1', 'steps': [{'op': 'sleep', 'd': 1.5}, {'op': 'sleep', 'd': 1}]}]}
                ops.append({'k': 'ok', 'prog': p, 'gc': True})
            else:
                ops.append({'k': 'probe', 'collect': draw(st.booleans())})
        return {'kind': 'history', 'ops': ops}
    if kind == 'nesting':
        outer = draw(small_prog(tier, roots=(1, 3)))
        inner = draw(small_prog(tier, roots=(1, 2)))
        if draw(st.integers(0, 3)) == 0:
            inner['roots'][-1]['steps'].append({'op': 'raise', 'eid': 77, 'cls': 'V'})
        elif draw(st.integers(0, 2)) == 0:
            # the nested simulation ends (at quiescence, or by a failure) with activities that still hold and wait for
            # something: whatever becomes of them, it does not happen in the enclosing simulation
            what = draw(st.sampled_from(['res', 'lock', 'queue']))
            hold = {'res': {'op': 'borrow', 'r': 'R', 'amounts': {'a': 1}, 'body': [{'op': 'eternity'}]},
                    'lock': {'op': 'lock', 'i': 0, 'body': [{'op': 'eternity'}]},
                    'queue': {'op': 'eternity'}}[what]
            want = {'res': {'op': 'borrow', 'r': 'R', 'amounts': {'a': 1}, 'body': [{'op': 'mark', 'v': 'mine'}, {'op': 'sleep', 'd': 1}]},
                    'lock': {'op': 'lock', 'i': 0, 'body': [{'op': 'mark', 'v': 'mine'}, {'op': 'sleep', 'd': 1}]},
                    'queue': {'op': 'qget', 's': 0}}[what]
            ih_steps = [hold]
            iw_steps = [{'op': 'sleep', 'd': draw(st.sampled_from([0.5, 1]))}, want, {'op': 'sleep', 'd': 1}, {'op': 'mark', 'v': 'on'}]
            if draw(st.booleans()):
                # clean-up code of the left-over activities: it may fail, and it looks at the clock - of its own simulation
                ih_steps = [{'op': 'finally', 'body': ih_steps, 'final': [{'op': 'raise', 'eid': 79, 'cls': 'V'}]}]
                iw_steps = [{'op': 'finally', 'body': iw_steps, 'final': [{'op': 'mark', 'v': 'cleanup'}]}]
            inner = {'start': draw(st.sampled_from([0, 3])), 'roots': [
                {'name': 'ih', 'steps': ih_steps},
                {'name': 'iw', 'steps': iw_steps}],
                'objs': {'locks': 1, 'queues': 1, 'resources': [{'kind': 'res', 'name': 'R', 'levels': {'a': 1}}]}}
            if draw(st.integers(0, 2)) == 0:
                inner['roots'].append({'name': 'ix', 'steps': [{'op': 'sleep', 'd': 2}, {'op': 'raise', 'eid': 78, 'cls': 'K'}]})
        elif draw(st.integers(0, 1)) == 0:
            # a nested simulation about the very same dates as the enclosing one (waits, guards, children's start dates,
            # and - half of the time - the same `till`): two simulations alive at once never share a date's bookkeeping
            inner = _renamed(copy.deepcopy(outer), 'n')
            inner['roots'] = inner['roots'][:2]
            if draw(st.booleans()) and abs(num(outer['start'])) < 1e5:
                outer['till'] = inner['till'] = num(outer["start"]) + draw(st.sampled_from([1, 2, 3.5, 6]))
        if draw(st.integers(0, 2)) == 0 and all(r['name'] not in ('ih', 'iw') for r in inner['roots']):
            # ... which runs a simulation of its own somewhere on its way (three simulations alive at once)
            innermost = _renamed(draw(small_prog(tier, roots=(1, 2))), 'm')
            r2 = inner['roots'][draw(st.integers(0, len(inner['roots']) - 1))]
            r2['steps'].insert(draw(st.integers(0, len(r2['steps']))), {'op': 'nested_run', 'prog': innermost, 'id': 1})
        ri = draw(st.integers(0, len(outer['roots']) - 1))
        pos = draw(st.integers(0, len(outer['roots'][ri]['steps'])))
        return {'kind': 'nesting', 'outer': outer, 'inner': inner, 'root': ri, 'pos': pos}
    # threads: each thread runs single-activity programs; 'sync' steps (each id shared by exactly two
    # threads, ids increasing along every thread) let the harness force cross-thread interleavings
    nthreads = draw(st.integers(2, 5 if tier == 'thorough' else 4))
    nsync = draw(st.integers(0, 6))
    pairs = [sorted(draw(st.lists(st.integers(0, nthreads - 1), min_size=2, max_size=2, unique=True))) for _ in range(nsync)]
    threads = []
    for t in range(nthreads):
        mine = [i for i, pr in enumerate(pairs) if t in pr]
        # flat list of items in execution order; syncs in increasing id order
        flat = []
        for sid in mine:
            for _ in range(draw(st.integers(0, 2))):
                flat.append(draw(st.sampled_from(['sleep', 'instant', 'nest_open', 'nest_close', 'run_break', 'transfer'])))
            flat.append(('sync', sid))
        for _ in range(draw(st.integers(0, 3))):
            flat.append(draw(st.sampled_from(['sleep', 'instant', 'nest_open', 'nest_close', 'run_break', 'transfer'])))
        # build: list of top-level programs (run_break separates them), nesting by nest_open/close
        progs = []
        stack = [[]]
        start = [draw(st.sampled_from([0, 10, 100, -5]))]
        # simulations using library objects (their own pipe); a background activity keeps a transfer in flight
        # while the main activity meets the other threads
        lib = draw(st.booleans())

        def top(steps):
            pr = {'start': start[0], 'objs': {'pipes': [{'thr': 1}]}, 'roots': [{'name': 'm', 'steps': steps + [{'op': 'now'}]}]}
            if lib:
                pr['roots'].append({'name': 'bg', 'steps': [{'op': 'transfer', 'p': 0, 'total': draw(st.sampled_from([4, 8, 16])),
                                                            'thr': None}, {'op': 'now'}]})
            return pr

        def close_all():
            while len(stack) > 1:
                inner_steps = stack.pop()
                stack[-1].append({'op': 'nested_run', 'id': len(progs) * 10 + len(stack),
                                  'prog': {'start': start[0] + 1000 * len(stack), 'objs': {},
                                           'roots': [{'name': 'n%d' % len(stack), 'steps': inner_steps + [{'op': 'now'}]}]}})
        for it_ in flat:
            if it_ == 'sleep':
                stack[-1].append({'op': 'sleep', 'd': draw(st.sampled_from([0.5, 1, 2]))})
            elif it_ == 'instant':
                stack[-1].append({'op': 'instant'})
            elif it_ == 'transfer':
                if len(stack) == 1:
                    stack[-1].append({'op': 'transfer', 'p': 0, 'total': draw(st.sampled_from([0.5, 1, 2])), 'thr': None})
                else:
                    stack[-1].append({'op': 'sleep', 'd': 1})
            elif it_ == 'nest_open' and len(stack) < 3:
                stack.append([{'op': 'now'}])
            elif it_ == 'nest_close' and len(stack) > 1:
                inner_steps = stack.pop()
                stack[-1].append({'op': 'nested_run', 'id': len(progs) * 10 + len(stack),
                                  'prog': {'start': start[0] + 1000 * len(stack), 'objs': {},
                                           'roots': [{'name': 'n%d' % len(stack), 'steps': inner_steps + [{'op': 'now'}]}]}})
                stack[-1].append({'op': 'now'})
            elif it_ == 'run_break':
                close_all()
                if stack[0]:
                    progs.append(top(stack[0]))
                    stack[0] = []
                    start[0] = draw(st.sampled_from([0, 10, 100, -5]))
            elif isinstance(it_, tuple):
                stack[-1].append({'op': 'sync', 'id': it_[1]})
                stack[-1].append({'op': 'now'})
        close_all()
        if stack[0]:
            progs.append(top(stack[0]))
        threads.append(progs)
    return {'kind': 'threads', 'threads': threads, 'nsync': nsync}


def root_names(prog):
    return [r['name'] for r in prog['roots']]


def trace(it):
    return [tuple(e[1:6]) for e in it.log if e[0] <= it.end_seq]


class C15(Check):
    pid = 'C15'
    level = 'exploration'
    rule = ('[histories keep date condition objects from run to run and compare every successful run with the same run alone; '
            'thread simulations own a pipe with a transfer in flight] Three kinds of generated cases: (a) histories of 1-6 runs on one thread - successful (C01-language programs, judged by '
            'the C01 clock model), failing roots, leaking roots (return values incl. falsy ones), nested run(), runs that end with '
            'live tasks waiting for each other (abrupt failure / till / blocked), a run that calls gc.collect(), probes in between; '
            '(b) nesting: an outer program with a nested run() inserted at a generated step vs. the same programs run separately; '
            '(c) 2-5 real threads each running a list of (nested) simulations, with harness-owned rendezvous points that force '
            'cross-thread overlap. non-trivial = history with >=2 runs of which one is failing/leaking/nested/dirty; nesting at a '
            'non-initial step; thread case with >=1 rendezvous inside a run; distinct by sha1. Also nested simulations about the very '
            'dates / till of the enclosing one, doubly nested runs, and histories over shared flags with connective-guarded blocks.')
    budgets = {'quick': dict(examples=800, procs=4), 'thorough': dict(examples=12000, procs=16)}
    level_text = ('History invariants and metamorphic relations: after every run - however it ended - the thread sees no simulation; '
                  'roots start in argument order at `start`; the first escaping exception object is re-raised; unreceived return '
                  'values are reported; a nested run() neither changes the outer trace nor differs from its standalone trace; '
                  'traces of simulations running concurrently in threads equal their sequential traces while a bystander thread '
                  'sees no simulation.')
    level_note = ('The OS thread schedule is only partly owned by the harness (rendezvous points + tiny switch interval): the thread '
                  'clause is stress-level. A rendezvous that times out makes the case inconclusive, never a violation.')
    technique = 'property-based testing over run histories (metamorphic nesting relation, sequential-vs-threaded differential, state invariant after every run)'
    design_ref = 'DESIGN.md section 4, C15'

    def strategy(self, tier):
        return cases(tier)

    # ------------------------------------------------------------------
    def run_case(self, case, tier='quick'):
        out = Outcome()
        kind = case['kind']
        if kind == 'history':
            self.history(out, case)
        elif kind == 'nesting':
            self.nesting(out, case)
        elif kind == 'threads':
            self.threads(out, case)
        else:
            raise InvalidCase(kind)
        out.features.add('kind_' + kind)
        return out

    def after_run(self, out, what):
        seen = outside()
        if seen is not None:
            out.fail('isolation', 'simulation_visible_after_run:' + what,
                     'after a %s run this thread still sees a simulation (time.now == %r)' % (what, seen))

    def history(self, out, case):
        special = 0
        dates = {}          # date condition objects kept by "the program" from one run to the next
        shared = {}         # ... and its long-lived locks, queues, channels and resource supplies
        for n, op in enumerate(case['ops']):
            k = op['k']
            if k == 'probe':
                self.after_run(out, 'probe')
                if op.get('collect'):
                    import gc
                    gc.collect()        # the finished simulations are freed now: their memory (and addresses) get reused
                continue
            prog = op['prog']
            if k in ('fail', 'leak') and prog.get('till') is not None and (prog['till'] < 1e12 or 'inf' in json.dumps(prog['roots'])):
                raise InvalidCase('the deadline of a failing / leaking run lies beyond everything it does')
            it, oc, exc, p = execute(prog, Probe(b_step=5000, b_total=80000), hooks={'date_cache': dates, 'shared_objs': shared})
            out.evals += 1
            self.after_run(out, k)
            if k == 'objs':
                special += 1
                out.features.add('shared_objects')
                if oc != 'ok':
                    out.fail('outcome', 'ok_run_%s:%s' % (oc, type(exc).__name__), 'run #%d: %r' % (n, exc))
            if (k == 'ok' and not op.get('gc')) or k == 'objs':
                # the same run alone (fresh objects): what happened earlier on this thread must not matter
                alone, oc2, exc2, _ = execute(prog, Probe(b_step=5000, b_total=80000))
                out.evals += 1
                if (oc, trace(it)) != (oc2, trace(alone)):
                    a, b = trace(it), trace(alone)
                    d = next((i for i, (x, y) in enumerate(zip(a, b)) if x != y), min(len(a), len(b)))
                    out.fail('isolation', 'run_depends_on_history', 'run #%d (%s) differs from the same run alone at row %d: %r vs %r' % (
                        n, oc, d, a[d:d + 1], b[d:d + 1]))
            names = root_names(prog)
            starts = [e for e in it.log if e[3] == 'start' and e[1] in names and e[0] <= it.end_seq]
            # roots start in argument order at `start` - as far as the run got
            if k in ('ok', 'nested') and prog.get('till') is None:
                if [e[1] for e in starts] != names or any(e[4] != num(prog['start']) for e in starts):
                    out.fail('start_order', 'roots', 'roots %r started as %r' % (names, [(e[1], e[4]) for e in starts]))
            else:
                got = [e[1] for e in starts]
                if got != names[:len(got)] or any(e[4] != num(prog['start']) for e in starts):
                    out.fail('start_order', 'roots', 'roots %r started as %r' % (names, [(e[1], e[4]) for e in starts]))
            if k == 'ok':
                if oc != 'ok':
                    out.fail('outcome', 'ok_run_%s:%s' % (oc, type(exc).__name__), 'run #%d: %r' % (n, exc))
                elif not op.get('gc'):
                    sub = c01.CHECK.run_case(prog)
                    out.evals += 1
                    for f in sub.failures:
                        out.fail('quiescence', f.oracle + ':' + f.sig, 'run #%d: %s' % (n, f.msg))
                else:
                    ends = [e for e in it.log if e[3] == 'end']
                    if len(ends) != len(names):
                        out.fail('quiescence', 'gc_run_incomplete', 'run #%d calling gc.collect(): activities did not complete' % n)
            elif k == 'fail':
                special += 1
                excs = [e for e in it.log if e[3] == 'exc' and e[1] in names and e[0] <= it.end_seq and e[5] and e[5][0] in ('prog', 'cancelled')]
                if not excs:
                    special -= 1          # no root reached its failure (it waits for a date that never comes)
                    if oc != 'ok':
                        out.fail('outcome', 'ok_run_%s:%s' % (oc, type(exc).__name__), 'run #%d: %r' % (n, exc))
                elif oc != 'exc':
                    out.fail('failure', 'not_raised', 'run #%d: roots fail but run() ended %s' % (n, oc))
                elif not excs or it.describe(exc) != excs[0][5]:
                    out.fail('failure', 'wrong_exception', 'run #%d raised %r, first escaping failure was %r' % (
                        n, it.describe(exc), excs[0][5] if excs else None))
                else:
                    late = [e for e in it.log if excs[0][0] < e[0] <= it.end_seq and e[3] != 'fin']
                    if prog.get('till') is not None:
                        # with a deadline the roots are children of one scope: the failure aborts the others within
                        # the same time step (C05), activities that already had their turn queued may still run in it
                        late = [e for e in late if e[4] != excs[0][4]]
                    if late:
                        out.fail('failure', 'ran_on_after_failure', 'run #%d: %r after the failure' % (n, late[0][1:5]))
            elif k == 'leak':
                special += 1
                if not prog['roots'] or not any(s_['op'] == 'return' for s_ in prog['roots'][-1]['steps']):
                    raise InvalidCase('a leaking run needs a root that returns a value')      # (shrinking produces these)
                if oc != 'exc' or not isinstance(exc, RuntimeError):
                    out.fail('leak', 'not_reported:%s' % type(op['v']).__name__ + ('_falsy' if not op['v'] else ''),
                             'run #%d: root returned %r but run() ended %s %r' % (n, op['v'], oc, exc))
                elif getattr(exc, 'result', op['v']) != op['v'] or str(op['v'] if op['v'] != '' else "''") not in str(exc):
                    out.fail('leak', 'wrong_value', 'run #%d: leak report %r does not name %r' % (n, exc, op['v']))
            elif k == 'nested':
                special += 1
                if oc != 'ok':
                    out.fail('outcome', 'nested_run_%s:%s' % (oc, type(exc).__name__), 'run #%d: %r' % (n, exc))
            elif k == 'dirty':
                special += 1
                if oc not in ('ok', 'exc') or (oc == 'exc' and it.describe(exc)[0] != 'prog'):
                    out.fail('outcome', 'dirty_run_%s:%s' % (oc, type(exc).__name__), 'run #%d: %r' % (n, exc))
            del it
        out.nontrivial = len(case['ops']) >= 2 and special >= 1

    def nesting(self, out, case):
        outer, inner = copy.deepcopy(case['outer']), case['inner']
        ri, pos = case['root'], case['pos']
        if ri >= len(outer['roots']):
            raise InvalidCase('root index')
        base = copy.deepcopy(outer)
        outer['roots'][ri]['steps'].insert(pos, {'op': 'nested_run', 'prog': inner, 'id': 0})
        base['roots'][ri]['steps'].insert(pos, {'op': 'mark', 'v': 'here'})
        mk = lambda: Probe(b_step=5000, b_total=80000)  # noqa
        it_o, oc_o, exc_o, _ = execute(outer, mk())
        self.after_run(out, 'outer')
        it_b, oc_b, exc_b, _ = execute(base, mk())
        it_i, oc_i, exc_i, _ = execute(inner, mk())
        out.evals += 3
        strip = lambda tr: [x for x in tr if x[2] not in ('nested_begin', 'nested_end', 'mark')]  # noqa
        if oc_o != oc_b or strip(trace(it_o)) != strip(trace(it_b)):
            a, b = strip(trace(it_o)), strip(trace(it_b))
            d = next((i for i, (x, y) in enumerate(zip(a, b)) if x != y), min(len(a), len(b)))
            out.fail('nesting', 'outer_disturbed', 'outer trace with nested run differs at row %d: %r vs %r (outcomes %s/%s)' % (
                d, a[d:d + 1], b[d:d + 1], oc_o, oc_b))
        if it_o.nested:
            nid, nlog, nerr = it_o.nested[0]
            want_err = None if oc_i == 'ok' else it_i.describe(exc_i)
            if want_err is not None and want_err[0] == 'other' and hasattr(exc_i, 'result'):
                want_err = ('leak', exc_i.result)
            alone = [tuple(e[1:6]) for e in it_i.log if e[0] <= it_i.end_seq]
            nlog = nlog[:len(alone)] if oc_i != 'ok' else nlog
            if nlog != alone or (nerr is None) != (want_err is None):
                d = next((i for i, (x, y) in enumerate(zip(nlog, alone)) if x != y), min(len(nlog), len(alone)))
                out.fail('nesting', 'inner_differs', 'nested trace differs from standalone at row %d: %r vs %r; errors %r / %r' % (
                    d, nlog[d:d + 1], alone[d:d + 1], nerr, want_err))
            out.nontrivial = pos > 0 or ri > 0
            out.features.add('inner_failed' if want_err else 'inner_ok')
            # nothing of the nested simulation runs once its run() has returned
            for inner_log, seen in getattr(it_o, 'nested_objs', ()):
                late = [e for e in inner_log[seen:] if e[3] in ('ok', 'got', 'enter', 'mark', 'end', 'start', 'request', 'get_begin')]
                if late:
                    out.fail('nesting', 'inner_activity_ran_after_its_simulation', 'after the nested run() had returned, %s of the nested '
                             'simulation logged %r at outer time %r' % (late[0][1], late[0][3], late[0][4]))
                if any(r['name'] == 'ih' for r in inner['roots']):
                    out.features.add('inner_ends_with_blocked_activities')

    def threads(self, out, case):
        threads = case['threads']
        nsync = case['nsync']
        # sequential reference (sync = no-op)
        ref = []
        for progs in threads:
            tr = []
            for pr in progs:
                it, oc, exc, _ = execute(pr, Probe(b_step=5000, b_total=80000))
                tr.append((oc, trace(it), [(i, l, e) for i, l, e in it.nested]))
                out.evals += 1
            ref.append(tr)
        barriers = {i: threading.Barrier(2) for i in range(nsync)}
        broken = []

        def sync(sid):
            try:
                barriers[sid].wait(timeout=3)
            except threading.BrokenBarrierError:
                broken.append(sid)
        results = [None] * len(threads)
        seen_by_bystander = []
        stop = threading.Event()
        go = threading.Barrier(len(threads) + 1)

        def worker(ti):
            go.wait()
            res = []
            try:
                for pr in threads[ti]:
                    it, oc, exc, _ = execute(pr, Probe(b_step=5000, b_total=80000), wall=0, hooks={'sync': sync})
                    res.append((oc, trace(it), [(i, l, e) for i, l, e in it.nested], repr(exc) if exc else None))
                    if outside() is not None:
                        res.append(('visible_after_run', None, None, None))
            except BaseException as e:     # noqa
                res.append(('thread_crashed', None, None, repr(e)))
            results[ti] = res

        def bystander():
            go.wait()
            while not stop.is_set():
                v = outside()
                if v is not None:
                    seen_by_bystander.append(v)
                    return
        old = sys.getswitchinterval()
        sys.setswitchinterval(1e-6)
        try:
            ts = [threading.Thread(target=worker, args=(i,)) for i in range(len(threads))]
            by = threading.Thread(target=bystander)
            for t in ts + [by]:
                t.start()
            for t in ts:
                t.join(30)
            stop.set()
            by.join(5)
        finally:
            sys.setswitchinterval(old)
        out.evals += sum(len(p) for p in threads)
        if any(t.is_alive() for t in ts):
            out.features.add('inconclusive_thread_stuck')
            return
        if seen_by_bystander:
            out.fail('threads', 'bystander_sees_simulation', 'a thread that runs no simulation read time.now == %r' % seen_by_bystander[0])
        if broken:
            out.features.add('inconclusive_rendezvous_timeout')
            return
        for ti, (want, got) in enumerate(zip(ref, results)):
            if got is None:
                continue
            for j, w in enumerate(want):
                g = got[j] if j < len(got) else None
                if g is None or g[0] in ('thread_crashed', 'visible_after_run'):
                    out.fail('threads', 'thread_%s' % (g[0] if g else 'missing'), 'thread %d run %d: %r' % (ti, j, g))
                    break
                if g[0] != w[0] or g[1] != w[1] or g[2] != w[2]:
                    d = next((i for i, (x, y) in enumerate(zip(g[1], w[1])) if x != y), -1)
                    sig = 'trace_differs' if g[0] == w[0] else 'outcome_%s' % g[0]
                    out.fail('threads', sig, 'thread %d run %d: concurrent %s %r differs from sequential at row %d: %r vs %r' % (
                        ti, j, g[0], g[3], d, g[1][d:d + 1] if d >= 0 else g[2], w[1][d:d + 1] if d >= 0 else w[2]))
                    break
            if any(g and g[0] == 'visible_after_run' for g in got):
                out.fail('threads', 'visible_after_run', 'thread %d sees a simulation after its run ended' % ti)
        out.nontrivial = nsync >= 1
        if any(any('nested_run' in str(p) for p in progs) for progs in threads):
            out.features.add('threads_nested')
        if sum(1 for progs in threads if any(len(p['roots']) > 1 for p in progs)) >= 2:
            out.features.add('threads_with_transfers_in_flight')


CHECK = C15()
