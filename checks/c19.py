"""C19 - SimPy resources keep capacity, conserve content, serve requests in policy order."""
import gc
import sys
import warnings
from hypothesis import strategies as st

from usim.py import Environment, Interrupt
from usim.py.resources.container import Container
from usim.py.resources.store import Store, PriorityStore, FilterStore, PriorityItem
from usim.py.resources.resource import Resource, PriorityResource, PreemptiveResource, Preempted

from vlib.runner import Check, Outcome, InvalidCase
from vlib.probe import Probe, _TLS
import vlib.interp  # noqa: F401  (harness process set-up)

INF = float('inf')
_N = [0]


def tv(v):
    """1, 1.0 and True are equal but different items: compare values together with their type"""
    if isinstance(v, (bool, int, float)):
        return '%s:%r' % (type(v).__name__, v)
    return v


def mk_filter(spec):
    k = spec[0]
    if k == 'type':
        return lambda item, v=spec[1]: type(item).__name__ == v
    if k == 'any':
        return lambda item: True
    if k == 'none':
        return lambda item: False
    if k == 'eq':
        return lambda item, v=spec[1]: item == v
    if k == 'ge':
        return lambda item, v=spec[1]: item >= v
    raise InvalidCase(k)


# =============================================================================================
# family A: Container / Store / PriorityStore / FilterStore driven by one process
def run_a(case):
    env = Environment()
    kind = case['kind']
    cap = INF if case['capacity'] is None else case['capacity']
    if kind == 'container':
        res = Container(env, capacity=cap, init=case.get('init', 0))
    else:
        res = {'store': Store, 'pstore': PriorityStore, 'fstore': FilterStore}[kind](env, capacity=cap)
    reqs = []          # request objects in creation order
    grants = []        # (req index, time, value) in callback order
    insp = []

    def on_grant(i):
        def cb(ev):
            v = ev.value
            if isinstance(v, PriorityItem):
                v = [v.priority, v.item]
            grants.append((i, env.now, tv(v) if kind in ('store', 'fstore') else v))
        return cb

    def driver():
        for batch in case['batches']:
            for op in batch:
                try:
                    if op[0] == 'put':
                        if kind == 'container':
                            r = res.put(op[1])
                        elif kind == 'pstore':
                            r = res.put(PriorityItem(op[1][0], op[1][1]))
                        else:
                            r = res.put(op[1])
                    elif op[0] == 'get':
                        if kind == 'container':
                            r = res.get(op[1])
                        elif kind == 'fstore':
                            r = res.get(mk_filter(op[1]))
                        else:
                            r = res.get()
                    elif op[0] == 'cancel':
                        if op[1] < len(reqs):
                            reqs[op[1]].cancel()
                        continue
                    else:
                        raise InvalidCase(op[0])
                except ValueError as e:
                    if 'list.remove' in str(e) or 'not in list' in str(e):
                        raise
                    raise InvalidCase(str(e))
                i = len(reqs)
                reqs.append(r)
                r.callbacks.append(on_grant(i))
            yield env.timeout(1)

    def inspector():
        yield env.timeout(0.5)
        for _ in case['batches']:
            if kind == 'container':
                insp.append((env.now, res.level, len(res.put_queue), len(res.get_queue)))
            else:
                items = [[x.priority, x.item] if isinstance(x, PriorityItem) else tv(x) for x in res.items]
                insp.append((env.now, items, len(res.put_queue), len(res.get_queue)))
            yield env.timeout(1)

    env.process(driver())
    env.process(inspector())
    env.run()
    return grants, insp, [bool(r.triggered) for r in reqs]


def model_a(case):
    """Documented SimPy semantics: creating a request serves its own queue at once (strictly FIFO, the head
    blocks; FilterStore examines every pending get); a *granted* request is processed after the issuing
    process yields, in grant order, and only then the opposite queue is served."""
    kind = case['kind']
    cap = INF if case['capacity'] is None else case['capacity']
    if cap <= 0:
        raise InvalidCase('capacity')
    level = case.get('init', 0)
    items = []
    putq, getq = [], []        # (index, payload)
    reqs = []                  # dict(kind, payload, state)
    grants = []
    insp = []
    sched = []                 # granted, not yet processed: (index, value)
    cancelled = set()

    def trigger_put():
        nonlocal level
        while putq:
            i, pay = putq[0]
            if kind == 'container':
                if cap - level >= pay:
                    level += pay
                else:
                    break
            else:
                if len(items) < cap:
                    items.append(pay)
                    if kind == 'pstore':
                        items.sort(key=lambda x: x[0])         # stable: equal priorities keep insertion order
                else:
                    break
            putq.pop(0)
            reqs[i]['state'] = 'granted'
            sched.append((i, None))

    def trigger_get():
        nonlocal level
        if kind == 'fstore':
            # every pending request is examined: one whose filter matches nothing does not block the others
            for (i, flt) in list(getq):
                f = mk_filter(flt)
                idx = next((j for j, it in enumerate(items) if f(it)), None)
                if idx is not None:
                    v = items.pop(idx)
                    getq.remove((i, flt))
                    reqs[i]['state'] = 'granted'
                    sched.append((i, tv(v)))
            return
        while getq:
            i, pay = getq[0]
            if kind == 'container':
                if level >= pay:
                    level -= pay
                    v = None
                else:
                    break
            else:
                if items:
                    v = items.pop(0)
                    if kind == 'store':
                        v = tv(v)
                else:
                    break
            getq.pop(0)
            reqs[i]['state'] = 'granted'
            sched.append((i, v))

    for t, batch in enumerate(case['batches']):
        for op in batch:
            if op[0] == 'put':
                if kind == 'container' and op[1] <= 0:
                    raise InvalidCase('amount')
                reqs.append({'kind': 'put', 'state': 'pending'})
                putq.append((len(reqs) - 1, op[1]))
                trigger_put()
            elif op[0] == 'get':
                if kind == 'container' and op[1] <= 0:
                    raise InvalidCase('amount')
                reqs.append({'kind': 'get', 'state': 'pending'})
                getq.append((len(reqs) - 1, op[1]))
                trigger_get()
            elif op[0] == 'cancel':
                i = op[1]
                if i >= len(reqs):
                    raise InvalidCase('cancel of an unknown request')
                if i in cancelled:
                    continue            # "Cancelling is idempotent": a second cancel changes nothing
                cancelled.add(i)
                if reqs[i]['state'] == 'pending':
                    reqs[i]['state'] = 'cancelled'
                    putq[:] = [x for x in putq if x[0] != i]
                    getq[:] = [x for x in getq if x[0] != i]
        # the issuing process yields: granted requests are processed in grant order
        while sched:
            i, v = sched.pop(0)
            grants.append((i, t, v))
            if reqs[i]['kind'] == 'put':
                trigger_get()
            else:
                trigger_put()
        if kind == 'container':
            insp.append((t + 0.5, level, len(putq), len(getq)))
        else:
            insp.append((t + 0.5, [x if kind == 'pstore' else tv(x) for x in items], len(putq), len(getq)))
    return grants, insp, [r['state'] == 'granted' for r in reqs]


# =============================================================================================
# family A': Container with decimal (not exactly representable) amounts - invariants only, no grant model
def run_dec(case):
    """returns a list of (signature, message) of violated invariants: the level stays in [0, capacity] *literally*,
    equals init + granted puts - granted gets up to rounding, and no head request that fits with a clear margin
    is left pending between batches"""
    env = Environment()
    cap = INF if case['capacity'] is None else case['capacity']
    if cap <= 0 or not (0 <= case['init'] <= cap):
        raise InvalidCase('capacity / init')
    res = Container(env, capacity=cap, init=case['init'])
    reqs, bad = [], []
    flow = [case['init']]
    stale = [False]

    def on_grant(sign, amount):
        def cb(ev):
            flow[0] += sign * amount
        return cb

    def driver():
        for batch in case['batches']:
            for op in batch:
                if op[0] == 'fill':            # put exactly what is missing, as a user reading `level` would
                    amount = round(cap - res.level, 2) if cap != INF else 0
                    op = ['put', amount]
                elif op[0] == 'drain':
                    op = ['get', round(res.level, 2)]
                if op[0] in ('put', 'get'):
                    if op[1] <= 0:
                        continue
                    r = res.put(op[1]) if op[0] == 'put' else res.get(op[1])
                    r.callbacks.append(on_grant(1 if op[0] == 'put' else -1, op[1]))
                    reqs.append(r)
                elif op[0] == 'cancel' and op[1] < len(reqs):
                    if not reqs[op[1]].triggered:
                        # cancel() only removes the request, the queue behind it is served by the next request or
                        # completed put/get: 'nothing grantable is pending' is no longer implied
                        stale[0] = True
                    reqs[op[1]].cancel()
                    reqs[op[1]].cancel()
            yield env.timeout(1)

    def inspector():
        yield env.timeout(0.5)
        for _ in case['batches']:
            level = res.level
            if not (0 <= level <= cap):
                bad.append(('level_out_of_range', 'level %r at t=%r, capacity %r' % (level, env.now, cap)))
            if abs(level - flow[0]) > 1e-9 * (1 + abs(flow[0])):
                bad.append(('not_conserved', 'level %r at t=%r, init + granted puts - granted gets = %r' % (level, env.now, flow[0])))
            if stale[0]:
                pass
            elif res.put_queue and cap - level - res.put_queue[0].amount > 1e-9:
                bad.append(('grantable_put_pending', 'put(%r) pending at t=%r with level %r of %r' % (
                    res.put_queue[0].amount, env.now, level, cap)))
            if not stale[0] and res.get_queue and level - res.get_queue[0].amount > 1e-9:
                bad.append(('grantable_get_pending', 'get(%r) pending at t=%r with level %r' % (
                    res.get_queue[0].amount, env.now, level)))
            yield env.timeout(1)

    env.process(driver())
    env.process(inspector())
    env.run()
    return bad


# =============================================================================================
# family B: Resource / PriorityResource / PreemptiveResource, one process per user
def run_b(case):
    import contextlib
    from usim.py.resources.resource import PriorityRequest
    env = Environment()
    kind = case['kind']
    cls = {'resource': Resource, 'presource': PriorityResource, 'preemptive': PreemptiveResource}[kind]
    res = cls(env, capacity=case['capacity'])
    logs = {}
    procs = {}
    insp = []

    def make(u):
        if kind == 'resource':
            return res.request()
        if kind == 'presource' or u['preempt']:
            return res.request(priority=u['priority'])
        # (PreemptiveResource.request() of usim.py has no `preempt` parameter; the request class has)
        return PriorityRequest(res, priority=u['priority'], preempt=False)

    def user(i, u):
        log = logs.setdefault(i, [])
        yield env.timeout(u['arrive'] + u['phase'] / 16)
        tries = u.get('retry', 0)
        more = u.get('again', 0)
        first = True
        outside = case.get('catch') == 'outside'

        def handle(it):
            nonlocal tries
            c = it.cause
            if isinstance(c, Preempted):
                by = next((k for k, p in procs.items() if p is c.by), None)
                log.append(('preempted', env.now, by, c.usage_since, c.resource is res))
                if tries > 0:
                    tries -= 1
                    return True
            else:
                log.append(('interrupt', env.now))
            return False

        if u.get('style') == 'explicit':
            # request / release without a with-block; the release is repeated (documented as idempotent)
            req = make(u)
            log.append(('request', env.now))
            try:
                yield req
                log.append(('granted', env.now))
                if u['hold']:
                    yield env.timeout(u['hold'])
                log.append(('release', env.now))
                yield res.release(req)
                if u.get('twice'):
                    yield res.release(req)
            except Interrupt as it:
                handle(it)
                if req.triggered:
                    res.release(req)
                else:
                    req.cancel()
                req.cancel()
            return
        while True:
            # (a retry issues its new requests from the segment that handled the Interrupt)
            again = False
            try:
                with contextlib.ExitStack() as stack:
                    reqs = [stack.enter_context(make(u)) for _ in range(u.get('burst', 1))]
                    log.append(('request', env.now))
                    try:
                        if u.get('patience') is None or not first or len(reqs) > 1:
                            for req in reqs:
                                yield req
                        else:
                            yield reqs[0] | env.timeout(u['patience'])
                        if not reqs[0].triggered:
                            log.append(('gave_up', env.now))
                        else:
                            log.append(('granted', env.now))
                            if u['hold']:
                                yield env.timeout(u['hold'])
                            log.append(('release', env.now))
                    except Interrupt as it:
                        if outside:
                            raise           # the with-blocks are left by the Interrupt itself
                        again = handle(it)
            except Interrupt as it:
                again = handle(it)
            else:
                if more > 0 and log[-1][0] == 'release':
                    # the user comes back for another turn at once: its new request is issued in the activation that
                    # released the slot, and queues behind (or, by priority, among) those who are waiting already
                    more -= 1
                    again = True
            first = False
            if not again:
                break

    def inspector():
        yield env.timeout(0.97)
        for _ in range(case['horizon']):
            insp.append((env.now, res.count, len(res.queue)))
            yield env.timeout(1)

    for i, u in enumerate(case['users']):
        procs[i] = env.process(user(i, u))
    env.process(inspector())
    env.run()
    return logs, insp


extra_evictions = [0]


def model_b(case):
    extra_evictions[0] = 0
    kind = case['kind']
    cap = case['capacity']
    us = case['users']
    if cap < 1 or len({u['phase'] for u in us}) != len(us) or any(
            not (1 <= u['phase'] <= 15) or u['hold'] < 0 or u['arrive'] < 0 or u.get('burst', 1) < 1 or
            (u.get('patience') is not None and u['patience'] < 1) for u in us):
        raise InvalidCase('users must act on distinct phases; holds and patience >= 1')
    if any(u.get('retry', 0) for u in us) and (kind != 'preemptive' or any(u['hold'] < 1 for u in us)):
        raise InvalidCase('retrying users race with a preemptor that releases in the step of the eviction')
    users = []       # dict(i, key, since)    one entry per held slot
    queue = []       # dict(i, key, preempt)  one entry per pending request
    logs = {i: [] for i in range(len(us))}
    events = []      # (time, order, kind, i, generation)
    order = [0]
    gen = {i: 0 for i in range(len(us))}          # bumped when the user's current attempt ends by eviction
    retries = {i: u.get('retry', 0) for i, u in enumerate(us)}
    again_left = {i: u.get('again', 0) for i, u in enumerate(us)}
    if any(u.get('again') for u in us) and (kind == 'preemptive' or any(
            u.get('again') and (u.get('burst', 1) != 1 or u.get('patience') is not None or u.get('style') or u['hold'] < 1) for u in us)):
        raise InvalidCase('users that come back at once are plain users of a non-preemptive resource')
    want = {}        # i -> number of requests of the current attempt not yet granted
    evicted_now = {}  # time -> users evicted in that time step

    def push(t, k, i):
        order[0] += 1
        events.append((t, order[0], k, i, gen[i]))
        events.sort()
    for i, u in enumerate(us):
        push(u['arrive'] + u['phase'] / 16, 'arrive', i)

    def trigger_put(now):
        while queue:
            head = queue[0]
            if kind == 'preemptive' and len(users) >= cap and head['preempt']:
                cand = sorted(users, key=lambda x: x['key'])[-1]     # equal keys (one user's burst): the latest grant
                if head['key'] < cand['key']:
                    others = {e[3] for e in events if e[0] == now and e[2] != 'evicted' and e[4] == gen[e[3]]}
                    others |= acted.get(now, set())
                    if others - {cur_user[0]}:
                        # (several users released 2-3 slots of one earlier user and now act in one time step)
                        raise InvalidCase('an eviction in a time step in which another user acts as well: order matters')
                    users.remove(cand)
                    v = cand['i']
                    if ('ev', v, gen[v]) in seen:
                        extra.add((v, gen[v]))
                        extra_evictions[0] += 1
                    else:
                        # the first eviction of this attempt interrupts the process: it leaves its with-block (giving
                        # back every other slot and pending request) later in this time step; further evictions before
                        # that only queue interrupts which the finished attempt never looks at
                        seen.add(('ev', v, gen[v]))
                        if logs[v][-1] == ('granted', now):
                            # granted and evicted within one time step: the process sees the grant only if it ran between
                            if granted_in.get(v) != cur[0]:
                                raise InvalidCase('grant and eviction of one user in different activations of one step')
                            logs[v].pop()
                        logs[v].append(('preempted', now, head['i'], cand['since'], True))
                        evicted_now.setdefault(now, []).append(v)
                        push(now, 'evicted', v)
            if len(users) < cap:
                queue.pop(0)
                i = head['i']
                users.append({'i': i, 'key': head['key'], 'since': now})
                want[i] -= 1
                if want[i] == 0 and ('ev', i, gen[i]) not in seen:
                    logs[i].append(('granted', now))
                    granted_in[i] = cur[0]
                    push(now + us[i]['hold'], 'release', i)
            else:
                break
    seen = set()
    granted_in = {}
    cur = [0]        # the model event (= one activation of one process) being handled
    cur_user = [None]
    acted = {}       # time -> users that acted on their own (not as victims) in that time step
    extra = set()
    insp = []
    tick = 0.97
    horizon = case['horizon']

    def request(i, t, patience):
        u = us[i]
        key = (u['priority'], t, not u['preempt']) if kind != 'resource' else (0, t, False)
        logs[i].append(('request', t))
        n = u.get('burst', 1)
        want[i] = n
        if patience is not None and n == 1:
            push(t + patience, 'patience', i)
        for _ in range(n):
            queue.append({'i': i, 'key': key, 'preempt': u['preempt']})
            if kind != 'resource':
                queue.sort(key=lambda x: x['key'])      # stable: equal keys stay in request order
            trigger_put(t)

    def leave(i, t):
        users[:] = [x for x in users if x['i'] != i]
        queue[:] = [q for q in queue if q['i'] != i]
        trigger_put(t)

    while events or tick < horizon:
        if events and (tick >= horizon or events[0][0] < tick):
            t, cur[0], k, i, g = events.pop(0)
            u = us[i]
            if g != gen[i]:
                continue            # belongs to an attempt that was ended by an eviction
            cur_user[0] = i
            if k != 'evicted':
                acted.setdefault(t, set()).add(i)
            if k == 'arrive':
                request(i, t, u.get('patience'))
            elif k == 'patience':
                if want.get(i) and any(q['i'] == i for q in queue):
                    # cancelling only removes the request: queues are served on new requests and releases
                    queue[:] = [q for q in queue if q['i'] != i]
                    logs[i].append(('gave_up', t))
            elif k == 'release':
                logs[i].append(('release', t))
                if again_left[i] > 0:
                    # (as for a retry: the slot is free at once, the queue is served once the Release event is processed -
                    #  after this activation, which first issues the user's next request)
                    again_left[i] -= 1
                    users[:] = [x for x in users if x['i'] != i]
                    queue[:] = [q for q in queue if q['i'] != i]
                    request(i, t, None)
                else:
                    leave(i, t)
            elif k == 'evicted':
                gen[i] += 1
                if retries[i] > 0 and (i, g) in extra:
                    # the second interrupt is still pending when the handler re-requests: it hits the new attempt
                    raise InvalidCase('retrying user with two evictions pending in one time step')
                if retries[i] > 0:
                    if len(evicted_now.get(t, ())) > 1:
                        raise InvalidCase('a retry in a time step with several evictions: handler order matters')
                    retries[i] -= 1
                    # leaving the with-block frees the other slots, but waiting requests are only served once the
                    # Release events are processed - after this activation, which first issues the new requests
                    users[:] = [x for x in users if x['i'] != i]
                    queue[:] = [q for q in queue if q['i'] != i]
                    request(i, t, None)
                else:
                    leave(i, t)
        else:
            insp.append((tick, len(users), len(queue)))
            tick += 1
    return logs, insp


# =============================================================================================
@st.composite
def cases(draw, tier):
    big = tier == 'thorough'
    fam = draw(st.sampled_from(['container', 'store', 'pstore', 'fstore', 'resource', 'presource', 'preemptive',
                                'presource', 'preemptive', 'fstore']))
    if fam == 'container' and draw(st.integers(0, 1)):
        # decimal amounts: sums are rounded, 'fill' / 'drain' aim exactly at the bounds
        dec = st.integers(1, 120).map(lambda k: k / 100)
        cap = draw(st.integers(1, 40).map(lambda k: k / 10))
        case = {'kind': 'container', 'dec': True, 'capacity': cap, 'init': draw(st.integers(0, 30).map(lambda k: min(k / 100, cap))),
                'batches': []}
        n = 0
        for _ in range(draw(st.integers(2, 8))):
            batch = []
            for _ in range(draw(st.integers(0, 3))):
                r = draw(st.integers(0, 11))
                if r < 3:
                    batch.append(['put', draw(dec)])
                elif r < 6:
                    batch.append(['get', draw(dec)])
                elif r < 9:
                    batch.append(['fill'])
                elif r < 10:
                    batch.append(['drain'])
                elif n:
                    batch.append(['cancel', draw(st.integers(0, n - 1))])
                    n -= 1
                n += 1
            case['batches'].append(batch)
        return case
    if fam in ('container', 'store', 'pstore', 'fstore'):
        cap = draw(st.sampled_from([None, 1, 2, 3, 5]))
        case = {'kind': fam, 'capacity': cap, 'batches': []}
        if fam == 'container':
            case['init'] = draw(st.integers(0, cap if cap is not None else 4))
        n = 0
        for _ in range(draw(st.integers(1, 7 if big else 6))):
            batch = []
            for _ in range(draw(st.integers(0, 4))):
                r = draw(st.integers(0, 9))
                if r < 4:
                    if fam == 'container':
                        batch.append(['put', draw(st.integers(1, 4))])
                    elif fam == 'pstore':
                        batch.append(['put', [draw(st.integers(0, 3)), n]])
                    else:
                        # (equal items of different types are different items)
                        batch.append(['put', draw(st.sampled_from([0, 1, 2, 3, 4, 1, 1.0, True, 2.0, 0.0, False]))])
                    n += 1
                elif r < 8:
                    if fam == 'container':
                        batch.append(['get', draw(st.integers(1, 4))])
                    elif fam == 'fstore':
                        f = draw(st.sampled_from(['any', 'none', 'eq', 'eq', 'ge', 'type', 'type']))
                        batch.append(['get', [f] + ([draw(st.integers(0, 4))] if f in ('eq', 'ge') else
                                                    [draw(st.sampled_from(['int', 'float', 'bool']))] if f == 'type' else [])])
                    else:
                        batch.append(['get', None])
                    n += 1
                elif n:
                    batch.append(['cancel', draw(st.integers(0, n - 1))])
            case['batches'].append(batch)
        return case
    nusers = draw(st.integers(1, 7 if big else 6))
    phases = draw(st.permutations(list(range(1, 15))))[:nusers]
    users = []
    mode = draw(st.sampled_from(['plain', 'plain', 'retry', 'burst', 'both', 'duel'])) if fam == 'preemptive' else \
        draw(st.sampled_from(['plain', 'plain', 'burst']))
    if mode == 'duel':
        # a user collects its slots one after the other (different usage_since) and loses several of them to the
        # burst of one better rival: the evictions are reported in eviction order
        cap = draw(st.integers(2, 3))
        ph = draw(st.permutations(list(range(1, 15))))
        hw = draw(st.integers(1, 3))
        users = [{'phase': min(ph[0], ph[1]), 'arrive': 0, 'priority': draw(st.integers(0, 3)), 'preempt': True,
                  'patience': None, 'hold': hw},
                 {'phase': max(ph[0], ph[1]), 'arrive': 0, 'priority': draw(st.integers(2, 3)), 'preempt': draw(st.booleans()),
                  'patience': None, 'hold': draw(st.integers(6, 9)), 'burst': cap},
                 {'phase': ph[2], 'arrive': hw + draw(st.integers(1, 3)), 'priority': draw(st.integers(0, 1)), 'preempt': True,
                  'patience': None, 'hold': draw(st.integers(1, 3)), 'burst': draw(st.integers(2, cap))}]
        for j in range(draw(st.integers(0, 2))):
            users.append({'phase': ph[3 + j], 'arrive': draw(st.integers(0, 9)), 'priority': draw(st.integers(0, 3)),
                          'preempt': draw(st.booleans()), 'patience': draw(st.sampled_from([None, 2])),
                          'hold': draw(st.integers(0, 3))})
        return {'kind': fam, 'capacity': cap, 'users': users, 'horizon': 40,
                'catch': draw(st.sampled_from(['inside', 'outside']))}
    for i in range(nusers):
        u = {'phase': phases[i], 'arrive': draw(st.integers(0, 4)), 'priority': draw(st.integers(0, 3)),
             'preempt': draw(st.booleans()) if fam == 'preemptive' else True,
             'patience': draw(st.sampled_from([None, None, 1, 2, 4])),
             'hold': draw(st.integers(1 if mode in ('retry', 'both') else 0, 4))}
        if mode in ('retry', 'both') and (i == 0 or draw(st.integers(0, 3)) == 0):
            # (to be evicted again after its retry was granted the user needs several better rivals arriving later)
            u['retry'] = draw(st.integers(1, 2))
            u['priority'] = draw(st.sampled_from([2, 3, 3]))
            u['hold'] = draw(st.integers(2, 6))
            u['preempt'] = True
        elif mode in ('retry', 'both'):
            u['arrive'] = draw(st.integers(0, 9))
            u['hold'] = draw(st.integers(1, 2))
            u['priority'] = draw(st.sampled_from([0, 1, 1, 2, 3]))
            u['preempt'] = draw(st.integers(0, 4)) > 0
        if mode in ('burst', 'both') and draw(st.integers(0, 2)) == 0:
            u['burst'] = draw(st.integers(2, 3))
        elif mode == 'plain' and u['patience'] is None and draw(st.integers(0, 3)) == 0:
            u['style'] = 'explicit'
            u['twice'] = draw(st.booleans())
        elif mode == 'plain' and fam != 'preemptive' and u['patience'] is None and u['hold'] >= 1 and draw(st.integers(0, 2)) == 0:
            u['again'] = draw(st.integers(1, 2))       # comes back for another turn in the activation that released the slot
        users.append(u)
    cap = draw(st.integers(1, 3))
    if mode in ('retry', 'both'):
        cap = draw(st.integers(1, 2))
    if mode in ('burst', 'both'):
        cap = max(cap, max(u.get('burst', 1) for u in users))       # (a larger burst than capacity never completes)
    return {'kind': fam, 'capacity': cap, 'users': users, 'horizon': 40,
            'catch': draw(st.sampled_from(['inside', 'outside']))}


@st.composite
def crowd_cases(draw):
    return {'crowd': {'n': draw(st.integers(1100, 1600)), 'kind': draw(st.sampled_from(['container', 'store', 'resource']))}}


class C19(Check):
    pid = 'C19'
    level = 'exploration'
    rule = ('Generated operation histories: (A) one process issuing batches of put/get/cancel against Container, Store, '
            'PriorityStore, FilterStore (capacities 1..5 or unbounded; amounts, items, priorities, filters incl. one that '
            'matches nothing) with grant callbacks and an inspector between batches; (B) 1-7 user processes (request with '
            'priority/preempt, optional patience, hold, release through the with-pattern) against Resource, PriorityResource, '
            'PreemptiveResource (capacity 1-3), users acting on distinct time phases; users may take 2-3 slots in one '
            'activation and re-request from their Interrupt handler after an eviction. Oracle: sequential reference model of '
            'the documented policies. non-trivial = a request had to wait, or was cancelled/preempted, or a filter matched '
            'nothing; distinct by sha1. Also: repeated cancels, explicit request()/release() users, and Containers with decimal '
            'amounts (fill/drain aimed at the bounds) judged by invariants only; users that come back for another turn in the activation '
            'that released their slot; crowds of 1100-1600 requests made grantable by one operation.')
    budgets = {'quick': dict(examples=2400, procs=4), 'thorough': dict(examples=300000, procs=16)}
    level_text = ('Model-based history check: per request grant time and value, per-queue grant order, inspector observations '
                  '(level/items/users/queue lengths) between operations, Preempted details (by, usage_since, resource), '
                  'capacity bounds and conservation must equal the sequential reference of the documented policies.')
    level_note = 'No SimPy in the sandbox; the reference is written from the documented queueing policies. Actors never act in the same time step.'
    technique = 'model-based property testing over generated operation histories against a sequential reference of the documented policies'
    design_ref = 'DESIGN.md section 5, C19'

    def strategy(self, tier):
        return st.sampled_from(range(150)).flatmap(lambda k, tier=tier: crowd_cases() if k == 0 else cases(tier))

    def crowd_case(self, case):
        """more than a thousand requests become grantable by one operation: all of them are granted in that time step, in
        the order in which they were issued, and the level / slots add up"""
        from usim.py import Environment
        from usim.py.resources.container import Container
        from usim.py.resources.resource import Resource
        from usim.py.resources.store import Store
        out = Outcome()
        out.evals = 1
        n, kind = case['crowd']['n'], case['crowd']['kind']
        granted = []
        p = Probe(b_step=100 * n, b_total=400 * n)
        _TLS.stack.append(p)
        # (Hypothesis raises the interpreter's recursion limit while it runs a test; a user's program has the default one)
        limit = sys.getrecursionlimit()
        sys.setrecursionlimit(1000)
        try:
            env = Environment()
            if kind == 'container':
                res = Container(env, init=0)
            elif kind == 'store':
                res = Store(env)
            else:
                res = Resource(env, capacity=n)

            def waiter(i):
                if kind == 'resource':
                    yield env.timeout(1)
                    req = res.request()
                else:
                    req = res.get(1) if kind == 'container' else res.get()
                yield req
                granted.append((i, env.now))

            def opener():
                if kind == 'resource':
                    reqs = [res.request() for _ in range(n)]      # takes every slot at time 0
                    yield env.timeout(5)
                    for r in reqs:
                        res.release(r)
                else:
                    yield env.timeout(5)
                    if kind == 'container':
                        yield res.put(n)
                    else:
                        for j in range(n):
                            res.put(j)
                yield env.timeout(1)
            if kind == 'resource':
                env.process(opener())
            for i in range(n):
                env.process(waiter(i))
            if kind != 'resource':
                env.process(opener())
            env.run(until=50)
            level = res.level if kind == 'container' else (len(res.items) if kind == 'store' else res.count)
        except BaseException as e:      # noqa
            out.fail('crowd', 'crowd_%s:%s' % (kind, type(e).__name__), 'a crowd of %d requests: %r' % (n, e))
            return out
        finally:
            sys.setrecursionlimit(limit)
            _TLS.stack.pop()
        if [g[0] for g in granted] != list(range(n)) or any(t != 5 for _, t in granted):
            out.fail('crowd', 'crowd_%s:grants' % kind, '%d of %d requests granted, first at %r, last at %r, in order: %s' % (
                len(granted), n, granted[0][1] if granted else None, granted[-1][1] if granted else None,
                [g[0] for g in granted] == sorted(g[0] for g in granted)))
        elif level != (n if kind == 'resource' else 0):
            out.fail('crowd', 'crowd_%s:level' % kind, 'after %d grants the level / item count / user count is %r' % (n, level))
        out.nontrivial = True
        out.features.add('crowd_' + kind)
        return out

    def run_case(self, case, tier='quick'):
        if 'crowd' in case:
            return self.crowd_case(case)
        out = Outcome()
        out.evals = 1
        sys.unraisablehook = vlib.interp._unraisable
        warnings.simplefilter('ignore')
        _N[0] += 1
        if _N[0] % 300 == 0:
            gc.collect()
        p = Probe(b_step=20000, b_total=300000)
        _TLS.stack.append(p)
        try:
            if 'batches' in case:
                self.family_a(out, case)
            else:
                self.family_b(out, case)
        finally:
            _TLS.stack.pop()
        out.features.add('kind_' + case['kind'])
        return out

    def family_a(self, out, case):
        kind = case['kind']
        if case.get('dec'):
            try:
                bad = run_dec(case)
            except BaseException as e:   # noqa
                out.fail('run', 'container_dec:%s' % type(e).__name__, 'history raised %r' % (e,))
                return
            for sig, msg in bad[:1]:
                out.fail('bounds' if sig == 'level_out_of_range' else 'state', 'container_dec:' + sig, msg + '; history %r' % (case,))
            out.features.add('container_decimal_amounts')
            out.nontrivial = any(op[0] in ('fill', 'drain') for b in case['batches'] for op in b)
            return
        want_g, want_i, want_t = model_a(case)
        try:
            got_g, got_i, got_t = run_a(case)
        except InvalidCase:
            raise
        except BaseException as e:   # noqa
            out.fail('run', '%s:%s' % (kind, type(e).__name__), 'history raised %r' % (e,))
            return
        cap = INF if case['capacity'] is None else case['capacity']
        # capacity bounds / conservation at every inspection
        for (t, state, nput, nget) in got_i:
            if kind == 'container':
                if not (0 <= state <= cap):
                    out.fail('bounds', '%s:level_out_of_range' % kind, 'level %r at t=%r (capacity %r)' % (state, t, cap))
            elif len(state) > cap:
                out.fail('bounds', '%s:too_many_items' % kind, '%d items at t=%r (capacity %r)' % (len(state), t, cap))
        gg = {i: (t, v) for (i, t, v) in got_g}
        wg = {i: (t, v) for (i, t, v) in want_g}
        if len(gg) != len(got_g):
            out.fail('grants', '%s:granted_twice' % kind, 'a request was granted more than once: %r' % (got_g,))
        if gg != wg:
            only_m = sorted(set(wg) - set(gg))
            only_r = sorted(set(gg) - set(wg))
            if only_m:
                sig = 'not_granted'
            elif only_r:
                sig = 'granted_wrongly'
            elif any(gg[i][0] != wg[i][0] for i in gg):
                sig = 'grant_time'
            else:
                sig = 'grant_value'
            out.fail('grants', '%s:%s' % (kind, sig), 'grants (req: time, value) %r, model %r; history %r' % (gg, wg, case['batches']))
        elif [g[0] for g in got_g if g[2] is None or kind == 'container'] and False:
            pass
        if not out.failures:
            # per-queue grant order follows the model's (request order / policy order)
            kinds = {}
            n = 0
            for batch in case['batches']:
                for op in batch:
                    if op[0] in ('put', 'get'):
                        kinds[n] = op[0]
                        n += 1
            for q in ('put', 'get'):
                a = [i for (i, t, v) in got_g if kinds.get(i) == q]
                b = [i for (i, t, v) in want_g if kinds.get(i) == q]
                if a != b and kind != 'fstore':
                    out.fail('grants', '%s:%s_order' % (kind, q), '%s grants in order %r, model %r' % (q, a, b))
            if got_i != want_i:
                d = next((k for k, (x, y) in enumerate(zip(got_i, want_i)) if x != y), None)
                out.fail('state', '%s:inspection' % kind, 'state between batches differs at %r: %r vs model %r' % (
                    d, got_i[d] if d is not None else got_i, want_i[d] if d is not None else want_i))
        waited = any(wg[i][0] > self._req_time(case, i) for i in wg)
        out.nontrivial = waited or any(op[0] == 'cancel' for b in case['batches'] for op in b) or \
            any(op[0] == 'get' and isinstance(op[1], list) and op[1][0] == 'none' for b in case['batches'] for op in b)

    @staticmethod
    def _req_time(case, idx):
        n = 0
        for t, batch in enumerate(case['batches']):
            for op in batch:
                if op[0] in ('put', 'get'):
                    if n == idx:
                        return t
                    n += 1
        return 0

    def family_b(self, out, case):
        kind = case['kind']
        want_l, want_i = model_b(case)
        try:
            got_l, got_i = run_b(case)
        except BaseException as e:   # noqa
            out.fail('run', '%s:%s' % (kind, type(e).__name__), 'history raised %r' % (e,))
            return
        for (t, count, nq) in got_i:
            if count > case['capacity']:
                out.fail('bounds', '%s:more_users_than_capacity' % kind, '%d users at t=%r, capacity %d' % (count, t, case['capacity']))
        for i in range(len(case['users'])):
            g, w = got_l.get(i, []), want_l[i]
            if g != w:
                sig = 'log'
                for a, b in zip(g, w):
                    if a != b:
                        sig = '%s_want_%s' % (a[0], b[0]) if a[0] != b[0] else a[0] + ('_time' if a[1] != b[1] else '_details')
                        break
                else:
                    sig = 'missing_' + w[len(g)][0] if len(w) > len(g) else 'extra_' + g[len(w)][0]
                out.fail('users', '%s:%s' % (kind, sig), 'user %d %r: got %r, model %r; all users %r' % (
                    i, case['users'][i], g, w, case['users']))
                break
        if not out.failures and got_i != want_i:
            d = next((k for k, (x, y) in enumerate(zip(got_i, want_i)) if x != y), 0)
            out.fail('state', '%s:inspection' % kind, 'count/queue at %r: %r vs model %r' % (got_i[d][0], got_i[d], want_i[d]))
        if any(sum(1 for e in l if e[0] == 'preempted') >= 2 for l in want_l.values()):
            out.features.add('preempted_again_after_retry')
        if any(u.get('burst', 1) > 1 and any(e[0] == 'preempted' for e in want_l[i]) for i, u in enumerate(case['users'])):
            out.features.add('multi_slot_user_preempted')
        if extra_evictions[0]:
            out.features.add('several_evictions_of_one_user_in_one_activation')
        out.nontrivial = any(e[0] in ('preempted', 'gave_up') for l in want_l.values() for e in l) or \
            any(len(l) >= 2 and l[1][0] == 'granted' and l[1][1] > l[0][1] for l in want_l.values())


CHECK = C19()
