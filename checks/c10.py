"""C10 - Queue delivers every accepted item exactly once, in order, to waiters in order."""
from collections import Counter
from hypothesis import strategies as st

from vlib.runner import Check, Outcome, InvalidCase
from vlib.interp import execute
from vlib.probe import Probe
from vlib.scopelog import foreign_exception, Structure

GAPS = [0, 0, 0.5, 1, 2]


@st.composite
def cases(draw, tier):
    big = tier == 'thorough'
    item = [0]
    special = list(draw(st.permutations([None, 0, ''])))
    sl = lambda: {'op': 'sleep', 'd': draw(st.sampled_from(GAPS))}  # noqa

    def producer(i):
        steps = []
        for _ in range(draw(st.integers(1, 5 if big else 4))):
            r = draw(st.integers(0, 9))
            if r < 6:
                item[0] += 1
                steps.append({'op': 'qput', 's': 0, 'v': item[0]})
                if special and draw(st.integers(0, 3)) == 0:
                    # items are opaque payload: None, zero, empty and false ones travel like any other (each once per program)
                    steps[-1]['v'] = special.pop()
                if draw(st.integers(0, 5)) == 0:
                    steps[-1]['defer'] = draw(st.sampled_from([0, 0, 0.5, 1, 2]))
            elif r < 8:
                steps.append(sl())
            elif r < 9:
                steps.append({'op': 'instant'})
            else:
                steps.append({'op': 'qclose', 's': 0})
        return {'name': 'p%d' % i, 'steps': steps}

    def consumer(i):
        steps = []
        for _ in range(draw(st.integers(1, 4))):
            r = draw(st.integers(0, 9))
            if r < 4:
                steps.append({'op': 'qget', 's': 0})
            elif r < 6:
                steps.append({'op': 'qiter', 's': 0, 'n': draw(st.sampled_from([None, 1, 2, 3])),
                              'gap': draw(st.sampled_from([None, None, 0.5, 1]))})
                if draw(st.integers(0, 3)) == 0:
                    steps[-1]['explicit'] = True       # iterator object kept in a variable, anext() per step
            elif r < 8:
                steps.append(sl())
            else:
                w = draw(st.integers(0, 1))
                notif = ['delay', draw(st.sampled_from([0.5, 1, 2]))] if w else ['flag', 0]
                steps.append({'op': 'until', 'name': 'U%d_%d' % (i, len(steps)), 'notif': notif, 'children': [],
                              'body': [{'op': 'qget', 's': 0}, {'op': 'qget', 's': 0}]})
        return {'name': 'c%d' % i, 'steps': steps}

    kids = [producer(i) for i in range(draw(st.integers(1, 3)))] + \
           [consumer(i) for i in range(draw(st.integers(1, 4)))]
    if draw(st.integers(0, 11)) == 0:
        # a crowd: dozens of receivers queue for the items, some of them give up after a while
        crowd = draw(st.integers(34, 70))
        kids = [{'name': 'p0', 'steps': [x for _ in range(crowd) for x in (
            {'op': 'qput', 's': 0, 'v': 1000 + _}, {'op': 'sleep', 'd': 0.5} if _ % 7 == 0 else {'op': 'instant'})]}]
        kids[0]['after'] = 3
        for i in range(crowd):
            g = {'op': 'qget', 's': 0}
            if draw(st.integers(0, 7)) == 0:
                g = {'op': 'until', 'name': 'U%d_0' % i, 'notif': ['delay', draw(st.sampled_from([1, 2]))], 'children': [], 'body': [g]}
            kids.append({'name': 'c%d' % i, 'steps': [g]})
    kids = [kids[i] for i in draw(st.permutations(list(range(len(kids)))))]
    for k in kids:
        if draw(st.integers(0, 3)) == 0:
            k['after'] = draw(st.sampled_from([0.5, 1, 2]))
    blk = {'op': 'scope', 'name': 'S', 'children': kids, 'body': [], 'catch': True}
    if draw(st.integers(0, 5)) == 0:
        blk['op'], blk['notif'] = 'until', (['delay', draw(st.sampled_from([0.5, 1, 2, 3]))] if draw(st.booleans()) else ['flag', 0])
    ctl = {'name': 'ctl', 'steps': [{'op': 'at_eq', 't': draw(st.sampled_from([0.5, 1, 2]))}] +
           [{'op': 'instant'} for _ in range(draw(st.integers(0, 3)))] + [{'op': 'set_flag', 'i': 0, 'v': True}]}
    fin = {'name': 'fin', 'steps': [{'op': 'at_ge', 't': 500}, {'op': 'qclose', 's': 0},
                                    {'op': 'qiter', 's': 0, 'n': None}, {'op': 'qget', 's': 0}]}
    # an outside consumer that survives whatever happens in the scope
    out_c = {'name': 'oc', 'steps': [{'op': 'sleep', 'd': draw(st.sampled_from([0, 1, 3]))},
                                     {'op': 'qiter', 's': 0, 'n': None, 'gap': draw(st.sampled_from([None, 1]))}]}
    roots = [{'name': 'r0', 'steps': [blk]}, ctl]
    if draw(st.booleans()):
        roots.append(out_c)
    roots.append(fin)
    prog = {'start': 0, 'objs': {'queues': 1, 'flags': 1}, 'roots': roots}
    targets = [k['name'] for k in kids]
    if big and draw(st.integers(0, 2)) == 0:
        faults = 'all'
    else:
        faults = draw(st.lists(st.fixed_dictionaries({'k': st.integers(0, 120), 'target': st.sampled_from(targets),
                                                      'token': st.just([1])}), max_size=5))
    return {'prog': prog, 'targets': targets, 'faults': faults, 'ctl_sweep': big and draw(st.integers(0, 2)) == 0}


def judge(out, prog, it, oc, exc, ctx):
    # the `closed` property: false until somebody closes the stream, true from the moment close() is called
    closes = [e for e in it.log if e[0] <= it.end_seq and e[3] in ('close_begin', 'close_ok')]
    for n, e in enumerate(closes):
        earlier = any(c[3] == 'close_begin' for c in closes[:n])
        if e[3] == 'close_ok' and e[5] is not True:
            out.fail('closed_property', 'false_after_close', '%s%s: closed is %r after close();%s' % (e[1], e[2], e[5], ctx))
        elif e[3] == 'close_begin' and e[5] != earlier:
            out.fail('closed_property', 'wrong_before_close', '%s%s: closed is %r before close() (closed earlier: %s);%s' % (
                e[1], e[2], e[5], earlier, ctx))
    if oc != 'ok':
        out.fail('run_outcome', ('exc:' + type(exc).__name__) if oc == 'exc' else oc, '%r;%s' % (exc, ctx))
        return
    fe = foreign_exception(it.log, it.end_seq)
    if fe:
        out.fail('run_outcome', 'activity_exc:%s' % fe[1][1], '%s%s ended with %r, which the program did not raise;%s' % (
            fe[0][1], fe[0][2], fe[1], ctx))
    fin_root = next((r for r in prog['roots'] if r['name'] == 'fin'), None)
    if fin_root is None or not any(s_['op'] == 'qclose' for s_ in fin_root['steps']) or fin_root['steps'][0]['op'] != 'at_ge':
        raise InvalidCase('the final close + drain of the stream is part of every case')      # (shrinking removes it)
    S = Structure(prog)
    log = [e for e in it.log if e[0] <= it.end_seq]
    qops = ('qput', 'qget', 'qiter', 'qclose')
    cache = {}

    def isq(e):
        key = (e[1], e[2])
        if key not in cache:
            try:
                cache[key] = S.step_at(e[1], e[2]).get('op') in qops
            except Exception:
                cache[key] = False
        return cache[key]
    ev = [e for e in log if isq(e)]
    put_begin = {}      # item -> seq
    refused = set()
    closes = [e[0] for e in ev if e[3] == 'close_begin']
    first_close = min(closes) if closes else None
    for e in ev:
        if e[3] == 'put_begin':
            put_begin[e[5]] = e[0]
        elif e[3] == 'put_refused':
            refused.add(e[5])
            if first_close is None or e[0] < first_close:
                out.fail('closed', 'refused_while_open', 'put(%r) raised StreamClosed before any close;%s' % (e[5], ctx))
    accepted = {i: s for i, s in put_begin.items() if i not in refused}
    for i, s in put_begin.items():
        if first_close is not None and s > first_close and i not in refused:
            # the put call did not raise although the queue was closed
            fin = [e for e in ev if e[3] in ('put_ok',) and e[5] == i]
            if fin:
                out.fail('closed', 'put_accepted_after_close', 'put(%r) succeeded on a closed queue;%s' % (i, ctx))
            accepted.pop(i, None)   # interrupted before we could see the outcome: not counted
    gots = [e for e in ev if e[3] == 'got']
    got_items = [e[5] for e in gots]
    cg, ca = Counter(got_items), Counter(accepted.keys())
    dup = [i for i, n in cg.items() if n > 1]
    if dup:
        out.fail('exactly_once', 'duplicated', 'items %r received more than once;%s' % (dup, ctx))
    lost = [i for i in ca if i not in cg]
    if lost:
        out.fail('exactly_once', 'lost', 'accepted items %r never received (drain included);%s' % (sorted(lost), ctx))
    ghost = [i for i in cg if i not in ca]
    if ghost:
        kind = 'refused_item_received' if any(i in refused for i in ghost) else 'invented'
        out.fail('exactly_once', kind, 'received %r which were not accepted;%s' % (ghost, ctx))
    # receives complete in put order
    order = [accepted[i] for i in got_items if i in accepted]
    if order != sorted(order):
        out.fail('order', 'items_out_of_order', 'received %r; put order %r;%s' % (
            got_items, sorted(accepted, key=accepted.get), ctx))
    # waiting receivers are served in the order in which they started waiting
    begins = {}
    waits = []      # (begin seq, got seq)
    stuck = []
    for e in ev:
        if e[3] == 'get_begin':
            begins[(e[1], e[2])] = e
        elif e[3] in ('got', 'get_closed'):
            b = begins.pop((e[1], e[2]), None)
            if b is not None and e[3] == 'got':
                waits.append((b[0], e[0], e[1]))
    waits.sort()
    for a, b in zip(waits, waits[1:]):
        if b[1] < a[1]:
            out.fail('order', 'receiver_overtaken', '%s started waiting at seq %d but %s (seq %d) was served first;%s' % (
                a[2], a[0], b[2], b[0], ctx))
            break
    # StreamClosed / end of iteration only when closed and drained
    for e in ev:
        if e[3] in ('get_closed', 'iter_end'):
            if e[3] == 'iter_end':
                node = S.step_at(e[1], e[2])
                if node.get('n') is not None and e[5] >= node['n']:
                    continue            # left by its own break
                if node.get('n') == 0:
                    continue
            if first_close is None or e[0] < first_close:
                out.fail('closed', 'closed_signal_while_open', '%s%s got end-of-stream before close;%s' % (e[1], e[2], ctx))
            pend = [i for i, s in accepted.items() if s < e[0] and not any(g[5] == i and g[0] < e[0] for g in gots)]
            if pend:
                out.fail('closed', 'closed_before_drained', '%s%s got end-of-stream at seq %d while accepted items %r '
                         'were still undelivered;%s' % (e[1], e[2], e[0], pend, ctx))
    # nobody is left waiting after the final close + drain
    fins = {e[1] for e in log if e[3] == 'fin'}
    for (a, i), b in begins.items():
        if a not in fins:
            out.fail('liveness', 'receiver_stuck', '%s%s started waiting at seq %d and is still suspended after the '
                     'queue was closed and drained;%s' % (a, i, b[0], ctx))
    if len(accepted) >= 2:
        out.features.add('items>=2')
    if closes and any(s < closes[0] for s in accepted.values()):
        out.features.add('close_with_history')
    return begins


class C10(Check):
    pid = 'C10'
    level = 'fault_enumeration'
    rule = ('1-3 producers (put sequences with gaps incl. 0, optional close, puts after close), 1-4 consumers mixing '
            'single gets, prepared (created, later performed) puts, bounded/unbounded iteration and gets inside until(time+d)/until(flag); optional enclosing '
            'until() that closes everybody, an outside consumer, and a final close+drain; Task.cancel injected at '
            'sampled (thorough: all) activation boundaries of every participant. non-trivial = a participant was '
            'cancelled/interrupted/closed while a receiver was waiting or an item was in flight, or close with '
            'buffered items; distinct by sha1(program+faults). Also opaque payload (None, 0, empty string as items) and crowds of '
            '34-70 receivers.')
    budgets = {'quick': dict(examples=2000, procs=4), 'thorough': dict(examples=16000, procs=16)}
    level_text = ('History invariants under exhaustive boundary cancel injection: multiset(received incl. drain) == '
                  'multiset(accepted), global receive order == put order, waiting receivers served in waiting order, '
                  'StreamClosed / end of iteration only when closed and drained, put on closed refused and stored '
                  'nothing, nobody left waiting after the final close.')
    level_note = 'accepted = put whose call did not raise (put appends synchronously; logged immediately before the call).'
    technique = 'property-based testing with boundary fault injection; history invariants (exactly-once, order, close semantics)'
    design_ref = 'DESIGN.md section 4, C10'

    def strategy(self, tier):
        return cases(tier)

    def run_case(self, case, tier='quick'):
        out = Outcome()
        prog = case['prog']
        mk = lambda: Probe(b_step=4000, b_total=40000)  # noqa
        it, oc, exc, p = execute(prog, mk())
        it0 = it
        out.evals = 1
        judge(out, prog, it, oc, exc, ' faults=None')
        N = p.k
        if case['faults'] == 'all':
            plan = [[{'k': k, 'target': t, 'token': [1]}] for t in case['targets'] for k in range(N + 1)][:1500]
        else:
            plan = [[dict(f, k=f['k'] % (N + 1))] for f in case['faults']]
            if len(plan) >= 2:
                plan.append(plan[0] + plan[1])
        for faults in plan:
            it, oc, exc, p = execute(prog, mk(), faults=faults)
            out.evals += 1
            judge(out, prog, it, oc, exc, ' faults=%r' % (faults,))
            if any(f[4] == 'RUNNING' for f in it.fault_log):
                out.nontrivial = True
        if 'close_with_history' in out.features:
            out.nontrivial = True
        if case.get('ctl_sweep'):
            # until-interrupt / forceful close placed in every round of every time step of the run
            from vlib.gen import ctl_variants
            for q in ctl_variants(prog, it0):
                it, oc, exc, p = execute(q, mk())
                out.evals += 1
                judge(out, q, it, oc, exc, ' ctl=%r' % ([r['steps'] for r in q['roots'] if r['name'] == 'ctl'][0][:1] + ['x%d' % (len([r for r in q['roots'] if r['name'] == 'ctl'][0]['steps']) - 2)],))
            out.features.add('ctl_sweep')
        return out


CHECK = C10()
