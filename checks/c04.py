"""C04 - no task outlives its scope (structured-concurrency containment)."""
from hypothesis import strategies as st

from vlib.runner import Check, Outcome, InvalidCase
from vlib.interp import execute, num
from vlib.probe import Probe
from vlib.gen import scope_programs, fault_strategy
from vlib.scopelog import Structure, by_activity


@st.composite
def cases(draw, tier):
    c = draw(scope_programs(tier, fail=2, volatile=3, until=3, late_spawn=3, priv=1, sync=1, near_dates=1))
    if tier == 'thorough' and draw(st.integers(0, 2)) == 0:
        c['faults'] = 'all'
    else:
        c['faults'] = draw(fault_strategy(c['targets'], n=5))
    c['ctl_sweep'] = tier == 'thorough' and draw(st.integers(0, 2)) == 0
    return c


def analyse(out, prog, it, oc, exc, ctx, want_fail_checks=True):
    """Containment oracle over one execution.  Returns (struct, per, leaves) for reuse."""
    S = Structure(prog)
    log = [e for e in it.log if e[0] <= it.end_seq]
    per = by_activity(it.log, it.end_seq)
    if oc != 'ok' and not (oc == 'exc' and it.describe(exc)[0] == 'prog'):
        sig = ('exc:' + type(exc).__name__) if oc == 'exc' else oc
        out.fail('run_outcome', sig, 'run() ended with %s %r;%s' % (oc, exc, ctx))
    # individually cancelled tasks
    cancelled = set()
    for (k, target, seq, now, before, token) in it.fault_log:
        if before is not None and before not in ('SUCCESS', 'FAILED', 'CANCELLED'):
            cancelled.add(target)
    for e in log:
        if e[3] == 'cancel_call' and e[5][1] not in ('SUCCESS', 'FAILED', 'CANCELLED'):
            cancelled.add(e[5][0])
    leaves = {}
    enters = {}
    snaps = {}
    body_end = {}
    for e in log:
        if e[3] in ('leave', 'enter', 'tasks', 'body_end'):
            try:
                node = S.step_at(e[1], e[2])
            except Exception:
                continue
            name = node.get('name') if isinstance(node, dict) else None
            if not name or node.get('op') not in ('scope', 'until'):
                continue
            {'leave': leaves, 'enter': enters, 'tasks': snaps, 'body_end': body_end}[e[3]][name] = e
    spawned = {}      # child -> (seq, 'spawned'|'refused', state)
    for e in log:
        if e[3] in ('spawned', 'refused'):
            spawned[e[5][0]] = (e[0], e[3], e[5][1], e)
    flag_set = {}
    for e in log:
        if e[3] == 'set_begin' and e[5][1]:
            flag_set.setdefault(e[5][0], e[0])

    for bname, lv in leaves.items():
        node = S.blocks[bname]['node']
        lseq, ltime, lpay = lv[0], lv[4], lv[5]
        desc = S.descendants(bname)
        # (1) nothing of the block's tasks or their descendants runs afterwards
        for d in desc:
            late = [e for e in per.get(d, ()) if e[0] > lseq]
            if late:
                out.fail('containment', 'ran_after_exit:' + late[0][3],
                         'block %s left at seq %d t=%r, but %s logged %r later;%s' % (
                             bname, lseq, ltime, d, late[0], ctx))
                break
        # (2) every task of the block is done right after the block
        sn = snaps.get(bname)
        if sn is not None:
            for tn, (status, done) in sn[5].items():
                if not done:
                    out.fail('containment', 'not_done_at_exit:' + status,
                             'task %s of block %s is %s after the block ended;%s' % (tn, bname, status, ctx))
        # children actually belonging to the block: static + accepted late spawns
        kids = list(S.static_children.get(bname, ()))
        for c in S.block_children.get(bname, ()):
            if c not in kids and spawned.get(c, (None, None))[1] == 'spawned':
                kids.append(c)
        vol = {c for c in kids if S.acts[c].get('volatile')}
        # was it a normal exit?
        normal = lpay is None and bname in body_end
        if normal and node['op'] == 'until':
            en = enters.get(bname)
            nt = node['notif']
            if nt[0] == 'delay':
                normal = en is not None and ltime < en[4] + num(nt[1])
            elif nt[0] == 'flag':
                normal = not (nt[1] in flag_set and flag_set[nt[1]] < lseq)
            elif nt[0] == 'time_ge':
                normal = ltime < num(nt[1])
            elif nt[0] == 'eternity':
                normal = True
            elif nt[0] == 'time_eq':
                normal = en is not None and (num(nt[1]) < en[4] or ltime < num(nt[1]))
            elif nt[0] == 'time_lt':
                normal = en is not None and not (en[4] < num(nt[1]))
            else:
                normal = False
        if normal:
            out.features.add('normal_exit')
            fins = []
            for c in kids:
                if c in vol:
                    continue
                evs = per.get(c, ())
                fin = [e for e in evs if e[3] == 'fin']
                if fin:
                    fins.append(fin[0][0])
                if c in cancelled:
                    continue
                if not any(e[3] == 'end' and e[0] < lseq for e in evs):
                    late = c not in S.static_children.get(bname, ())
                    out.fail('completion', 'child_incomplete:%s' % ('late_spawn' if late else 'static'),
                             'block %s ended normally at t=%r but child %s did not run to completion;%s' % (
                                 bname, ltime, c, ctx))
            # (4) volatile children are closed only after all non-volatile ones have finished
            for v in vol:
                evs = per.get(v, ())
                if not evs:
                    continue
                closed = [e for e in evs if e[3] == 'exc' and e[5][0] == 'genexit']
                if closed and fins and closed[0][0] < max(fins):
                    out.fail('volatile', 'closed_early', 'volatile %s of %s closed at seq %d before the last '
                             'non-volatile child finished (seq %d);%s' % (v, bname, closed[0][0], max(fins), ctx))
                # a time-only volatile child keeps running until then
                a = S.acts[v]
                if all(s['op'] in ('sleep', 'instant', 'eternity') for s in a['steps']) and v not in cancelled:
                    st0 = [e for e in evs if e[3] == 'start']
                    if st0:
                        t = st0[0][4]
                        for i, s in enumerate(a['steps']):
                            if s['op'] == 'eternity':
                                break
                            t = t + (num(s['d']) if s['op'] == 'sleep' else 0)
                            if t < ltime and not any(e[3] == 'ok' and e[2] == (i,) for e in evs):
                                out.fail('volatile', 'stopped_early', 'volatile %s should have resumed at %r '
                                         '(< block end %r);%s' % (v, t, ltime, ctx))
                                break
                    out.features.add('volatile_checked')
        else:
            out.features.add('abnormal_exit:%s' % ('none' if lpay is None else lpay[0]))
        if desc and (not normal or vol or any(c not in S.static_children.get(bname, ()) for c in kids)):
            if len(S.blocks) >= 2 or vol or len(kids) > len(S.static_children.get(bname, ())):
                out.nontrivial = True
    # (5) spawning into an ended scope is refused, the payload never runs and is closed
    for (act, idx, ref, child) in S.spawn_steps:
        sp = spawned.get(child)
        if sp is None:
            continue
        seq, how, state, e = sp
        lv = leaves.get(ref)
        if lv is not None and seq > lv[0]:
            out.features.add('spawn_after_end')
            if how != 'refused':
                out.fail('late_spawn', 'accepted_after_end', 'do() into ended scope %s accepted (%s);%s' % (ref, child, ctx))
        if how == 'refused':
            if state != 'CORO_CLOSED':
                out.fail('late_spawn', 'payload_not_closed:%s' % state, '%s refused but payload state %s;%s' % (child, state, ctx))
            if per.get(child):
                out.fail('late_spawn', 'refused_payload_ran', '%s refused but logged %r;%s' % (child, per[child][0], ctx))
        elif lv is None and it.tasks.get(child) is not None:
            pass
    return S, per, leaves


@st.composite
def generation_cases(draw):
    return {'generations': {'n': draw(st.integers(1100, 3000)), 'width': draw(st.integers(0, 2))}}


class C04(Check):
    pid = 'C04'
    level = 'fault_enumeration'
    rule = ('Hypothesis-generated trees of nested Scope/until blocks (depth<=3 (quick 2), <=4 children per '
            'block; children started now/after, volatile children, late spawns into ancestor scopes - also '
            'after `await scope` and from a finally clause during teardown; exit causes: normal, body/child '
            'failure, notification (delay/flag/date), owner cancelled or closed) with Task.cancel injected at '
            'sampled (thorough: all) activation boundaries of any task. non-trivial = a block with tasks '
            'that ends abnormally, or has volatile children or an accepted late spawn, in a program with '
            '>=2 blocks or such children; distinct by sha1(program+faults). Also scopes kept open by 1100-3000 successive '
            'generations of children.')
    budgets = {'quick': dict(examples=1600, procs=4), 'thorough': dict(examples=12000, procs=16)}
    level_text = ('Every generated scope tree is executed (and re-executed with cancel() injected at activation '
                  'boundaries); a monitor over the complete event log checks for every block that no event of '
                  'any task of the block or its descendants follows the block exit, all its tasks are done, '
                  'normal exits completed every non-volatile child (late spawns included), volatile children '
                  'were closed last, and spawns into ended scopes are refused with the payload closed.')
    level_note = ('Trusts the interpreter log (every step of every activity logs with a global sequence number). '
                  'Bounded tree size and time grid; cancel is the only injected fault, notification/close/failure '
                  'exits are part of the generated programs.')
    technique = 'property-based testing (scope-tree generator) with boundary fault injection; history invariant monitor'
    design_ref = 'DESIGN.md section 3, C04'

    def strategy(self, tier):
        return st.sampled_from(range(12)).flatmap(lambda k, tier=tier: generation_cases() if k == 0 else cases(tier))

    def generation_case(self, case):
        """a scope kept open by thousands of successive generations of children (every child starts its successor in the
        scope before it ends, some generations several at a time): the block is left when the last one has ended - not
        before, with nobody closed on the way"""
        import usim
        from vlib.probe import run_probed
        out = Outcome()
        out.evals = 1
        g_max, width = case['generations']['n'], case['generations']['width']
        if g_max < 1 or width < 0:
            raise InvalidCase('generations')
        ran, closed = [], []

        async def job(scope, k):
            try:
                await (usim.time + 1)
                ran.append(k)
                if k < g_max:
                    scope.do(job(scope, k + 1))
                    if k % 97 == 0:
                        for j in range(width):
                            scope.do(side(k, j))
            except GeneratorExit:
                closed.append(k)
                raise

        async def side(k, j):
            try:
                await (usim.time + (0.5 + j))
            except GeneratorExit:
                closed.append((k, j))
                raise
        seen = {}

        async def main():
            async with usim.Scope() as scope:
                scope.do(job(scope, 1))
            seen['left'] = usim.time.now
        oc, exc, _ = run_probed([main()], probe=Probe(b_step=4000, b_total=40 * g_max + 4000))
        if oc != 'ok':
            out.fail('run_outcome', 'generations:%s:%s' % (oc, type(exc).__name__), 'run() ended with %s %r' % (oc, exc))
        ks = [k for k in range(1, g_max) if k % 97 == 0]
        want = max([g_max] + ([ks[-1] + 0.5 + (width - 1)] if ks and width else []))
        if oc != 'ok':
            pass
        elif seen.get('left') != want or len(ran) != g_max or closed:
            out.fail('containment', 'generations:left_early', 'a scope with %d generations of children was left at %r after %d '
                     'generations; closed on the way: %r' % (g_max, seen.get('left'), len(ran), closed[:3]))
        out.nontrivial = True
        out.features.add('thousands_of_generations')
        return out

    def run_case(self, case, tier='quick'):
        if 'generations' in case:
            return self.generation_case(case)
        out = Outcome()
        prog = case['prog']
        mk = lambda: Probe(b_step=4000, b_total=40000)  # noqa
        it, oc, exc, p = execute(prog, mk())
        it0 = it
        out.evals = 1
        analyse(out, prog, it, oc, exc, ' faults=None')
        N = p.k
        if case['faults'] == 'all':
            plan = [[{'k': k, 'target': t, 'token': [100]}] for t in case['targets'] for k in range(N + 1)]
            plan = plan[:1500]
        else:
            plan = [[dict(f, k=f['k'] % (N + 1))] for f in case['faults']]
            if len(case['faults']) >= 2:
                plan.append([dict(f, k=f['k'] % (N + 1)) for f in case['faults'][:2]])
        for faults in plan:
            it, oc, exc, p = execute(prog, mk(), faults=faults)
            out.evals += 1
            if any(f[4] is not None for f in it.fault_log):
                out.features.add('fault_applied')
            analyse(out, prog, it, oc, exc, ' faults=%r' % (faults,))
        if case.get('ctl_sweep'):
            # the notification of every until(flag 0) placed in every round of every time step of the run
            from vlib.gen import ctl_variants
            for q in ctl_variants(prog, it0):
                it, oc, exc, p = execute(q, mk())
                out.evals += 1
                analyse(out, q, it, oc, exc, ' ctl=%r' % ([r['steps'] for r in q['roots'] if r['name'] == 'ctl'][0][:1],))
            out.features.add('ctl_sweep')
        return out


CHECK = C04()
