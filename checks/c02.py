"""C02 - the trace is a function of the program alone (deterministic FIFO turn order)."""
import atexit
import hashlib
import json
import os
import subprocess
import sys
from hypothesis import strategies as st

from vlib.runner import Check, Outcome, ROOT, InvalidCase
from vlib.interp import execute
from vlib.probe import Probe, HarnessError
from vlib.gen import whole_programs
from vlib.c02_worker import canon_log

CONFIGS = [(hs, wq, opt, False) for hs in ('0', '1', '4242') for wq in ('', 'SD') for opt in (False, True)]
# ... and two workers in which the cyclic garbage collector runs before every activation (elsewhere it never runs
# during a simulation): when unreachable objects are finalised must not matter either
CONFIGS += [('0', '', False, True), ('1', 'SD', True, True)]
_WORKERS = {}


def worker(cfg):
    key = (os.getpid(), cfg)
    w = _WORKERS.get(key)
    if w is None or w.poll() is not None:
        hs, wq, opt, gc_every = cfg
        env = dict(os.environ, PYTHONHASHSEED=hs)
        env.pop('USIM_WAITQUEUE', None)
        env['C02_GC'] = '1' if gc_every else '0'
        if wq:
            env['USIM_WAITQUEUE'] = wq
        cmd = [sys.executable, '-B'] + (['-O'] if opt else []) + ['-m', 'vlib.c02_worker']
        w = subprocess.Popen(cmd, stdin=subprocess.PIPE, stdout=subprocess.PIPE, env=env, cwd=ROOT,
                             text=True, bufsize=1)
        _WORKERS[key] = w
    return w


def _shutdown():
    for (pid, _), w in list(_WORKERS.items()):
        if pid == os.getpid() and w.poll() is None:
            try:
                w.stdin.write('{"quit":1}\n')
                w.stdin.flush()
                w.wait(timeout=2)
            except Exception:
                w.kill()


atexit.register(_shutdown)


def ask_all(req):
    line = json.dumps(req) + '\n'
    ws = [worker(c) for c in CONFIGS]
    for w in ws:
        w.stdin.write(line)
        w.stdin.flush()
    out = []
    for c, w in zip(CONFIGS, ws):
        ans = w.stdout.readline()
        if not ans:
            raise HarnessError('C02 worker %r died' % (c,))
        out.append(json.loads(ans))
    return out


@st.composite
def abandoned_iterator_programs(draw):
    """An activity is interrupted / cancelled / closed while it holds a suspended library iterator in a variable (first(),
    a queue iterator, a prepared ticker): what the iterator owns is released at once - not when the collector runs."""
    g = draw(st.sampled_from([0.75, 1.25, 2.75]))
    shape = draw(st.sampled_from(['first', 'first', 'queue', 'queue', 'sampler', 'sampler']))
    how = draw(st.sampled_from(['until', 'scope', 'cancel', 'volatile']))
    if shape == 'first':
        acts = [{'name': 'x0', 'steps': [{'op': 'sleep', 'd': draw(st.sampled_from([0, 0.5]))}, {'op': 'return', 'v': 1}]},
                {'name': 'x1', 'steps': [{'op': 'sleep', 'd': draw(st.sampled_from([5, 7]))}, {'op': 'return', 'v': 2}]}]
        op = {'op': 'first', 'acts': acts, 'count': 2, 'gap': 4, 'keep': draw(st.integers(0, 3)) > 0}
        others = []
    elif shape == 'sampler':
        op = {'op': 'sampler', 'i': 0, 'period': draw(st.sampled_from([0.5, 1])), 'gap': 10, 'n': 3}
        # somebody who wants the lock that the abandoned sampler still owns
        others = [{'name': 'us', 'steps': [{'op': 'sleep', 'd': g + 0.5}, {'op': 'lock', 'i': 0, 'body': [{'op': 'sleep', 'd': 1}]}]}]
    else:
        op = {'op': 'qiter', 's': 0, 'n': None, 'gap': None, 'explicit': draw(st.integers(0, 3)) > 0}
        # a producer and a second receiver that can only be served once the first one has let go of the read side
        others = [{'name': 'pr', 'steps': [{'op': 'sleep', 'd': g + 1}, {'op': 'qput', 's': 0, 'v': 7}, {'op': 'sleep', 'd': 4},
                                           {'op': 'qput', 's': 0, 'v': 8}, {'op': 'qclose', 's': 0}]},
                  {'name': 'c2', 'steps': [{'op': 'sleep', 'd': g + 0.5}, {'op': 'qget', 's': 0}, {'op': 'mark', 'v': 'served'}]}]
    tail = [{'op': 'sleep', 'd': 1}, {'op': 'sleep', 'd': 8}]
    if how == 'until':
        cl = {'name': 'cl', 'steps': [{'op': 'until', 'notif': ['delay', g], 'children': [], 'body': [op]}] + tail}
    elif how == 'scope':
        cl = {'name': 'cl', 'steps': [{'op': 'scope', 'catch': True, 'body': [op], 'children': [
            {'name': 'gf', 'steps': [{'op': 'sleep', 'd': g}, {'op': 'raise', 'eid': 900, 'cls': 'K'}]}]}] + tail}
    else:
        cl = {'name': 'cl', 'steps': [op] + tail}
    kids = [cl] + others + [{'name': 'ot', 'steps': [{'op': 'sleep', 'd': 9}]}]
    if how == 'cancel':
        kids.append({'name': 'kl', 'steps': [{'op': 'sleep', 'd': g}, {'op': 'cancel', 'ref': 'cl', 'token': [3]}]})
    if how == 'volatile':
        cl['volatile'] = True
        kids.append({'name': 'en', 'steps': [{'op': 'sleep', 'd': g}]})
        blk = {'op': 'scope', 'name': 'S', 'catch': True, 'body': [], 'children': [k for k in kids if k['name'] in ('cl', 'en')]}
        rest = [k for k in kids if k['name'] not in ('cl', 'en')]
        outer = {'op': 'scope', 'name': 'O', 'catch': True, 'children': rest, 'body': [blk, {'op': 'sleep', 'd': 9}]}
        roots = [{'name': 'r0', 'steps': [outer]}]
    else:
        roots = [{'name': 'r0', 'steps': [{'op': 'scope', 'name': 'S', 'catch': True, 'children': kids, 'body': []}]}]
    return {'start': 0, 'objs': {'queues': 1, 'locks': 1}, 'roots': roots}


@st.composite
def respec_programs(draw):
    kinds = draw(st.lists(st.sampled_from(['cores', 'memory', 'disk', 'a']), min_size=2, max_size=3, unique=True))
    first = {k: draw(st.sampled_from([1.5, 2.5, 0.25])) for k in kinds}
    second = {k: draw(st.sampled_from([2, 3, 2 ** 60 + 1])) for k in kinds}
    if draw(st.booleans()):
        first, second = second, first
    acts = [{'name': 'rs', 'steps': [{'op': 'respec', 'first': first, 'second': second, 'pause': draw(st.sampled_from([0.5, 1, 2]))}]},
            {'name': 'tk', 'steps': [{'op': 'sleep', 'd': 0.25}] * draw(st.integers(1, 6))}]
    return {'start': 0, 'objs': {}, 'roots': acts}


@st.composite
def spy_collision_programs(draw):
    """usim.py: one process triggers several events back to back in one time step (failures among them); others wait for
    conditions over these events, natively or as processes - which outcome they see is a function of the program"""
    nev = draw(st.integers(2, 4))
    trig = []
    for k in draw(st.permutations(list(range(nev)))):
        if draw(st.integers(0, 2)):
            trig.append({'op': 'fail', 'ev': k, 'x': 10 + k})
        else:
            trig.append({'op': 'succeed', 'ev': k, 'v': k})
    procs = [{'name': 'p0', 'phase': 1, 'steps': [{'op': 'timeout', 'd': draw(st.integers(0, 2))}] + trig}]
    for i in range(draw(st.integers(1, 3))):
        evs = draw(st.lists(st.integers(0, nev - 1), min_size=2, max_size=nev, unique=True))
        c = {'op': 'cond', 'kind': draw(st.sampled_from(['any', 'all', 'all'])), 'evs': evs,
             'via': draw(st.sampled_from(['call', 'cls', 'op' if len(evs) == 2 else 'call']))}
        procs.append({'name': 'p%d' % (i + 1), 'phase': draw(st.sampled_from([1, 2, 3])), 'steps': [c, {'op': 'timeout', 'd': 1}]})
    return {'nev': nev, 'nflags': 0, 'procs': procs, 't0': 0, 'callbacks': list(range(nev)), 'defusers': list(range(nev)),
            'watch': draw(st.lists(st.integers(0, nev - 1), max_size=2, unique=True))}


@st.composite
def cases(draw, tier):
    if draw(st.integers(0, 7)) == 0:
        # usim.py programs (those of C18, order-dependent ones included, and directed same-step collisions)
        if draw(st.booleans()):
            return {'prog': {'spy': draw(spy_collision_programs())}, 'junk': draw(st.integers(0, 10000))}
        from checks import c18
        sp = draw(c18.programs('quick'))
        if 'until_exact' not in sp:
            return {'prog': {'spy': sp}, 'junk': draw(st.integers(0, 10000))}
    if draw(st.integers(0, 19)) == 0:
        return {'prog': draw(respec_programs()), 'junk': draw(st.integers(0, 10000))}
    if draw(st.integers(0, 9)) == 0:
        return {'prog': draw(abandoned_iterator_programs()), 'junk': draw(st.integers(0, 10000))}
    if draw(st.integers(0, 3)) == 0:
        # the programs of the lock / stream / resource / pipe / ticker / first() checks (without injected faults): activities
        # that are interrupted or closed while they hold iterators, locks and shares - what such an activity leaves
        # behind must be cleaned up at a moment that the program determines, not the garbage collector
        from checks import c09, c10, c11, c12, c13, c14, c16
        mod = draw(st.sampled_from([c09, c10, c10, c11, c12, c13, c13, c14, c16, c16]))
        sub = draw(mod.cases('quick'))
        return {'prog': sub['prog'], 'junk': draw(st.integers(0, 10000))}
    k = draw(st.integers(0, 7))
    if k == 0:
        # many waiters on *different* comparison objects of one tracked value, one setter;
        # and several borrowers waiting on one supply (each creates its own comparison)
        n = draw(st.integers(2, 6))
        acts = []
        for i in range(n):
            if draw(st.booleans()):
                acts.append({'name': 'w%d' % i, 'steps': [
                    {'op': 'await', 'e': ['tcmp', 0, draw(st.sampled_from(['>=', '>', '!=', '=='])), draw(st.integers(1, 3))]},
                    {'op': 'mark', 'v': i}, {'op': 'tadd', 'i': 1, 'v': 1}]})
            else:
                acts.append({'name': 'w%d' % i, 'steps': [
                    {'op': 'borrow', 'r': 'R', 'amounts': {'a': draw(st.integers(1, 3))}, 'body': [{'op': 'mark', 'v': i}, {'op': 'instant'}]}]})
        setter = {'name': 's', 'steps': [{'op': 'borrow', 'r': 'R', 'amounts': {'a': 3}, 'body': [
            {'op': 'sleep', 'd': 1}, {'op': 'tset', 'i': 0, 'v': draw(st.integers(1, 3))}]}, {'op': 'tset', 'i': 0, 'v': 3}]}
        levels = {'a': 3}
        kind = 'cap'
        if draw(st.booleans()):
            # several named kinds; somebody walks over the levels (iteration order and repr are observable)
            for nm in draw(st.lists(st.sampled_from(['cores', 'memory', 'gpus', 'disk', 'licenses', 'b', 'z9']), min_size=1,
                                    max_size=5, unique=True)):
                levels[nm] = draw(st.integers(1, 4))
            kind = draw(st.sampled_from(['cap', 'res']))
            acts.append({'name': 'lv', 'steps': [{'op': 'levels_iter', 'r': 'R'}, {'op': 'sleep', 'd': 1}, {'op': 'levels_iter', 'r': 'R'}]})
        prog = {'start': 0, 'objs': {'tracked': [0, 0], 'resources': [{'kind': kind, 'name': 'R', 'levels': levels}]},
                'roots': [setter] + acts}
        return {'prog': prog, 'junk': draw(st.integers(0, 10000))}
    if k in (1, 2):
        # fan-in: several activities wait for the same thing (flag, channel, queue, lock, until(flag),
        # task completion); one trigger makes them all runnable in one time step
        n = draw(st.integers(2, 7))
        kind = draw(st.sampled_from(['flag', 'channel', 'queue', 'lock', 'until', 'done', 'mixed']))
        acts = []
        for i in range(n):
            kk = kind if kind != 'mixed' else draw(st.sampled_from(['flag', 'channel', 'lock', 'until', 'done']))
            pre = [{'op': 'instant'} for _ in range(draw(st.integers(0, 2)))]
            if kk == 'flag':
                w = [{'op': 'await', 'e': draw(st.sampled_from([['flag', 0], ['or', ['flag', 0], ['flag', 1]],
                                                                   ['and', ['flag', 0], ['not', ['flag', 1]]]]))}]
            elif kk == 'channel':
                w = [{'op': 'citer', 's': 0, 'n': 2}]
            elif kk == 'queue':
                w = [{'op': 'qget', 's': 0}]
            elif kk == 'lock':
                w = [{'op': 'lock', 'i': 0, 'body': [{'op': 'mark', 'v': i}]}]
            elif kk == 'until':
                w = [{'op': 'until', 'name': 'U%d' % i, 'notif': ['flag', 0], 'children': [], 'body': [{'op': 'eternity'}]}]
            else:
                w = [{'op': 'await_done', 'ref': 'trig'}]
            acts.append({'name': 'w%d' % i, 'steps': pre + w + [{'op': 'mark', 'v': i}, {'op': 'tadd', 'i': 0, 'v': 1}]})
        trig = {'name': 'trig', 'steps': [{'op': 'lock', 'i': 0, 'body': [
            {'op': 'sleep', 'd': draw(st.sampled_from([0.5, 1]))}, {'op': 'cput', 's': 0, 'v': 1},
            {'op': 'set_flag', 'i': 0, 'v': True}, {'op': 'cput', 's': 0, 'v': 2}] +
            [{'op': 'qput', 's': 0, 'v': 10 + j} for j in range(n)]}]}
        order = draw(st.permutations(list(range(n + 1))))
        kids = [(acts + [trig])[j] for j in order]
        if kind in ('done', 'mixed'):
            kids = [trig] + [a for a in kids if a is not trig]       # the task must exist before it is awaited
        prog = {'start': 0, 'objs': {'flags': 2, 'tracked': [0], 'locks': 1, 'queues': 1, 'channels': 1},
                'roots': [{'name': 'r0', 'steps': [{'op': 'scope', 'name': 'S', 'children': kids, 'body': [], 'catch': True}]}]}
        return {'prog': prog, 'junk': draw(st.integers(0, 10000))}
    if k == 3:
        # many distinct pending dates (wait-queue backends)
        n = draw(st.integers(4, 12))
        acts = []
        for i in range(n):
            steps = [{'op': 'sleep', 'd': draw(st.sampled_from([0.5, 1, 1.5, 2, 2.5, 3, 4, 5, 5.5, 6, 7, 8, 9.5, 11]))}
                     for _ in range(draw(st.integers(1, 4)))]
            if draw(st.integers(0, 3)) == 0:
                steps.append({'op': 'interval', 'p': draw(st.sampled_from([0.5, 1.5, 3])), 'durs': [None, 0, None]})
            acts.append({'name': 'm%d' % i, 'steps': steps})
        prog = {'start': draw(st.sampled_from([0, -3])), 'objs': {}, 'roots': acts}
        if draw(st.booleans()):
            prog['till'] = draw(st.sampled_from([12, 20, 7.5]))
        return {'prog': prog, 'junk': draw(st.integers(0, 10000))}
    if k == 4:
        # condition *objects* shared between activities: a connective over several date/flag/comparison
        # objects, whose parts are also awaited individually by other activities
        n = draw(st.integers(2, 5))
        d = draw(st.sampled_from([1, 2, 3]))
        conds = []
        for i in range(n):
            kind = draw(st.sampled_from(['time_ge', 'time_ge', 'time_eq', 'flag', 'tcmp']))
            conds.append([kind, d] if kind.startswith('time') else (['flag', 0] if kind == 'flag' else ['tcmp', 0, '>=', 1]))
        expr = ['named', 0]
        for i in range(1, n):
            expr = [draw(st.sampled_from(['and', 'or'])), expr, ['named', i]]
        acts = [{'name': 'c', 'steps': [{'op': 'await', 'e': expr}, {'op': 'mark', 'v': 'c'}]}]
        if draw(st.booleans()):
            acts.append({'name': 'u', 'steps': [{'op': 'until', 'name': 'U', 'notif': expr, 'children': [],
                                                'body': [{'op': 'eternity'}]}, {'op': 'mark', 'v': 'u'}]})
        for i in range(n):
            for j in range(draw(st.integers(0, 2))):
                acts.append({'name': 'w%d_%d' % (i, j), 'steps': [{'op': 'instant'} for _ in range(draw(st.integers(0, 2)))] +
                             [{'op': 'await', 'e': ['named', i]}, {'op': 'mark', 'v': i}, {'op': 'tadd', 'i': 1, 'v': 1}]})
        setter = {'name': 's', 'steps': [{'op': 'sleep', 'd': d}, {'op': 'set_flag', 'i': 0, 'v': True}, {'op': 'tset', 'i': 0, 'v': 2}]}
        order = draw(st.permutations(list(range(len(acts)))))
        prog = {'start': 0, 'objs': {'flags': 1, 'tracked': [0, 0], 'conds': conds},
                'roots': [acts[0]] + [acts[j] for j in order if j != 0] + [setter]}
        return {'prog': prog, 'junk': draw(st.integers(0, 10000))}
    c = draw(whole_programs(tier))
    return {'prog': c['prog'], 'junk': draw(st.integers(0, 10000))}


FAMILIES = {'set_flag': 'flag', 'await': 'cond', 'tset': 'tracked', 'tadd': 'tracked', 'lock': 'lock', 'qput': 'queue',
            'qget': 'queue', 'qiter': 'queue', 'cput': 'channel', 'cget': 'channel', 'citer': 'channel',
            'borrow': 'resource', 'claim': 'resource', 'transfer': 'pipe', 'interval': 'ticker', 'delay': 'ticker',
            'cancel': 'cancel', 'until': 'until', 'scope': 'scope', 'collect': 'flow', 'first': 'flow', 'sleep': 'timer'}


def families(prog):
    fam = set()

    def walk(steps):
        for s in steps:
            if s.get('op') in FAMILIES:
                fam.add(FAMILIES[s['op']])
            for ch in s.get('children', ()) or ():
                walk(ch['steps'])
            walk(s.get('body', ()) or ())
            for a in s.get('acts', ()) or ():
                walk(a['steps'])
            if 'child' in s:
                walk(s['child']['steps'])
    for r in prog['roots']:
        walk(r['steps'])
    return fam


class C02(Check):
    pid = 'C02'
    level = 'exploration'
    rule = ('Whole-API programs (timers, flags, tracked values with several comparison objects on one value, locks, queues, '
            'channels, resources with several waiting borrowers, pipes, tickers, scopes, cancellations) on a tiny time grid; '
            'each program is executed in-process and by 14 persistent worker processes {PYTHONHASHSEED 0,1,4242} x '
            '{USIM_WAITQUEUE unset, SD} x {python, python -O} plus two in which the cyclic garbage collector runs before every '
            'activation, each with seeded heap perturbation and twice per worker; also the programs of the lock/stream/resource/pipe/'
            'ticker/first() checks, abandoned-iterator shapes and short-lived Resources of equal kinds; '
            'all event logs must be identical; plus the FIFO invariant on the activation/schedule streams. non-trivial = a time '
            'step with >=3 activations of distinct activities in a program using >=3 primitive families; distinct by sha1. Also usim.py programs (processes, events, conditions, callbacks, '
            'same-step collisions included) in the differential; a second FIFO oracle over one merged stream of schedule calls, '
            'revocations and activations (a wake-up revoked before delivery stays dead, the oldest valid entry of a date runs next).')
    quick_boost = False
    budgets = {'quick': dict(examples=900, procs=2), 'thorough': dict(examples=40000, procs=4)}
    level_text = ('Differential testing across configurations: identical normalised event logs (which activity does what, at which '
                  'time, in which order, with which values) in 15 executions per program that differ in process, hash seed, heap '
                  'layout, wait-queue backend, assertion mode and garbage-collector timing; and within each time step activations happen in the order of '
                  'their schedule calls.')
    level_note = ('Logs contain no addresses or reprs. The -O workers need no Hypothesis. Programs violate no usage assertion '
                  '(valid API calls only), so -O may not change behaviour.')
    technique = 'differential property-based testing across process configurations + FIFO invariant over the probe streams'
    design_ref = 'DESIGN.md section 3, C02'

    def strategy(self, tier):
        return cases(tier)

    def spy_case(self, out, case):
        """a usim.py program (processes, events, conditions, callbacks; same-step collisions welcome): one trace in every
        configuration"""
        from vlib.spy import canon_spy
        prog = case['prog']
        ref = canon_spy(prog['spy'])
        if 'usage_assertion' in ref:
            raise InvalidCase('usage assertion')
        refd = hashlib.sha1(ref.encode()).hexdigest()
        answers = ask_all({'prog': prog, 'junk': case.get('junk', 0), 'twice': True})
        out.evals = 2 * (1 + 2 * len(CONFIGS))
        bad = []
        for cfg, a in zip(CONFIGS, answers):
            if 'error' in a:
                raise HarnessError('worker %r: %s' % (cfg, a['error']))
            if not a['same_twice']:
                out.fail('differential', 'spy:same_process_heap_perturbation',
                         'two runs of a usim.py program in one worker (%r) with different unrelated allocations gave different traces' % (cfg,))
            if a['digest'] != refd:
                bad.append(cfg)
        if bad:
            out.fail('differential', 'spy:trace_differs', 'usim.py program: configs %r differ from the in-process run' % (bad[:4],))
        out.features.add('fam_usimpy')
        out.nontrivial = len(prog['spy']['procs']) >= 2
        return out

    def run_case(self, case, tier='quick'):
        out = Outcome()
        prog = case['prog']
        probe = Probe(b_step=5000, b_total=80000, record=True, record_sched=True)
        if 'spy' in prog:
            return self.spy_case(out, case)
        it, oc, exc, p = execute(prog, probe)
        ref = canon_log(it, oc, exc)
        if '"AssertionError"' in ref and '"other"' in ref:
            # the program trips a usage assertion (only arises while shrinking): not a valid program,
            # and -O legitimately changes behaviour then
            raise InvalidCase('usage assertion')
        refd = hashlib.sha1(ref.encode()).hexdigest()
        answers = ask_all({'prog': prog, 'junk': case.get('junk', 0), 'twice': True})
        out.evals = 1 + 2 * len(CONFIGS)
        bad = []
        for cfg, a in zip(CONFIGS, answers):
            if 'error' in a:
                raise HarnessError('worker %r: %s' % (cfg, a['error']))
            if not a['same_twice']:
                out.fail('differential', 'same_process_heap_perturbation',
                         'two runs in one worker (%r) with different unrelated allocations gave different traces' % (cfg,))
            if a['digest'] != refd:
                bad.append(cfg)
        if bad:
            full = ask_all({'prog': prog, 'junk': case.get('junk', 0), 'full': True})
            texts = {cfg: a.get('text') for cfg, a in zip(CONFIGS, full)}
            kinds = set()
            for cfg in bad:
                if cfg[1]:
                    kinds.add('waitqueue')
                if cfg[2]:
                    kinds.add('opt')
                if cfg[0] != '0':
                    kinds.add('hashseed')
                if cfg[3]:
                    kinds.add('gc_timing')
            if len(set(texts.values()) | {ref}) > 1 and all(c[1] == '' and not c[2] and not c[3] for c in bad):
                kinds.add('process')
            # first differing row, for the message
            t = texts[bad[0]] or ''
            a_rows, b_rows = json.loads(ref)['log'], (json.loads(t)['log'] if t else [])
            diff = next((i for i, (x, y) in enumerate(zip(a_rows, b_rows)) if x != y), min(len(a_rows), len(b_rows)))
            fam = families(prog)
            sig = 'trace_differs'
            if 'tracked' in fam or 'resource' in fam:
                sig += ':tracked_or_resource'
            out.fail('differential', sig, 'configs %r differ from the in-process run (dimensions %s); first difference at row %d: %r vs %r' % (
                bad[:4], sorted(kinds), diff, a_rows[diff:diff + 1], b_rows[diff:diff + 1]))
        # ---- FIFO: per time step, activations follow the order of the schedule calls
        due = {}
        for (k, t, tid, sid) in p.scheds:
            due.setdefault(t, []).append((tid, sid))
        by_time = {}
        for a in p.acts:
            by_time.setdefault(a[1], []).append((a[2], a[5]))
        busy = False
        if p.absorbed:
            # a positive delay below the resolution of the clock is due "now" but queued like a later date: outside the
            # range of dates for which same-time order is stated (DESIGN 6.2, float absorption)
            out.features.add('absorbed_delay')
            by_time = {}
        for t, acts in by_time.items():
            if len({x[0] for x in acts}) >= 3:
                busy = True
            sched = due.get(t, [])
            pos = 0
            scheduled = set(sched)
            for a in acts:
                if a not in scheduled:
                    continue          # a root pushed by the loop constructor
                try:
                    pos = sched.index(a, pos) + 1
                except ValueError:
                    out.fail('fifo', 'activation_out_of_schedule_order', 'at time %r an activation ran before one that was '
                             'scheduled earlier' % (t,))
                    break
        # ---- ... and a wake-up that was revoked before it was delivered stays dead: what runs next in a time step is the
        #      oldest entry of that date that is still valid (one merged stream of schedule calls, revocations, activations)
        if not p.absorbed:
            pending = {}        # date -> [[target, signal, state]]   state: 0 live, 1 done, 2 revoked before delivery
            by_sig = {}
            for ev in p.merged:
                if ev[0] == 's':
                    ent = [ev[2], ev[3], 0]
                    pending.setdefault(ev[1], []).append(ent)
                    if ev[3]:
                        by_sig.setdefault(ev[3], []).append(ent)
                elif ev[0] == 'r':
                    for ent in by_sig.pop(ev[1], ()):
                        if ent[2] == 0:
                            ent[2] = 2
                else:
                    _, t, tid, sid = ev
                    ents = pending.get(t, ())
                    nxt = next((e for e in ents if e[2] == 0), None)
                    if nxt is not None and nxt[0] == tid and nxt[1] == sid:
                        nxt[2] = 1
                        continue
                    mine = [e for e in ents if e[0] == tid and e[1] == sid]
                    if not mine:
                        continue        # a root pushed by the loop constructor
                    if all(e[2] == 2 for e in mine):
                        out.fail('fifo', 'revoked_wakeup_delivered', 'at time %r an activity was resumed by a wake-up that had been '
                                 'revoked before (and not scheduled again since)' % (t,))
                    elif any(e[2] == 2 for e in mine) and nxt is not None:
                        out.fail('fifo', 'resumed_at_the_place_of_a_revoked_wakeup', 'at time %r an activity was resumed ahead of %d '
                                 'entries scheduled before its valid wake-up (at the queue position of a wake-up of its own that had '
                                 'been revoked)' % (t, sum(1 for e in ents[:ents.index(next(e for e in mine if e[2] == 0))] if e[2] == 0)
                                                    if any(e[2] == 0 for e in mine) else -1))
                    else:
                        out.fail('fifo', 'activation_not_the_oldest_valid_entry', 'at time %r an activation ran that was not the oldest '
                                 'valid entry of that date' % (t,))
                    break
        fam = families(prog)
        out.features |= {'fam_' + f for f in fam}
        out.nontrivial = busy and len(fam) >= 3
        return out


CHECK = C02()
