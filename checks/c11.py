"""C11 - Channel broadcasts every message to every subscribed consumer, in order, once."""
from hypothesis import strategies as st

from vlib.runner import Check, Outcome, InvalidCase
from vlib.interp import execute
from vlib.probe import Probe
from vlib.scopelog import foreign_exception, Structure

GAPS = [0, 0, 0.5, 1, 2]


@st.composite
def cases(draw, tier):
    big = tier == 'thorough'
    item = [0]
    special = draw(st.permutations([None, None, 0, '']))[:draw(st.integers(0, 3))]
    special = [x for i, x in enumerate(special) if x is not None or None not in special[:i]]
    start = draw(st.sampled_from([0, 0, 0, -2, -1.5, 3]))

    def sl():
        # pacing by relative delays or by absolute dates (dates in the past complete at once)
        if draw(st.integers(0, 3)) == 0:
            return {'op': 'at_ge', 't': draw(st.sampled_from([0, 0, 0.5, 1, 2, start + 1]))}
        return {'op': 'sleep', 'd': draw(st.sampled_from(GAPS))}

    def producer(i):
        steps = []
        for _ in range(draw(st.integers(1, 6 if big else 5))):
            r = draw(st.integers(0, 11))
            if r < 7:
                item[0] += 1
                steps.append({'op': 'cput', 's': 0, 'v': item[0]})
                if special and draw(st.integers(0, 3)) == 0:
                    steps[-1]['v'] = special.pop()       # falsy messages are messages, too
                if draw(st.integers(0, 5)) == 0:
                    steps[-1]['defer'] = draw(st.sampled_from([0, 0, 0.5, 1, 2]))
            elif r < 9:
                steps.append(sl())
            elif r < 11:
                steps.append({'op': 'instant'})
            else:
                if special and draw(st.booleans()):
                    # the last message before the close is a falsy one, close follows in the same turn
                    steps.append({'op': 'cput', 's': 0, 'v': special.pop()})
                steps.append({'op': 'cclose', 's': 0})
        return {'name': 'p%d' % i, 'steps': steps}

    def consumer(i):
        steps = []
        for _ in range(draw(st.integers(1, 3))):
            r = draw(st.integers(0, 9))
            if r < 3:
                steps.append({'op': 'cget', 's': 0})
            elif r < 7:
                steps.append({'op': 'citer', 's': 0, 'n': draw(st.sampled_from([None, None, 1, 2, 3])),
                              'gap': draw(st.sampled_from([None, None, 0.5, 1, 2, 'tick']))})
                if draw(st.integers(0, 3)) == 0:
                    steps[-1]['explicit'] = True       # iterator object kept in a variable, anext() per step
                if draw(st.integers(0, 4)) == 0:
                    # a second subscription of the same activity while it is iterating
                    steps[-1]['body'] = [{'op': 'cget', 's': 0}] if draw(st.booleans()) else [{'op': 'citer', 's': 0, 'n': draw(st.integers(1, 2))}]
            elif r < 9:
                steps.append(sl())
            else:
                notif = ['delay', draw(st.sampled_from([0.5, 1, 2]))] if draw(st.booleans()) else ['flag', 0]
                steps.append({'op': 'until', 'name': 'U%d_%d' % (i, len(steps)), 'notif': notif, 'children': [],
                              'body': [{'op': 'citer', 's': 0, 'n': None}]})
        return {'name': 'c%d' % i, 'steps': steps}

    if draw(st.integers(0, 15)) == 0:
        # a long stream: hundreds of messages through one subscription, one consumer keeping pace, one lagging far behind
        # (it sleeps while the messages pile up), one joining late
        n = draw(st.integers(140, 300))
        burst = draw(st.sampled_from([1, 10, 80]))
        psteps = [{'op': 'sleep', 'd': 0.5}]
        for j in range(n):
            psteps.append({'op': 'cput', 's': 0, 'v': 1000 + j})
            if j % burst == burst - 1:
                psteps.append({'op': 'sleep', 'd': 0.25})
        psteps.append({'op': 'cclose', 's': 0})
        kids = [{'name': 'p0', 'steps': psteps},
                {'name': 'c0', 'steps': [{'op': 'citer', 's': 0, 'n': None}]},
                {'name': 'c1', 'steps': [{'op': 'citer', 's': 0, 'n': None, 'gap': draw(st.sampled_from([None, 0.25, 1]))}]},
                {'name': 'c2', 'steps': [{'op': 'sleep', 'd': draw(st.sampled_from([1, 3]))}, {'op': 'citer', 's': 0, 'n': None}]}]
        kids = [kids[i] for i in draw(st.permutations(list(range(len(kids)))))]
        prog = {'start': start, 'objs': {'channels': 1, 'flags': 1}, 'roots': [
            {'name': 'r0', 'steps': [{'op': 'scope', 'name': 'S', 'children': kids, 'body': [], 'catch': True}]},
            {'name': 'fin', 'steps': [{'op': 'at_ge', 't': start + 5000}, {'op': 'cclose', 's': 0}, {'op': 'cget', 's': 0}]}]}
        return {'prog': prog, 'targets': ['c0', 'c1', 'c2'], 'ctl_sweep': False, 'faults': []}
    if draw(st.integers(0, 7)) == 0:
        # one-shot waiters and an iterating consumer; the last message (any value, falsy ones included) is followed by
        # close() in the same turn
        last = draw(st.sampled_from([None, None, 0, '', False, 7]))
        pre = [{'op': 'cput', 's': 0, 'v': 100 + j} for j in range(draw(st.integers(0, 2)))]
        T = start + draw(st.sampled_from([1, 1.5, 2, 3]))
        prod = {'name': 'p0', 'steps': [{'op': 'sleep', 'd': 0.5}] + pre + [{'op': 'at_ge', 't': T}, {'op': 'cput', 's': 0, 'v': last}]}
        # close() by another activity that gets its turn in the same time step, right after (or before) the put
        closer = {'name': 'p1', 'steps': [{'op': 'instant'} for _ in range(draw(st.integers(0, 2)))] +
                  [{'op': 'at_ge', 't': T}] + [{'op': 'instant'} for _ in range(draw(st.integers(0, 1)))] + [{'op': 'cclose', 's': 0}]}
        cons = []
        for j in range(draw(st.integers(1, 3))):
            cons.append({'name': 'c%d' % j, 'steps': [{'op': 'sleep', 'd': draw(st.sampled_from([0, 0, 0.5, 1, 2, 3]))}] +
                         [{'op': 'cget', 's': 0} for _ in range(draw(st.integers(1, 3)))]})
        cons.append({'name': 'c9', 'steps': [{'op': 'citer', 's': 0, 'n': None, 'gap': draw(st.sampled_from([None, 0.5]))}]})
        kids = [cons[i] for i in draw(st.permutations(list(range(len(cons)))))]
        kids.insert(draw(st.integers(0, len(kids))), prod)
        kids.insert(draw(st.integers(0, len(kids))), closer)
        prog = {'start': start, 'objs': {'channels': 1, 'flags': 1}, 'roots': [
            {'name': 'r0', 'steps': [{'op': 'scope', 'name': 'S', 'children': kids, 'body': [], 'catch': True}]},
            {'name': 'fin', 'steps': [{'op': 'at_ge', 't': 500}, {'op': 'cclose', 's': 0}, {'op': 'cget', 's': 0}]}]}
        targets = [k['name'] for k in kids if k['name'].startswith('c')]
        return {'prog': prog, 'targets': targets, 'ctl_sweep': False,
                'faults': draw(st.lists(st.fixed_dictionaries({'k': st.integers(0, 60), 'target': st.sampled_from(targets),
                                                               'token': st.just([1])}), max_size=2))}
    kids = [producer(i) for i in range(draw(st.integers(1, 2)))] + \
           [consumer(i) for i in range(draw(st.integers(1, 4)))]
    kids = [kids[i] for i in draw(st.permutations(list(range(len(kids)))))]
    for k in kids:
        if draw(st.integers(0, 3)) == 0:
            k['after'] = draw(st.sampled_from([0.5, 1, 2]))
    blk = {'op': 'scope', 'name': 'S', 'children': kids, 'body': [], 'catch': True}
    if draw(st.integers(0, 6)) == 0:
        blk['op'], blk['notif'] = 'until', (['delay', draw(st.sampled_from([0.5, 1, 2, 3]))] if draw(st.booleans()) else ['flag', 0])
    ctl = {'name': 'ctl', 'steps': [{'op': 'at_eq', 't': start + draw(st.sampled_from([0.5, 1, 2]))}] +
           [{'op': 'instant'} for _ in range(draw(st.integers(0, 3)))] + [{'op': 'set_flag', 'i': 0, 'v': True}]}
    fin = {'name': 'fin', 'steps': [{'op': 'at_ge', 't': 500}, {'op': 'cclose', 's': 0}, {'op': 'cget', 's': 0},
                                    {'op': 'cput', 's': 0, 'v': 9999}]}
    oc = {'name': 'oc', 'steps': [{'op': 'sleep', 'd': draw(st.sampled_from([0, 0.5, 1]))},
                                  {'op': 'citer', 's': 0, 'n': None, 'gap': draw(st.sampled_from([None, 1, 3, 'tick']))}]}
    roots = [{'name': 'r0', 'steps': [blk]}, ctl]
    if draw(st.booleans()):
        roots.insert(draw(st.integers(0, 1)), oc)
    roots.append(fin)
    prog = {'start': start, 'objs': {'channels': 1, 'flags': 1}, 'roots': roots}
    targets = [k['name'] for k in kids if k['name'].startswith('c')] or [kids[0]['name']]
    if big and draw(st.integers(0, 2)) == 0:
        faults = 'all'
    else:
        faults = draw(st.lists(st.fixed_dictionaries({'k': st.integers(0, 120), 'target': st.sampled_from(targets),
                                                      'token': st.just([1])}), max_size=5))
    return {'prog': prog, 'targets': targets, 'faults': faults, 'ctl_sweep': big and draw(st.integers(0, 2)) == 0}


def judge(out, prog, it, oc, exc, ctx):
    # the `closed` property: false until somebody closes the stream, true from the moment close() is called
    closes = [e for e in it.log if e[0] <= it.end_seq and e[3] in ('close_begin', 'close_ok')]
    for n, e in enumerate(closes):
        earlier = any(c[3] == 'close_begin' for c in closes[:n])
        if e[3] == 'close_ok' and e[5] is not True:
            out.fail('closed_property', 'false_after_close', '%s%s: closed is %r after close();%s' % (e[1], e[2], e[5], ctx))
        elif e[3] == 'close_begin' and e[5] != earlier:
            out.fail('closed_property', 'wrong_before_close', '%s%s: closed is %r before close() (closed earlier: %s);%s' % (
                e[1], e[2], e[5], earlier, ctx))
    if oc != 'ok':
        out.fail('run_outcome', ('exc:' + type(exc).__name__) if oc == 'exc' else oc, '%r;%s' % (exc, ctx))
        return
    fe = foreign_exception(it.log, it.end_seq)
    if fe:
        out.fail('run_outcome', 'activity_exc:%s' % fe[1][1], '%s%s ended with %r, which the program did not raise;%s' % (
            fe[0][1], fe[0][2], fe[1], ctx))
    fin_root = next((r for r in prog['roots'] if r['name'] == 'fin'), None)
    if fin_root is None or not any(s_['op'] == 'cclose' for s_ in fin_root['steps']) or fin_root['steps'][0]['op'] != 'at_ge':
        raise InvalidCase('the final close + drain of the stream is part of every case')      # (shrinking removes it)
    S = Structure(prog)
    log = [e for e in it.log if e[0] <= it.end_seq]
    cops = ('cput', 'cget', 'citer', 'cclose')
    cache = {}

    def isc(e):
        key = (e[1], e[2])
        if key not in cache:
            try:
                cache[key] = S.step_at(e[1], e[2]).get('op')
            except Exception:
                cache[key] = None
        return cache[key] in cops
    ev = [e for e in log if isc(e)]
    closes = [e[0] for e in ev if e[3] == 'close_begin']
    first_close = min(closes) if closes else None
    puts = []        # (seq, item) of accepted puts in order
    refused = set()
    for e in ev:
        if e[3] == 'put_refused':
            refused.add(e[5])
            if first_close is None or e[0] < first_close:
                out.fail('closed', 'refused_while_open', 'put(%r) refused before any close;%s' % (e[5], ctx))
    for e in ev:
        if e[3] == 'put_begin' and e[5] not in refused:
            if first_close is not None and e[0] > first_close:
                if any(x[3] == 'put_ok' and x[5] == e[5] for x in ev):
                    out.fail('closed', 'put_accepted_after_close', 'put(%r) on a closed channel succeeded;%s' % (e[5], ctx))
                continue
            puts.append((e[0], e[5]))
    fins = {e[1] for e in log if e[3] == 'fin'}
    # group events per consumer step
    steps = {}
    for e in ev:
        if cache[(e[1], e[2])] in ('cget', 'citer'):
            steps.setdefault((e[1], e[2]), []).append(e)
    nsub = 0
    for (act, idx), es in steps.items():
        op = cache[(act, idx)]
        if op == 'cget':
            b = [e for e in es if e[3] == 'get_begin']
            if not b:
                continue
            sub = b[0][0]
            nsub += 1
            res = [e for e in es if e[3] in ('got', 'get_closed')]
            after = [p for p in puts if p[0] > sub]
            if not res:
                if act not in fins:
                    out.fail('liveness', 'waiter_stuck', '%s%s still waiting after the channel was closed;%s' % (act, idx, ctx))
                continue
            r = res[0]
            if r[3] == 'got':
                if not after or after[0][1] != r[5] or after[0][0] > r[0]:
                    out.fail('single', 'wrong_message', '`await channel` at seq %d returned %r, first put after it was %r;%s' % (
                        sub, r[5], after[0] if after else None, ctx))
            else:
                if first_close is None or first_close > r[0]:
                    out.fail('closed', 'closed_signal_while_open', '%s%s raised StreamClosed before close;%s' % (act, idx, ctx))
                elif any(p[0] < r[0] for p in after):
                    out.fail('closed', 'message_lost_at_close', '`await channel` since seq %d raised StreamClosed although %r '
                             'was put meanwhile;%s' % (sub, [p for p in after if p[0] < r[0]], ctx))
        else:
            b = [e for e in es if e[3] == 'iter_begin']
            if not b:
                continue
            node = S.step_at(act, idx)
            if node.get('n') == 0:
                continue
            sub = b[0][0]
            nsub += 1
            got = [e for e in es if e[3] == 'got']
            items = [e[5] for e in got]
            end = [e for e in es if e[3] == 'iter_end']
            outp = [e for e in es if e[3] == 'iter_out']
            stop = (end or outp or [None])[0]
            upto = stop[0] if stop is not None else it.end_seq + 1
            window = [p for p in puts if sub < p[0] < upto]
            want = [p[1] for p in window]
            # every delivery happens after its put, in put order, without duplicates
            if items != want[:len(items)]:
                if len(set(items)) != len(items):
                    sig = 'duplicate'
                elif sorted(items) == sorted(want[:len(items)]):
                    sig = 'out_of_order'
                else:
                    sig = 'skipped_or_foreign'
                out.fail('broadcast', sig, '%s%s subscribed at seq %d received %r, puts since then %r;%s' % (
                    act, idx, sub, items, want, ctx))
                continue
            full = end and (node.get('n') is None or end[0][5] < node['n'])
            if full:
                # ran to the end of the stream: exactly everything put while subscribed
                if first_close is None or first_close > end[0][0]:
                    out.fail('closed', 'iteration_ended_while_open', '%s%s ended before close;%s' % (act, idx, ctx))
                # messages put before the close (the consumer keeps receiving buffered ones)
                want_all = [p[1] for p in puts if sub < p[0] and (first_close is None or p[0] < first_close)]
                want_all = [w for w in want_all]
                if items != want_all:
                    out.fail('broadcast', 'incomplete', '%s%s iterated to the end but got %r of %r;%s' % (act, idx, items, want_all, ctx))
            elif not end and not outp:
                if act not in fins:
                    out.fail('liveness', 'waiter_stuck', '%s%s still iterating after the channel was closed;%s' % (act, idx, ctx))
            elif node.get('n') is not None and end and end[0][5] >= node['n']:
                out.features.add('early_break')
            else:
                out.features.add('consumer_interrupted')
    if nsub >= 2:
        out.features.add('consumers>=2')
    return nsub


class C11(Check):
    pid = 'C11'
    level = 'fault_enumeration'
    rule = ('[also: negative start times, consumers paced by absolute dates, prepared puts, falsy messages (None, 0, ""), a second '
            'subscription inside an iteration, close() by another activity in the step of the last put] '
            '1-2 producers and 1-4 consumers of one Channel: iterating consumers with per-message processing delay '
            '(slow/fast), bounded iteration (early break), single `await channel`, consumers inside until(); '
            'subscription points before/between/in the same turn as puts; optional enclosing until(), an outside '
            'consumer, final close; Task.cancel injected at sampled (thorough: all) boundaries of the consumers. '
            'non-trivial = >=2 subscriptions with a consumer interrupted/cancelled/leaving early while others '
            'continue, or different subscription points; distinct by sha1(program+faults). Also long streams (140-300 messages through '
            'one subscription; a consumer lagging behind, one joining late).')
    budgets = {'quick': dict(examples=2000, procs=4), 'thorough': dict(examples=16000, procs=16)}
    level_text = ('For every consumer of every generated history (and every injected cancel) the received sequence is '
                  'compared with the exact expected one: all accepted puts between its subscription and its leaving, '
                  'in order, once; a consumer that ran to end-of-stream got all of them; `await channel` returns the '
                  'first put after it started; close semantics; nobody left waiting after close.')
    level_note = 'Subscription point = the log entry immediately before `async for` / `await`; put = entry immediately before put().'
    technique = 'property-based testing with boundary fault injection; per-consumer expected-sequence oracle from the logged history'
    design_ref = 'DESIGN.md section 4, C11'

    def strategy(self, tier):
        return cases(tier)

    def run_case(self, case, tier='quick'):
        out = Outcome()
        prog = case['prog']
        mk = lambda: Probe(b_step=4000, b_total=40000)  # noqa
        it, oc, exc, p = execute(prog, mk())
        it0 = it
        out.evals = 1
        n = judge(out, prog, it, oc, exc, ' faults=None') or 0
        N = p.k
        if case['faults'] == 'all':
            plan = [[{'k': k, 'target': t, 'token': [1]}] for t in case['targets'] for k in range(N + 1)][:1500]
        else:
            plan = [[dict(f, k=f['k'] % (N + 1))] for f in case['faults']]
        for faults in plan:
            it, oc, exc, p = execute(prog, mk(), faults=faults)
            out.evals += 1
            judge(out, prog, it, oc, exc, ' faults=%r' % (faults,))
        if n >= 2 and ({'consumer_interrupted', 'early_break'} & out.features or n >= 3):
            out.nontrivial = True
        if case.get('ctl_sweep'):
            # until-interrupt / forceful close placed in every round of every time step of the run
            from vlib.gen import ctl_variants
            for q in ctl_variants(prog, it0):
                it, oc, exc, p = execute(q, mk())
                out.evals += 1
                judge(out, q, it, oc, exc, ' ctl=%r' % ([r['steps'] for r in q['roots'] if r['name'] == 'ctl'][0][:1] + ['x%d' % (len([r for r in q['roots'] if r['name'] == 'ctl'][0]['steps']) - 2)],))
            out.features.add('ctl_sweep')
        return out


CHECK = C11()
