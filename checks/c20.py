"""C20 - every awaitable operation yields to the other runnable activities at least once.

A table of (operation x state in which it can complete without waiting) is enumerated
exhaustively x number of competing spinners x position of the operation; Hypothesis adds
parameter variety.  Oracle: between start and normal completion of the operation either the
clock advanced or every still-runnable spinner had at least one turn.
"""
import itertools
import sys
import warnings
from hypothesis import strategies as st

import usim
from usim import (time, instant, Scope, until, Flag, Tracked, Lock, Queue, Channel, Capacities, Resources,
                  Pipe, UnboundedPipe, interval, delay, collect, first)

from vlib.runner import Check, Outcome, InvalidCase
from vlib.probe import Probe, run_probed

SPIN_TURNS = 40


class Ctx:
    def __init__(self, k, params):
        self.counters = [0] * k
        self.done = [False] * k
        self.marks = []
        self.p = params

    def respin(self, scope):
        """fresh competitors for operations that are reached only after time has passed (the root spinners are done)"""
        for j in range(len(self.counters)):
            if self.done[j]:
                self.done[j] = False
                scope.do(spinner(self, j), volatile=True)

    def mark(self, label):
        self.marks.append((label, time.now, list(self.counters), list(self.done)))


async def _ret(v):
    return v


async def _noop():
    pass


async def _sleep(d):
    await (time + d)


# --------------------------------------------------------------------------
# the table: name -> async fn(c) calling c.mark('<seg>:s') / c.mark('<seg>:e') around each operation
OPS = {}


def op(name):
    def deco(fn):
        OPS[name] = fn
        return fn
    return deco


def simple(name, setup, action):
    async def fn(c):
        obj = await setup(c)
        c.mark('op:s')
        await action(c, obj)
        c.mark('op:e')
    OPS[name] = fn


async def _set_flag(c):
    f = Flag()
    await f.set()
    return f

simple('await_set_flag', _set_flag, lambda c, f: _aw(f))
simple('await_inverted_unset_flag', lambda c: _mk(Flag()), lambda c, f: _aw(~f))
simple('await_double_inverted_flag', _set_flag, lambda c, f: _aw(~~f))


async def _aw(x):
    return await x


async def _mk(x):
    return x


async def _two_flags(c):
    a, b = Flag(), Flag()
    await a.set()
    await b.set()
    return a, b

simple('await_true_and', _two_flags, lambda c, ab: _aw(ab[0] & ab[1]))
simple('await_true_or', _two_flags, lambda c, ab: _aw(ab[0] | ~ab[1]))
simple('await_true_nested_connective', _two_flags, lambda c, ab: _aw((ab[0] & ab[1]) | ~ab[0]))
simple('await_true_comparison', lambda c: _mk(Tracked(c.p['v'])), lambda c, t: _aw(t == c.p['v']))
simple('await_true_comparison_ge', lambda c: _mk(Tracked(c.p['v'])), lambda c, t: _aw(t >= c.p['v'] - 1))
simple('await_true_comparison_tracked', lambda c: _mk((Tracked(c.p['v']), Tracked(c.p['v']))),
       lambda c, ts: _aw(ts[0] <= ts[1]))
simple('await_inverted_comparison', lambda c: _mk(Tracked(c.p['v'])), lambda c, t: _aw(~(t != c.p['v'])))
simple('await_time_ge_past', lambda c: _mk(None), lambda c, _: _aw(time >= time.now - 1))
simple('await_time_ge_now', lambda c: _mk(None), lambda c, _: _aw(time >= time.now))
simple('await_time_eq_now', lambda c: _mk(None), lambda c, _: _aw(time == time.now))
simple('await_time_lt_future', lambda c: _mk(None), lambda c, _: _aw(time < time.now + 5))
simple('await_instant', lambda c: _mk(None), lambda c, _: _aw(instant))
simple('await_time_plus_0', lambda c: _mk(None), lambda c, _: _aw(time + 0))
simple('await_resource_comparison', lambda c: _mk(Resources(a=c.p['amount'] + 1)), lambda c, r: _aw(r >= {'a': 1}))


@op('await_done_task_and_done')
async def _(c):
    async with Scope() as s:
        t = s.do(_ret(5))
        await t.done
        c.mark('task:s')
        await t
        c.mark('task:e')
        c.mark('done:s')
        await t.done
        c.mark('done:e')
        c.mark('notnotdone:s')
        await (~~t.done)
        c.mark('notnotdone:e')


async def _boom():
    raise KeyError('boom')


@op('await_failed_and_cancelled_task')
async def _(c):
    # the outcome of a finished task is delivered by raising: that, too, is a completed wait
    from usim import Concurrent, TaskCancelled
    tasks = {}
    try:
        async with Scope() as s:
            tasks['f'] = s.do(_boom())
    except Concurrent:
        pass
    async with Scope() as s:
        tasks['c'] = s.do(_ret(1))
        tasks['c'].cancel('token')
    for label, exc_type in (('failed', KeyError), ('cancelled', TaskCancelled)):
        t = tasks[label[0]]
        c.mark(label + ':s')
        try:
            await t
        except exc_type:
            pass
        c.mark(label + ':e')
        c.mark(label + '_done:s')
        await t.done
        c.mark(label + '_done:e')


@op('await_ended_scope')
async def _(c):
    async with Scope() as s:
        pass
    c.mark('op:s')
    await s
    c.mark('op:e')


@op('flag_set')
async def _(c):
    f = Flag()
    c.mark('changing:s')
    await f.set()
    c.mark('changing:e')
    c.mark('same:s')
    await f.set()
    c.mark('same:e')
    c.mark('unset:s')
    await f.set(False)
    c.mark('unset:e')
    c.mark('unset_same:s')
    await f.set(False)
    c.mark('unset_same:e')
    c.mark('via_inverse:s')
    await (~f).set(False)
    c.mark('via_inverse:e')


@op('tracked_set_and_operators')
async def _(c):
    t = Tracked(c.p['v'])
    for label, mk in (('set_new', lambda: t.set(c.p['v'] + 1)), ('set_same', lambda: t.set(t.value)),
                      ('add0', lambda: t + 0), ('add1', lambda: t + 1), ('sub', lambda: t - 2),
                      ('mul1', lambda: t * 1), ('floordiv', lambda: t // 1)):
        c.mark(label + ':s')
        await mk()
        c.mark(label + ':e')


class _Tally:
    """a user's value type: mutable (hence unhashable: it defines `__eq__`), its operators update and return the object itself"""
    def __init__(self, n):
        self.n = n

    def __eq__(self, other):
        return isinstance(other, _Tally) and other.n == self.n

    __hash__ = None

    def __add__(self, k):
        self.n += k
        return self

    def __ge__(self, k):
        return self.n >= k


@op('tracked_user_value_type')
async def _(c):
    # the tracked value is an object of the user's own: set / operators are updates like any other
    t = Tracked(_Tally(c.p['v']))
    for label, mk in (('add_in_place', lambda: t + 1), ('add_zero', lambda: t + 0), ('set_same_object', lambda: t.set(t.value)),
                      ('set_equal_object', lambda: t.set(_Tally(t.value.n)))):
        c.mark(label + ':s')
        await mk()
        c.mark(label + ':e')


@op('queue_ops')
async def _(c):
    q = Queue()
    c.mark('put:s')
    await q.put(1)
    c.mark('put:e')
    await q.put(2)
    c.mark('get_buffered:s')
    await q
    c.mark('get_buffered:e')
    c.mark('iter_buffered:s')
    async for _ in q:
        c.mark('iter_buffered:e')
        break
    await q.put(3)
    c.mark('close_open:s')
    await q.close()
    c.mark('close_open:e')
    c.mark('close_closed:s')
    await q.close()
    c.mark('close_closed:e')
    c.mark('get_buffered_closed:s')
    await q
    c.mark('get_buffered_closed:e')


@op('channel_ops')
async def _(c):
    ch = Channel()
    c.mark('put_no_consumer:s')
    await ch.put(1)
    c.mark('put_no_consumer:e')
    c.mark('close_open:s')
    await ch.close()
    c.mark('close_open:e')
    c.mark('close_closed:s')
    await ch.close()
    c.mark('close_closed:e')


@op('iterate_closed_streams')
async def _(c):
    q, ch = Queue(), Channel()
    await q.close()
    await ch.close()
    c.mark('queue_iter_closed:s')
    async for _ in q:
        pass
    c.mark('queue_iter_closed:e')
    c.mark('channel_iter_closed:s')
    async for _ in ch:
        pass
    c.mark('channel_iter_closed:e')


def _resource_ops(kind, how):
    async def fn(c):
        cls = Capacities if kind == 'cap' else Resources
        r = cls(a=c.p['amount'] + 2, b=3)
        am = {'a': c.p['amount']}
        ctxm = r.borrow(**am) if how == 'borrow' else r.claim(**am)
        c.mark('enter:s')
        async with ctxm as h:
            c.mark('enter:e')
            if c.p['amount'] > 0:
                c.mark('nested_enter:s')
                async with h.borrow(a=c.p['amount']):
                    c.mark('nested_enter:e')
                    c.mark('nested_leave:s')
                c.mark('nested_leave:e')
            c.mark('leave:s')
        c.mark('leave:e')
    return fn


for _kind in ('cap', 'res'):
    for _how in ('borrow', 'claim'):
        OPS['%s_%s_available' % (_how, _kind)] = _resource_ops(_kind, _how)


@op('resources_increase_decrease_set')
async def _(c):
    r = Resources(a=5, b=1)
    for label, mk in (('increase', lambda: r.increase(a=c.p['amount'])), ('decrease', lambda: r.decrease(a=c.p['amount'])),
                      ('increase0', lambda: r.increase(a=0)), ('decrease0', lambda: r.decrease(b=0)),
                      ('set', lambda: r.set(a=c.p['amount'])), ('set_same', lambda: r.set(a=c.p['amount']))):
        c.mark(label + ':s')
        await mk()
        c.mark(label + ':e')


@op('pipe_transfers')
async def _(c):
    p, u = Pipe(c.p['thr']), UnboundedPipe()
    for label, mk in (('bounded_zero', lambda: p.transfer(0)), ('bounded_zero_limit', lambda: p.transfer(0, c.p['thr'] / 2)),
                      ('unbounded_v', lambda: u.transfer(abs(c.p['v']) + 1)), ('unbounded_zero', lambda: u.transfer(0)),
                      ('unbounded_zero_limit', lambda: u.transfer(0, 1)),
                      ('unbounded_inf_limit', lambda: u.transfer(abs(c.p['v']) + 1, float('inf')))):
        c.mark(label + ':s')
        await mk()
        c.mark(label + ':e')


def _ticker(fn, name):
    async def f(c):
        n = 0
        c.mark('step0:s')
        async for _ in fn(0):
            c.mark('step%d:e' % n)
            n += 1
            if n >= 3:
                break
            c.mark('step%d:s' % n)
    OPS[name] = f


_ticker(interval, 'interval0_steps')
_ticker(delay, 'delay0_steps')


@op('interval_body_used_whole_period')
async def _(c):
    # the loop body took exactly the period: the next step is due at once
    p = c.p['thr']
    n = 0
    async with Scope() as s:
        async for _ in interval(p):
            if n:
                c.mark('step%d:e' % n)
            n += 1
            if n >= 4:
                break
            await (time + p)
            c.respin(s)
            c.mark('step%d:s' % n)


@op('channel_iteration_with_buffered_messages')
async def _(c):
    # a slow consumer: several messages (and the close) arrive while it processes the first one
    ch = Channel()

    async def produce():
        await ch.put(0)
        await (time + 0.5)
        for i in (1, 2, 3):
            await ch.put(i)
        await ch.close()
    async with Scope() as s:
        s.do(produce())
        n = 0
        async for _ in ch:
            if n:
                c.mark('step%d:e' % n)
            n += 1
            if n == 1:
                await (time + 1)
                c.respin(s)
            c.mark('step%d:s' % n)
        c.mark('step%d:e' % n)         # the end of the iteration (closed and drained) is a step, too


@op('channel_iteration_far_behind')
async def _(c):
    # a consumer that has fallen a hundred messages behind: every step of catching up is a step like any other
    ch = Channel()

    async def produce():
        await ch.put(0)
        await (time + 0.5)
        for i in range(1, 101):
            await ch.put(i)
        await ch.close()
    async with Scope() as s:
        s.do(produce())
        n = 0
        async for _ in ch:
            if n in (1, 2, 70, 71, 100):
                c.mark('step%d:e' % n)
            n += 1
            if n == 1:
                await (time + 1)
            if n in (1, 2, 70, 71, 100):
                c.respin(s)
                c.mark('step%d:s' % n)


@op('queue_iteration_with_buffered_messages')
async def _(c):
    q = Queue()

    async def produce():
        await q.put(0)
        await (time + 0.5)
        for i in (1, 2, 3):
            await q.put(i)
        await q.close()
    async with Scope() as s:
        s.do(produce())
        n = 0
        async for _ in q:
            if n:
                c.mark('step%d:e' % n)
            n += 1
            if n == 1:
                await (time + 1)
                c.respin(s)
            c.mark('step%d:s' % n)
        c.mark('step%d:e' % n)


@op('retry_after_the_same_operation_was_interrupted')
async def _(c):
    # the first attempt is interrupted at its first break point (an until() whose flag is already set); whatever that
    # leaves behind must not let the second attempt complete without yielding
    q = Queue()
    await q.put(1)
    await q.put(2)
    ch_flag, t, r = Flag(), Tracked(1), Resources(a=2)
    await ch_flag.set()

    async def borrow():
        async with r.borrow(a=1):
            pass
    for label, mk in (('queue_get', lambda: _aw(q)), ('queue_put', lambda: q.put(3)), ('await_flag', lambda: _aw(ch_flag)),
                      ('tracked_set', lambda: t.set(5)), ('borrow', borrow), ('increase', lambda: r.increase(a=1)),
                      ('instant', lambda: _aw(instant))):
        f = Flag()
        await f.set()
        async with until(f):
            await mk()
        c.mark(label + ':s')
        await mk()
        c.mark(label + ':e')


async def _guard(cond):
    async with until(cond):
        await usim.eternity


async def _set_later(f, d):
    await (time + d)
    await f.set()


@op('await_watched_connective_turned_true_in_this_step')
async def _(c):
    # the same connective object is being waited for by someone else (until) and has just become true:
    # its helper activity has not reacted yet
    for label, mk, turns in (('or', lambda a, b: a | b, 1), ('and', lambda a, b: a & ~b, 1),
                             ('nested', lambda a, b: (a & ~b) | b, 1), ('or_later', lambda a, b: a | b, 2),
                             ('and_later', lambda a, b: a & ~b, 3)):
        a, b = Flag(), Flag()
        cond = mk(a, b)
        async with Scope() as s:
            s.do(_guard(cond), volatile=True)
            s.do(_set_later(a, 1))
            await (time + 1)
            for _ in range(turns):
                await instant          # the setter runs in between
            c.respin(s)
            c.mark(label + ':s')
            await cond
            c.mark(label + ':e')


@op('collect_nothing_and_finished')
async def _(c):
    c.mark('nothing:s')
    await collect()
    c.mark('nothing:e')
    c.mark('immediate:s')
    await collect(_ret(1), _ret(2))
    c.mark('immediate:e')


@op('first_steps')
async def _(c):
    c.mark('count0:s')
    async for _ in first(_ret(1), count=0):
        pass
    c.mark('count0:e')
    c.mark('step:s')
    async for _ in first(_ret(1), _ret(2), count=2):
        c.mark('step:e')
        c.mark('step:s')
    c.mark('step:e')
    c.mark('none_of_none:s')
    async for _ in first(count=None):
        pass
    c.mark('none_of_none:e')


@op('leave_empty_blocks')
async def _(c):
    async with Scope():
        c.mark('scope:s')
    c.mark('scope:e')
    async with until(time + 100):
        c.mark('until:s')
    c.mark('until:e')
    f = Flag()
    async with until(f):
        c.mark('until_flag:s')
    c.mark('until_flag:e')
    async with Scope() as s:
        t = s.do(_noop())
        await t
        c.mark('scope_finished_child:s')
    c.mark('scope_finished_child:e')
    # children that never ran: cancelled before their first turn, volatile, due later
    async with Scope() as s:
        s.do(_noop()).cancel()
        c.mark('scope_cancelled_child:s')
    c.mark('scope_cancelled_child:e')
    async with Scope() as s:
        s.do(_noop()).cancel()
        s.do(_noop()).cancel(1)
        s.do(_sleep(5), volatile=True)
        c.mark('scope_cancelled_children_and_volatile:s')
    c.mark('scope_cancelled_children_and_volatile:e')
    async with until(time + 100) as s:
        s.do(_sleep(3), after=2).cancel()
        c.mark('until_cancelled_delayed_child:s')
    c.mark('until_cancelled_delayed_child:e')
    async with Scope() as s:
        s.do(_sleep(5), volatile=True)
        c.mark('scope_volatile_only:s')
    c.mark('scope_volatile_only:e')
    # a child has failed already (with the TaskCancelled of a task it awaited: the block still ends normally) when the
    # body, resumed by an older wake-up, ends
    async with Scope() as s:
        victim = s.do(_sleep(5))
        victim.cancel()

        async def dies_of_it():
            await victim
        s.do(dies_of_it())
        await instant
        await instant
        c.mark('scope_child_failed_before_exit:s')
    c.mark('scope_child_failed_before_exit:e')
    # the block's own notification fires while the body is postponed for the last time: when the body ends, the
    # interrupt is queued already - the block still ends normally, and leaving it still yields
    g = Flag()
    c.counters.append(0)
    c.done.append(False)
    me = len(c.counters) - 1

    async def setter():
        # a competitor of its own: it is runnable (postponed by `set`) when the block is left
        await g.set()
        c.counters[me] += 1
        c.done[me] = True
    async with Scope() as outer:
        async with until(g):
            outer.do(setter())
            await instant
            c.mark('until_interrupt_pending_at_exit:s')
        c.mark('until_interrupt_pending_at_exit:e')


POSITIONS = ('root', 'child', 'until', 'lock', 'after_interrupt')


async def spinner(c, j):
    try:
        for _ in range(SPIN_TURNS):
            c.counters[j] += 1
            await instant
    finally:
        c.done[j] = True        # (also when a re-spawned, volatile spinner is closed with its scope)


async def subject(c, name, position):
    fn = OPS[name]
    if position == 'root':
        await fn(c)
    elif position == 'child':
        async with Scope() as s:
            s.do(fn(c))
    elif position == 'until':
        async with until(time + 1000):
            await fn(c)
    elif position == 'lock':
        lk = Lock()
        async with lk:
            await fn(c)
    elif position == 'after_interrupt':
        # the activity has just been interrupted at a postponement (until() on an already set flag)
        f = Flag()
        await f.set()
        async with until(f):
            await instant
        await fn(c)
    else:
        raise InvalidCase(position)


class C20(Check):
    pid = 'C20'
    level = 'exploration'
    exhaustive = True
    rule = ('Exhaustive table: %d operation groups (each with several immediately-completable states, ~90 '
            'operation/state segments in total) x 1..4 competing bounded spinners x position of the operation '
            '(root, child task, inside until(), inside a lock) x start time {0, -3.5}; Hypothesis adds parameter '
            'variety (values, amounts, throughputs). A segment is non-trivial if the clock did not advance '
            '(the operation completed within one time step); distinct by (case, segment). exhaustive=true refers '
            'to the table.') % len(OPS)
    budgets = {'quick': dict(examples=300, procs=4), 'thorough': dict(examples=200000, procs=16)}
    level_text = ('For every listed operation in every state where it can complete without waiting, the activations '
                  'between its start and its completion are inspected: either the clock advanced or every other '
                  'runnable activity had a turn. The table is enumerated completely; parameters are sampled.')
    level_note = ('Lock acquisition and *entering* a scope are not in the statement and are not checked; operations '
                  'refused with a documented error do not complete and need not yield.')
    technique = 'exhaustive enumeration of an operation x state table (plus Hypothesis parameter variety) with a spinner-turn oracle'
    design_ref = 'DESIGN.md section 5, C20'

    def enumerate(self, tier):
        for name, k, pos, start in itertools.product(sorted(OPS), (1, 2, 3, 4), POSITIONS, (0, -3.5)):
            yield {'op': name, 'k': k, 'pos': pos, 'start': start, 'p': {'v': 3, 'amount': 1, 'thr': 2}}

    def strategy(self, tier):
        return st.fixed_dictionaries({
            'op': st.sampled_from(sorted(OPS)), 'k': st.integers(1, 4), 'pos': st.sampled_from(POSITIONS),
            'start': st.sampled_from([0, 1.5, -2, 10]),
            'p': st.fixed_dictionaries({'v': st.integers(-3, 9), 'amount': st.integers(0, 4),
                                        'thr': st.sampled_from([0.5, 1, 2, 8])})})

    def run_case(self, case, tier='quick'):
        out = Outcome()
        warnings.simplefilter('ignore')          # e.g. 'coroutine was never awaited' of refused operations
        sys.unraisablehook = lambda u: None
        if case['op'] not in OPS:
            raise InvalidCase('unknown op')
        pp = case['p']
        if not (pp['thr'] > 0 and pp['amount'] >= 0 and 1 <= case['k'] <= 8):
            raise InvalidCase('parameters outside the documented domain')
        c = Ctx(case['k'], case['p'])
        roots = [subject(c, case['op'], case['pos'])] + [spinner(c, j) for j in range(case['k'])]
        outcome, exc, p = run_probed(roots, start=case['start'], probe=Probe(b_step=5000, b_total=50000))
        for r in roots:
            r.close()
        out.evals = 1
        if outcome != 'ok':
            out.fail('run_outcome', '%s:%s' % (outcome, type(exc).__name__), '%r in %s' % (exc, case))
            return out
        opened = {}
        nseg = 0
        for (label, now, counters, done) in c.marks:
            seg, which = label.rsplit(':', 1)
            if which == 's':
                opened[seg] = (now, counters, done)
                continue
            if seg not in opened:
                continue
            t0, c0, d0 = opened.pop(seg)
            nseg += 1
            if now != t0:
                continue
            out.nt_keys.add(seg)
            starved = [j for j in range(len(c0)) if not d0[j] and counters[j] == c0[j]]      # (an operation may add a competitor)
            if starved:
                out.fail('yield', '%s/%s' % (case['op'], seg),
                         '%s [%s] at position %s with %d spinners completed at t=%r without letting spinner(s) %r run' % (
                             case['op'], seg, case['pos'], case['k'], now, starved))
        if opened and not out.failures:
            out.fail('harness', 'segment_not_closed:%s' % sorted(opened)[0], 'operation did not complete: %s' % case)
        out.features.add('pos_' + case['pos'])
        return out


CHECK = C20()
