"""C08 - awaiting a condition returns only when it is true, and is never missed."""
import operator
from hypothesis import strategies as st

from vlib.runner import Check, Outcome, InvalidCase
from vlib.interp import execute, num
from vlib.probe import Probe

OPS = {'<': operator.lt, '<=': operator.le, '==': operator.eq, '!=': operator.ne, '>=': operator.ge, '>': operator.gt}
GRID = st.integers(0, 24).map(lambda x: x / 4)


def ev(e, state, now, hd_done):
    k = e[0]
    if k == 'flag':
        return state['f'][e[1]]
    if k == 'not':
        return not ev(e[1], state, now, hd_done)
    if k == 'and':
        return ev(e[1], state, now, hd_done) and ev(e[2], state, now, hd_done)
    if k == 'or':
        return ev(e[1], state, now, hd_done) or ev(e[2], state, now, hd_done)
    if k == 'tcmp':
        return OPS[e[2]](state['t'][e[1]], e[3])
    if k == 'tcmp2':
        return OPS[e[2]](state['t'][e[1]], state['t'][e[3]])
    if k == 'rcmp':
        # documented: elementwise over *every* kind of the resource, kinds that are not named count as zero
        if e[2] == '!=':
            return not all(state['r'][f] == e[3].get(f, 0) for f in state['r'])
        return all(OPS[e[2]](state['r'][f], e[3].get(f, 0)) for f in state['r'])
    if k == 'done':
        return hd_done
    if k == 'time_ge':
        return now >= num(e[1])
    if k == 'time_lt':
        return now < num(e[1])
    if k == 'time_eq':
        return now == num(e[1])
    if k == 'instant':
        return True
    if k == 'eternity':
        return False
    raise InvalidCase(repr(e))


def dates(e, acc):
    if e[0] in ('and', 'or'):
        dates(e[1], acc)
        dates(e[2], acc)
    elif e[0] == 'not':
        dates(e[1], acc)
    elif e[0] in ('time_ge', 'time_lt', 'time_eq'):
        acc.add(num(e[1]))
    return acc


def shape(e):
    """nesting class of an expression (for signatures / exclusions)"""
    if e[0] in ('and', 'or'):
        kids = [e[1], e[2]]
        inner = [k for k in kids if k[0] in ('and', 'or') and k[0] != e[0]]
        inner += [k for k in kids if k[0] == 'not' and k[1][0] in ('and', 'or')]
        if inner:
            return 'nested_mixed'
        if any(k[0] in ('and', 'or') for k in kids):
            return 'nested_same'
        return 'flat'
    if e[0] == 'not' and e[1][0] in ('and', 'or'):
        return 'negated_' + shape(e[1])
    return 'atom'


def has_moment(e):
    if e[0] in ('and', 'or'):
        return has_moment(e[1]) or has_moment(e[2])
    if e[0] == 'not':
        return has_moment(e[1])
    return e[0] == 'time_eq'


@st.composite
def cases(draw, tier):
    big = tier == 'thorough'
    nflags, ntr = 3, 2
    decimal = draw(st.integers(0, 4)) == 0        # one-decimal dates: not representable, additions round
    GR = st.integers(0, 60).map(lambda x: x / 10) if decimal else GRID

    def atom():
        k = draw(st.integers(0, 13))
        if decimal and draw(st.booleans()):
            k = draw(st.sampled_from([11, 11, 12]))        # mostly date conditions in the decimal mode
        if k < 4:
            return ['flag', draw(st.integers(0, nflags - 1))]
        if k < 6:
            return ['not', ['flag', draw(st.integers(0, nflags - 1))]]
        if k < 8:
            return ['tcmp', draw(st.integers(0, ntr - 1)), draw(st.sampled_from(sorted(OPS))), draw(st.integers(0, 3))]
        if k < 9:
            return ['tcmp2', 0, draw(st.sampled_from(sorted(OPS))), 1]
        if k < 10:
            lv = {'a': draw(st.integers(0, 3))}
            if draw(st.booleans()):
                lv['b'] = draw(st.integers(0, 3))          # several kinds: the comparison holds iff it holds for every kind
            rc = ['rcmp', 'R', draw(st.sampled_from(['>=', '<=', '==', '>', '<', '!='])), lv]
            if draw(st.integers(0, 2)) == 0:
                rc.append('obj')
            return ['not', rc] if draw(st.integers(0, 2)) == 0 else rc
        if k < 11:
            return ['done', 'hd'] if draw(st.booleans()) else ['not', ['done', 'hd']]
        if k < 12:
            return [draw(st.sampled_from(['time_ge', 'time_lt'])), draw(GR)]
        if k < 13:
            return ['time_eq', draw(GR)]
        return ['instant'] if draw(st.booleans()) else ['eternity']

    def expr(depth):
        if depth == 0 or draw(st.integers(0, 2)) == 0:
            return atom()
        e = [draw(st.sampled_from(['and', 'or'])), expr(depth - 1), expr(depth - 1)]
        if draw(st.integers(0, 5)) == 0 and not has_moment(e):
            return ['not', e]
        return e

    exprs = [expr(3 if big else draw(st.integers(1, 3))) for _ in range(draw(st.integers(1, 3)))]
    if decimal:
        # plain date conditions awaited from many different (non-representable) clock values
        exprs += [[draw(st.sampled_from(['time_ge', 'time_ge', 'time_eq'])), draw(st.integers(20, 60)) / 10]
                  for _ in range(draw(st.integers(1, 2)))]
    waiters = []
    # condition *objects* shared by several waits (by several waiters, or by one waiter again later)
    conds = [x for x in exprs if draw(st.integers(0, 2)) == 0]

    def pick():
        x = exprs[draw(st.integers(0, len(exprs) - 1))]
        if x in conds and draw(st.booleans()):
            return ['named', conds.index(x)]
        return x
    for j in range(draw(st.integers(1, 4) if not decimal else st.integers(3, 6))):
        steps = []
        off = draw(st.sampled_from([0, 0, 0.25, 0.5, 1, 1.5, 2, 3])) if not decimal else draw(st.integers(0, 30)) / 10
        if off:
            steps.append({'op': 'sleep', 'd': off})
        for _ in range(draw(st.integers(0, 2))):
            steps.append({'op': 'instant'})
        steps.append({'op': 'await', 'e': pick()})
        if draw(st.integers(0, 2)) == 0:
            steps.append({'op': 'sleep', 'd': draw(st.sampled_from([0.25, 0.25, 1, 2]))})
            steps.append({'op': 'await', 'e': pick()})
        waiters.append({'name': 'w%d' % j, 'steps': steps})
    def controller(times):
        ctl = []
        for t in times:
            ctl.append({'op': 'at_eq', 't': t})
            for _ in range(draw(st.integers(1, 4))):
                r = draw(st.integers(0, 9))
                if r < 2:
                    ctl.append({'op': 'instant'})          # next round of this time step
                elif r < 6:
                    ctl.append({'op': 'set_flag', 'i': draw(st.integers(0, nflags - 1)), 'v': draw(st.booleans())})
                    if draw(st.integers(0, 3)) == 0:
                        ctl[-1]['inv'] = True
                elif r < 8 and draw(st.integers(0, 2)) == 0:
                    # the value is changed through one of the operators of the tracked object (small non-negative integers)
                    o = draw(st.sampled_from(['+', '-', '*', '//', '%', '**', '<<', '>>', '&', '|', '^']))
                    v = draw(st.integers(1, 3)) if o in ('//', '%') else draw(st.integers(0, 2))
                    ctl.append({'op': 'top', 'i': draw(st.integers(0, ntr - 1)), 'o': o, 'v': v})
                elif r < 8:
                    ctl.append({'op': 'tset', 'i': draw(st.integers(0, ntr - 1)), 'v': draw(st.integers(0, 3))})
                elif r < 9 and draw(st.booleans()):
                    # absolute levels (one or both kinds; the other one keeps its level)
                    ctl.append({'op': 'rset', 'r': 'R', 'amounts': draw(st.sampled_from([
                        {'a': 0}, {'a': 1}, {'a': 3}, {'b': 0}, {'b': 2}, {'a': 2, 'b': 2}, {'a': 0, 'b': 4}, {'a': 4, 'b': 0}]))})
                elif r < 9:
                    ctl.append({'op': 'increase', 'r': 'R', 'amounts': {draw(st.sampled_from(['a', 'b'])): draw(st.integers(0, 2))}})
                else:
                    ctl.append({'op': 'decrease', 'r': 'R', 'amounts': {draw(st.sampled_from(['a', 'b'])): draw(st.integers(0, 2))}})
                ctl.append({'op': 'bools', 'exprs': exprs})
        return ctl
    times = sorted(draw(st.lists(st.integers(0, 20).map(lambda x: x / 4) if not decimal else st.integers(0, 50).map(lambda x: x / 10),
                                 min_size=1, max_size=6 if big else 5, unique=True)))
    ctl = controller(times)
    # a second driver acting in the same time steps: a value may be reverted between the trigger and the
    # waiter's turn (the oracle needs no order assumption: the state is rebuilt from the log)
    ctl2 = controller([t for t in times if draw(st.booleans())])
    if draw(st.integers(0, 3)) == 0:
        # revert race: a value is made true and reverted again before the woken waiter gets its turn
        # (two drivers wake in the same round; the waiter's wake-up is queued behind the second one)
        T = (times[-1] if times else 0) + 1
        i = draw(st.integers(0, nflags - 1))
        kind = draw(st.sampled_from(['flag', 'notflag', 'tcmp']))
        if kind == 'flag':
            e, pre, mk, rv = ['flag', i], {'op': 'set_flag', 'i': i, 'v': False}, {'op': 'set_flag', 'i': i, 'v': True}, {'op': 'set_flag', 'i': i, 'v': False}
        elif kind == 'notflag':
            e, pre, mk, rv = ['not', ['flag', i]], {'op': 'set_flag', 'i': i, 'v': True}, {'op': 'set_flag', 'i': i, 'v': False}, {'op': 'set_flag', 'i': i, 'v': True}
        else:
            e, pre, mk, rv = ['tcmp', 0, '>=', 3], {'op': 'tset', 'i': 0, 'v': 0}, {'op': 'tset', 'i': 0, 'v': 3}, {'op': 'tset', 'i': 0, 'v': 1}
        if draw(st.booleans()):
            e = ['and', e, ['instant']] if draw(st.booleans()) else ['or', e, ['eternity']]
        ctl += [{'op': 'at_eq', 't': T - 0.5}, pre, {'op': 'at_eq', 't': T}, rv, {'op': 'bools', 'exprs': exprs}]
        ctl2 += [{'op': 'at_eq', 't': T}, mk]
        waiters.append({'name': 'wr', 'steps': [{'op': 'at_eq', 't': T - 0.25}, {'op': 'await', 'e': e}]})
    hd = {'name': 'hd', 'steps': [{'op': 'sleep', 'd': draw(st.sampled_from([0.125, 0.625, 1.375, 2.125]))}]}
    blk = {'op': 'scope', 'name': 'S', 'children': [hd] + [{'name': 'ctl2', 'steps': ctl2}] + waiters + [{'name': 'ctl', 'steps': ctl}], 'body': []}
    prog = {'start': 0, 'objs': {'flags': nflags, 'tracked': [draw(st.integers(0, 3)) for _ in range(ntr)],
                                 'conds': conds,
                                 'resources': [{'kind': 'res', 'name': 'R', 'levels': {'a': draw(st.integers(0, 3)),
                                                                                       'b': draw(st.integers(0, 3))}}]},
            'roots': [{'name': 'r0', 'steps': [blk]}]}
    targets = [w['name'] for w in waiters]
    faults = draw(st.lists(st.fixed_dictionaries({'k': st.integers(0, 200), 'target': st.sampled_from(targets), 'token': st.just([1])}),
                           max_size=2)) if draw(st.booleans()) else []
    return {'prog': prog, 'exprs': exprs, 'faults': faults}


@st.composite
def sync_cases(draw):
    atom = st.sampled_from(['d0', 'd0', 'd1', 'f', 't']).map(lambda a: ['atom', a])

    def expr(depth):
        if depth == 0 or draw(st.integers(0, 3)) == 0:
            a = draw(atom)
            return ['not', a] if draw(st.integers(0, 2)) == 0 else a
        e = [draw(st.sampled_from(['and', 'or'])), expr(depth - 1), expr(depth - 1)]
        return ['not', e] if draw(st.integers(0, 4)) == 0 else e
    exprs = [expr(draw(st.integers(1, 2))) for _ in range(draw(st.integers(1, 3)))]
    steps = ['eval'] * draw(st.integers(0, 2)) + [draw(st.sampled_from([0, 1]))] + ['eval']
    if draw(st.booleans()):
        steps += [1 - steps[-2]] + ['eval']
    return {'sync': {'exprs': exprs, 'steps': steps, 'flag': draw(st.booleans()), 'tracked': draw(st.sampled_from([0, 3]))}}


@st.composite
def reuse_cases(draw):
    """One condition *object* with a history: a first waiter is served (or cancelled right after it subscribed), the
    condition turns false again while nobody waits, a later waiter awaits the same object, it turns true again."""
    kind = draw(st.sampled_from(['tcmp', 'flag', 'nested', 'nested', 'and', 'rcmp', 'notflag']))
    if kind == 'tcmp':
        cond, on, off = ['tcmp', 0, '>=', 2], [{'op': 'tset', 'i': 0, 'v': 3}], [{'op': 'tset', 'i': 0, 'v': 0}]
    elif kind == 'flag':
        cond, on, off = ['flag', 0], [{'op': 'set_flag', 'i': 0, 'v': True}], [{'op': 'set_flag', 'i': 0, 'v': False}]
    elif kind == 'notflag':
        cond, on, off = ['not', ['flag', 0]], [{'op': 'set_flag', 'i': 0, 'v': False}], [{'op': 'set_flag', 'i': 0, 'v': True}]
    elif kind == 'nested':
        cond = ['or', ['and', ['flag', 0], ['flag', 1]], ['flag', 2]]
        on = [{'op': 'set_flag', 'i': 0, 'v': True}, {'op': 'set_flag', 'i': 1, 'v': True}]
        off = [{'op': 'set_flag', 'i': draw(st.integers(0, 1)), 'v': False}]
    elif kind == 'and':
        cond = ['and', ['flag', 0], ['tcmp', 0, '>=', 2]]
        on, off = [{'op': 'set_flag', 'i': 0, 'v': True}, {'op': 'tset', 'i': 0, 'v': 2}], [{'op': 'tset', 'i': 0, 'v': 1}]
    else:
        cond = ['rcmp', 'R', '>=', {'a': 2}]
        on, off = [{'op': 'increase', 'r': 'R', 'amounts': {'a': 2}}], [{'op': 'decrease', 'r': 'R', 'amounts': {'a': 2}}]
        if draw(st.booleans()):
            on, off = [{'op': 'rset', 'r': 'R', 'amounts': {'a': draw(st.integers(2, 4))}}], [{'op': 'rset', 'r': 'R', 'amounts': {'a': draw(st.integers(0, 1))}}]
    exprs = [cond]
    times = sorted(draw(st.lists(st.sampled_from([1, 2, 3, 4, 5, 6, 7]), min_size=3, max_size=5, unique=True)))
    ctl = [{'op': 'bools', 'exprs': exprs}]
    if kind == 'notflag':
        ctl = [{'op': 'set_flag', 'i': 0, 'v': True}] + ctl
    for j, t in enumerate(times):
        ctl.append({'op': 'at_eq', 't': t})
        for o in (on if j % 2 == 0 else off):
            ctl.append(dict(o))
            if draw(st.integers(0, 3)) == 0:
                ctl.append({'op': 'instant'})
        ctl.append({'op': 'bools', 'exprs': exprs})
    waiters = []
    for j in range(draw(st.integers(2, 4))):
        at = draw(st.sampled_from([0, 0, 0.5, 1.5, 2.5, 3.5, 4.5, 5.5]))
        steps = ([{'op': 'sleep', 'd': at}] if at else []) + [{'op': 'await', 'e': ['named', 0]}]
        if draw(st.booleans()):
            steps += [{'op': 'sleep', 'd': draw(st.sampled_from([0.5, 1, 1.5]))}, {'op': 'await', 'e': ['named', 0]}]
        waiters.append({'name': 'w%d' % j, 'steps': steps})
    hd = {'name': 'hd', 'steps': [{'op': 'sleep', 'd': 0.125}]}
    blk = {'op': 'scope', 'name': 'S', 'children': [hd] + waiters + [{'name': 'ctl', 'steps': ctl}], 'body': []}
    prog = {'start': 0, 'objs': {'flags': 3, 'tracked': [0, 0], 'conds': [cond],
                                 'resources': [{'kind': 'res', 'name': 'R', 'levels': {'a': 0, 'b': 1}}]},
            'roots': [{'name': 'r0', 'steps': [blk]}]}
    # the first waiter is cancelled at each of its early activation boundaries (it has subscribed, its helper has not run)
    faults = [{'k': k, 'target': 'w0', 'token': [1]} for k in range(2, 2 + draw(st.integers(0, 14)))]
    return {'prog': prog, 'exprs': exprs, 'faults': faults}


class C08(Check):
    pid = 'C08'
    level = 'exploration'
    rule = ('[resources have two kinds (comparisons are element-wise, inverses must be boolean negations); flags are also set '
            'through their inverse; one-decimal date mode with many date waiters] '
            '1-3 condition expression trees (depth<=3) over flags, inverted flags, tracked comparisons (6 operators, '
            'value-vs-constant and value-vs-value), resource-level comparisons, task.done/~done, time >=,<,== atoms, instant, '
            'eternity, built with the real & | ~ operators; a driver applies a generated change history (several changes per '
            'time step incl. set-then-revert and changes spread over rounds of one step); 1-4 waiters start at generated '
            'points and may wait twice. non-trivial = an awaited expression has a connective and one of its atoms changes '
            'after a waiter started; distinct by sha1. Also conditions over task.done evaluated repeatedly within one activation '
            'around the cancellation of a task that has not started (the value is always the current one).')
    budgets = {'quick': dict(examples=2400, procs=4), 'thorough': dict(examples=200000, procs=16)}
    level_text = ('Independent evaluator over the harness-owned copy of all atom values: (1) at every resume the condition is '
                  'true at that moment and at least one other activation happened since the await began; (2) at the end of '
                  'every time step (and at every date of a time atom, and at quiescence) no waiter is left waiting on a true '
                  'condition; (3) after every change bool(c), ~~c and the De Morgan forms agree with the evaluator.')
    level_note = 'State at a log position = initial values + all changes logged before it (changes are applied synchronously at the call).'
    technique = 'property-based testing against an independent boolean evaluator over a generated change history'
    design_ref = 'DESIGN.md section 3, C08'

    def strategy(self, tier):
        return st.one_of(cases(tier), cases(tier), cases(tier), cases(tier), cases(tier), reuse_cases(), sync_cases())

    def sync_case(self, case):
        """one condition *object* evaluated several times within one activation while an operand changes in between
        (the completion of a task that is cancelled before its first turn changes at once): always the current value"""
        import usim
        from vlib.probe import run_probed
        out = Outcome()
        out.evals = 1
        spec = case['sync']
        rows = []

        def build(e, atoms):
            if e[0] == 'atom':
                return atoms[e[1]]
            if e[0] == 'not':
                return ~build(e[1], atoms)
            a, b = build(e[1], atoms), build(e[2], atoms)
            return (a & b) if e[0] == 'and' else (a | b)

        def value(e, vals):
            if e[0] == 'atom':
                return vals[e[1]]
            if e[0] == 'not':
                return not value(e[1], vals)
            a, b = value(e[1], vals), value(e[2], vals)
            return (a and b) if e[0] == 'and' else (a or b)

        async def victim():
            await (usim.time + 1)

        async def main():
            flag = usim.Flag()
            tr = usim.Tracked(spec['tracked'])
            if spec['flag']:
                await flag.set()
            async with usim.Scope() as scope:
                tasks = [scope.do(victim()) for _ in range(2)]
                atoms = {'d0': tasks[0].done, 'd1': tasks[1].done, 'f': flag, 't': tr >= 2}
                vals = {'d0': False, 'd1': False, 'f': spec['flag'], 't': spec['tracked'] >= 2}
                conds = [build(e, atoms) for e in spec['exprs']]
                for step in spec['steps']:
                    if step == 'eval':
                        rows.append(([bool(c) for c in conds], [value(e, vals) for e in spec['exprs']], dict(vals)))
                    else:
                        tasks[step].cancel()
                        vals['d%d' % step] = True
        oc, exc, _ = run_probed([main()], probe=Probe(b_step=2000, b_total=20000))
        if oc != 'ok':
            out.fail('run_outcome', 'sync:%s:%s' % (oc, type(exc).__name__), 'run() ended with %s %r' % (oc, exc))
            return out
        for got, want, vals in rows:
            if got != want:
                out.fail('bool', 'sync_change:stale_value', 'conditions %r over %r evaluate to %r, expected %r (the same objects were '
                         'evaluated earlier in this activation, before a task was cancelled)' % (spec['exprs'], vals, got, want))
                break
        out.nontrivial = True
        out.features.add('operand_changed_within_one_activation')
        return out

    def run_case(self, case, tier='quick'):
        if 'sync' in case:
            return self.sync_case(case)
        out = Outcome()
        out.evals = 0
        n = self._one(out, case, None)
        for f in case.get('faults', ()):
            # a waiter is cancelled at an activation boundary: the others (also those that share a condition *object*
            # with it, now or later) must not notice
            if n:
                self._one(out, case, [dict(f, k=f['k'] % (n + 1))])
        return out

    def _one(self, out, case, faults):
        out.evals += 1
        prog = case['prog']
        ctx = '' if not faults else ' faults=%r' % (faults,)
        it, oc, exc, p = execute(prog, Probe(b_step=6000, b_total=60000), faults=faults or ())
        if oc != 'ok':
            out.fail('run_outcome', '%s:%s' % (oc, type(exc).__name__), 'run() ended with %s %r%s' % (oc, exc, ctx))
            return p.k
        log = [e for e in it.log if e[0] <= it.end_seq]
        conds = prog['objs'].get('conds', [])

        def resolve(x):
            if x[0] == 'named':
                return resolve(conds[x[1]])
            if x[0] in ('and', 'or'):
                return [x[0], resolve(x[1]), resolve(x[2])]
            if x[0] == 'not':
                return ['not', resolve(x[1])]
            return x
        o = prog['objs']
        # ---- state timeline
        state = {'f': [False] * o['flags'], 't': list(o['tracked']), 'r': dict(o['resources'][0]['levels'])}
        snaps = []         # (seq, state copy, hd_done) after each change
        hd_done_seq = next((e[0] for e in log if e[1] == 'hd' and e[3] == 'end'), None)

        def snap(seq):
            snaps.append((seq, {'f': list(state['f']), 't': list(state['t']), 'r': dict(state['r'])}))
        snap(0)
        changed_seqs = []
        for e in log:
            if e[3] == 'set_begin':
                state['f'][e[5][0]] = e[5][1]
            elif e[3] == 'tset_begin':
                state['t'][e[5][0]] = e[5][1]
            elif e[3] == 'increase_begin':
                for f, v in e[5][0].items():
                    state['r'][f] += v
            elif e[3] == 'decrease_begin':
                for f, v in e[5][0].items():
                    state['r'][f] -= v
            elif e[3] == 'rset_begin':
                for f, v in e[5][0].items():
                    state['r'][f] = v
            else:
                continue
            snap(e[0])
            changed_seqs.append(e[0])

        def state_at(seq):
            cur = snaps[0][1]
            for s, st_ in snaps:
                if s <= seq:
                    cur = st_
            return cur

        def hd_done(seq):
            return hd_done_seq is not None and hd_done_seq <= seq

        # ---- (3) boolean agreement after every change
        for e in log:
            if e[3] != 'bools':
                continue
            stt = state_at(e[0])
            for x, row in zip(case['exprs'], e[5]):
                want = ev(x, stt, e[4], hd_done(e[0]))
                if row[0] != want:
                    out.fail('bool', 'value:%s' % shape(x), 'bool(%r) is %r, evaluator %r at t=%r state=%r' % (x, row[0], want, e[4], stt))
                if row[1] is not None and row[1] != want:
                    out.fail('bool', 'double_inversion:%s' % shape(x), '~~(%r) is %r, expected %r' % (x, row[1], want))
                if row[2] is not None and row[2] != (not want):
                    out.fail('bool', 'inversion:%s' % shape(x), '~(%r) is %r, expected %r' % (x, row[2], not want))
                if row[3] is not None and row[3] != (not want):
                    out.fail('bool', 'de_morgan:%s' % shape(x), 'De Morgan form of %r is %r, expected %r' % (x, row[3], not want))
        # ---- waits
        waits = []
        opened = {}
        for e in log:
            if e[1].startswith('w'):
                if e[3] == 'begin':
                    opened[(e[1], e[2])] = e
                elif e[3] == 'ok' and (e[1], e[2]) in opened:
                    waits.append((opened.pop((e[1], e[2])), e))
        gone = {e[1] for e in log if e[3] == 'fin'}
        for b in opened.values():
            if b[1] not in gone:         # (a cancelled waiter is not waiting any more)
                waits.append((b, None))
        acts = {a['name']: a for a in prog['roots'][0]['steps'][0]['children']}
        step_end = {}       # time -> last seq at that time
        for e in log:
            step_end[e[4]] = e[0]
        times = sorted(step_end)
        for b, okev in waits:
            node = acts[b[1]]['steps'][b[2][0]]
            x = resolve(node['e'])
            if node['e'][0] == 'named':
                out.features.add('shared_condition_object')
            sh = shape(x)
            # (1) resumes only when true; lets others run
            if okev is not None:
                if not ev(x, state_at(okev[0]), okev[4], hd_done(okev[0])):
                    out.fail('resume', 'resumed_while_false:%s' % sh, '%s resumed from await %r at t=%r seq %d but it is false; state=%r%s' % (
                        b[1], x, okev[4], okev[0], state_at(okev[0]), ctx))
                if okev[6] == b[6]:
                    out.fail('resume', 'no_yield:%s' % sh, '%s: await %r completed without suspending' % (b[1], x))
            # (2) never left waiting at the end of a step in which it holds
            cand = set(t for t in times if t >= b[4]) | {d for d in dates(x, set()) if d >= b[4]}
            last_time = times[-1]
            for t in sorted(cand):
                if okev is not None and okev[4] <= t:
                    break
                # the state at the end of step t
                seq_end = max([s for tt, s in step_end.items() if tt <= t] or [0])
                if t > last_time and not dates(x, set()):
                    break
                if seq_end < b[0]:
                    continue
                if ev(x, state_at(seq_end), t, hd_done(seq_end)):
                    out.fail('missed', 'left_waiting:%s' % sh, '%s waits for %r since t=%r (seq %d); at the end of step t=%r it holds '
                             '(state=%r) but the waiter %s' % (b[1], x, b[4], b[0], t, state_at(seq_end),
                                                              ('never resumed' if okev is None else 'resumed only at t=%r' % okev[4]) + ctx))
                    break
            if x[0] in ('and', 'or', 'not') and any(s > b[0] for s in changed_seqs):
                out.nontrivial = True
            out.features.add('shape_' + sh)
            if has_moment(x):
                out.features.add('moment')
        return p.k


CHECK = C08()
