"""C18 - SimPy layer: events fire once; processes resume with the right value and time."""
from hypothesis import strategies as st

from vlib.runner import Check, Outcome, InvalidCase
from vlib import spy
from vlib.probe import Probe, _TLS
import vlib.interp  # noqa: F401  (harness process set-up: automatic GC off, GC-time noise counted not printed)
import gc
import sys
import warnings

_N = [0]


@st.composite
def cond_programs(draw):
    """conditions (flat and nested) whose members fire one after the other, some before the waiter starts"""
    if draw(st.integers(0, 3)) == 0:
        # `(a | b) & c` (also deeper / with `all` inside `any`): the inner condition fires with its first member, another
        # member of it fires later, the outer one last - the outer value lists every member that has fired by then
        first, second = draw(st.sampled_from([(0, 1), (1, 0)]))
        outer_kind, inner_kind = draw(st.sampled_from([('all', 'any'), ('all', 'any'), ('all', 'all'), ('any', 'all')]))
        c = {'op': 'cond', 'kind': outer_kind, 'evs': [2], 'sub': [{'kind': inner_kind, 'evs': [0, 1]}]}
        gap = lambda: {'op': 'timeout', 'd': draw(st.integers(1, 2))}  # noqa
        trig = [gap(), {'op': 'succeed', 'ev': first, 'v': 'first'}, gap(), {'op': 'succeed', 'ev': second, 'v': 'second'},
                gap(), {'op': 'succeed', 'ev': 2, 'v': 'third'}]
        pre = [{'op': 'timeout', 'd': draw(st.integers(0, 2))}] if draw(st.booleans()) else []
        return {'nev': 3, 'nflags': 0, 't0': 0, 'callbacks': [], 'watch': [], 'procs': [
            {'name': 'p0', 'phase': 1, 'steps': pre + [c, {'op': 'timeout', 'd': 1}]}, {'name': 'p9', 'phase': 7, 'steps': trig}]}
    nev = draw(st.integers(2, 5))
    waiters = []
    phases = [1, 2, 3]
    for w in range(draw(st.integers(1, 2))):
        c = {'op': 'cond', 'kind': draw(st.sampled_from(['any', 'all'])),
             'evs': draw(st.lists(st.integers(0, nev - 1), min_size=0, max_size=3, unique=True)),
             'sub': [{'kind': draw(st.sampled_from(['any', 'all'])),
                      'evs': draw(st.lists(st.integers(0, nev - 1), min_size=1, max_size=3, unique=True))}
                     for _ in range(draw(st.integers(0, 2)))]}
        steps = [{'op': 'timeout', 'd': draw(st.integers(0, 3))}] if draw(st.booleans()) else []
        waiters.append({'name': 'p%d' % w, 'phase': phases[w], 'steps': steps + [c, {'op': 'timeout', 'd': 1}]})
    order = draw(st.permutations(list(range(nev))))
    trig = []
    for k in order:
        trig.append({'op': 'succeed', 'ev': k, 'v': draw(st.sampled_from([None, 0, 'x', 5]))})
        if draw(st.integers(0, 2)):
            trig.append({'op': 'timeout', 'd': draw(st.integers(1, 2))})
    procs = waiters + [{'name': 'p9', 'phase': 7, 'steps': trig}]
    return {'nev': nev, 'nflags': 0, 'procs': procs, 't0': 0, 'callbacks': [], 'watch': []}


@st.composite
def interrupt_programs(draw):
    """A process that receives several interrupts in one activation of the interrupter while its next yields are
    events that were processed long ago, finished processes, fresh timeouts ...: one Interrupt per yield, in call order."""
    nev = 3
    early = {'name': 'p0', 'phase': 1, 'steps': [{'op': 'succeed', 'ev': 0, 'v': draw(st.sampled_from([None, 0, 'x']))},
                                                 {'op': 'succeed', 'ev': 1, 'v': 5}]}
    nxt = []
    for _ in range(draw(st.integers(1, 4))):
        k = draw(st.integers(0, 5))
        if k <= 1:
            nxt.append({'op': 'wait', 'ev': draw(st.integers(0, 1))})               # processed long ago
        elif k == 2:
            nxt.append({'op': 'cond', 'kind': draw(st.sampled_from(['any', 'all'])), 'evs': [0, 1], 'sub': []})
        elif k == 3:
            nxt.append({'op': 'timeout', 'd': draw(st.integers(0, 2)), 'v': 'late'})
        elif k == 4:
            nxt.append({'op': 'wait', 'ev': 2})                                       # never fires / fires later
        else:
            nxt.append({'op': 'spawn', 'child': {'name': 'c%d' % len(nxt), 'steps': [{'op': 'return', 'v': 3}]}})
    victim = {'name': 'p1', 'phase': 2, 'steps': [{'op': 'timeout', 'd': draw(st.integers(2, 4)), 'v': 'first'}] + nxt +
              [{'op': 'timeout', 'd': 1}]}
    burst = [{'op': 'interrupt', 'proc': 'p1', 'cause': 'i%d' % j} for j in range(draw(st.integers(1, 3)))]
    attacker = {'name': 'p2', 'phase': 3, 'steps': [{'op': 'timeout', 'd': draw(st.integers(0, 3))}] + burst}
    procs = [early, victim, attacker]
    if draw(st.integers(0, 2)) == 0:
        procs.append({'name': 'p3', 'phase': 5, 'steps': [{'op': 'timeout', 'd': draw(st.integers(0, 5))},
                                                           {'op': 'interrupt', 'proc': 'p1', 'cause': 'j'},
                                                           {'op': 'succeed', 'ev': 2, 'v': 'two'}]})
    return {'nev': nev, 'nflags': 0, 'procs': procs, 't0': 0, 'callbacks': [], 'watch': []}


@st.composite
def until_exact_cases(draw):
    """`Environment(t0).run(until=u)` for start times and stop dates that are no binary fractions: the run stops at u,
    not at t0 + (u - t0); a step due exactly at u is not executed"""
    t0 = draw(st.sampled_from([0, 0.3, -3, 0.1, 7.7, -0.7, 1e9 + 0.1]))
    u = t0 + draw(st.sampled_from([0.1, 0.6, 0.9, 1.3, 2.7, 3.1]))
    u = draw(st.sampled_from([u, round(u, 1), round(u, 1) + 0.2]))
    return {'until_exact': [t0, u], 'period': draw(st.sampled_from([0.1, 0.3, 1]))}


@st.composite
def programs(draw, tier):
    big = tier == 'thorough'
    if draw(st.integers(0, 19)) == 0:
        return draw(until_exact_cases())
    if draw(st.integers(0, 6)) == 0:
        return draw(cond_programs())
    if draw(st.integers(0, 9)) == 0:
        return draw(interrupt_programs())
    nown = draw(st.integers(1, 5))       # events that the processes trigger themselves
    # ... and events triggered by `other.trigger` registered as a callback of another event (value / failure passed on)
    nchain = draw(st.integers(1, 2)) if draw(st.integers(0, 3)) == 0 else 0
    nev = nown + nchain
    nflags = 2
    nproc = draw(st.integers(1, 5 if big else 4))
    phases = draw(st.permutations([1, 2, 3, 5, 6, 7, 9, 11, 13]))[:nproc]
    names = ['p%d' % i for i in range(nproc)]
    failed_events = set()
    xid = [0]
    child_n = [0]

    def steps(me, depth, maxlen):
        out = []
        for _ in range(draw(st.integers(1, maxlen))):
            r = draw(st.integers(0, 19))
            if r < 5:
                out.append({'op': 'timeout', 'd': draw(st.integers(0, 3)), 'v': draw(st.sampled_from([None, 0, '', 1, 'a', 7]))})
            elif r < 8:
                out.append({'op': 'wait', 'ev': draw(st.integers(0, nev - 1))})
            elif r < 11:
                out.append({'op': 'succeed', 'ev': draw(st.integers(0, nown - 1)), 'v': draw(st.sampled_from([None, 0, False, 2, 'b']))})
            elif r < 12:
                xid[0] += 1
                k = draw(st.integers(0, nown - 1))
                failed_events.add(k)
                out.append({'op': 'fail', 'ev': k, 'x': xid[0]})
            elif r < 14:
                evs = draw(st.lists(st.integers(0, nev - 1), min_size=0, max_size=3, unique=True))
                c = {'op': 'cond', 'kind': draw(st.sampled_from(['any', 'all'])), 'evs': evs}
                c['via'] = draw(st.sampled_from(['call', 'call', 'op', 'cls']))       # env.any_of / a | b / AnyOf(env, ...)
                if evs and draw(st.integers(0, 4)) == 0:
                    c['kind'], c['k'] = 'atleast', draw(st.integers(1, len(evs)))
                elif draw(st.integers(0, 2)) == 0:      # nested condition, e.g. (a | b) & c
                    c['sub'] = [{'kind': draw(st.sampled_from(['any', 'all'])),
                                 'evs': draw(st.lists(st.integers(0, nev - 1), min_size=1, max_size=3, unique=True))}
                                for _ in range(draw(st.integers(1, 2)))]
                out.append(c)
            elif r < 16 and me is not None and len(names) > 1:
                out.append({'op': 'interrupt', 'proc': draw(st.sampled_from([n for n in names if n != me])),
                            'cause': draw(st.sampled_from([None, 'c1', 5]))})
            elif r < 17 and depth < 1:
                child_n[0] += 1
                cs = steps(None, depth + 1, 3)
                end = draw(st.integers(0, 3))
                if end == 0:
                    cs.append({'op': 'return', 'v': draw(st.sampled_from([0, 'r', 9]))})
                elif end == 1:
                    xid[0] += 1
                    cs.append({'op': 'raise', 'x': xid[0]})
                out.append({'op': 'spawn', 'child': {'name': 'c%d' % child_n[0], 'steps': cs}})
                if draw(st.integers(0, 4)) == 0:
                    # a sub-process whose generator ends before its first yield
                    out[-1]['child'] = {'name': 'c%d' % child_n[0], 'noyield': True,
                                        'steps': [{'op': 'return', 'v': draw(st.sampled_from([0, 'r', 9, None]))}]}
                    if draw(st.integers(0, 2)) == 0:
                        # ... by raising
                        xid[0] += 1
                        out[-1]['child']['steps'] = [{'op': 'raise', 'x': xid[0]}]
            elif r < 18:
                k = draw(st.sampled_from(['delay', 'flag', 'coro', 'coro', 'coro_fail']))
                s = {'op': 'native', 'kind': k}
                if k == 'flag':
                    s['i'] = draw(st.integers(0, nflags - 1))
                else:
                    s['d'] = draw(st.integers(1, 3))
                    if k == 'coro':
                        s['v'] = draw(st.sampled_from([None, 3, 'n']))
                    elif k == 'coro_fail':
                        xid[0] += 1
                        s['x'] = xid[0]
                out.append(s)
            elif r < 19:
                out.append({'op': 'setflag', 'i': draw(st.integers(0, nflags - 1))})
            else:
                out.append({'op': 'timeout', 'd': 1})
        return out

    procs = []
    for n, ph in zip(names, phases):
        st_ = steps(n, 0, 6 if big else 5)
        if draw(st.integers(0, 3)) == 0:
            st_.append({'op': 'return', 'v': draw(st.sampled_from([0, 'done', 4]))})
        elif draw(st.integers(0, 9)) == 0:
            xid[0] += 1
            st_.append({'op': 'raise', 'x': xid[0]})
        procs.append({'name': n, 'phase': ph, 'steps': st_})
    prog = {'nev': nev, 'nflags': nflags, 'procs': procs, 't0': draw(st.sampled_from([0, 0, 5, -5, -2.5])),
            'callbacks': draw(st.lists(st.integers(0, nev - 1), max_size=3)),
            'defusers': draw(st.lists(st.integers(0, nev - 1), max_size=1)) if draw(st.integers(0, 2)) == 0 else []}
    if nchain:
        # every chained event has exactly one source, an event with a smaller number
        prog['chains'] = [[draw(st.integers(0, b - 1)), b] for b in range(nown, nev)]
        for (a, b) in prog['chains']:
            if a in failed_events:
                failed_events.add(b)
    if draw(st.integers(0, 3)) == 0:
        prog['cb_interrupts'] = [[draw(st.integers(0, nev - 1)), draw(st.sampled_from(names)), draw(st.sampled_from(['cb', None, 3]))]
                                 for _ in range(draw(st.integers(1, 2)))]
        own = [(s_['ev'], p_['name']) for p_ in procs for s_ in p_['steps'] if s_['op'] == 'succeed']
        last = [(p_['steps'][-1]['ev'], p_['name']) for p_ in procs if p_['steps'] and p_['steps'][-1]['op'] == 'succeed']
        if last and draw(st.booleans()):
            # ... also when triggering the event was its last action: the process has ended, the interrupt is ignored
            k, pn = draw(st.sampled_from(last))
            prog['cb_interrupts'].append([k, pn, 'late'])
        if own and draw(st.booleans()):
            # the callback interrupts the very process that triggered the event (the one that ran last)
            k, pn = draw(st.sampled_from(own))
            prog['cb_interrupts'].append([k, pn, 'own'])
    u = draw(st.integers(0, 5))
    if u == 0:
        prog['until'] = prog['t0'] + draw(st.integers(1, 8)) + 0.96875
    elif u == 1:
        ok_events = [k for k in range(nev) if k not in failed_events]
        if ok_events:
            prog['until'] = ['event', draw(st.sampled_from(ok_events))]
    prog['watch'] = [k for k in range(nev) if k not in failed_events and draw(st.booleans())]
    if draw(st.integers(0, 2)) == 0:
        # native activities that handle an event's failure and go on, next to others that die of it
        prog['watch'] = [k for k in range(nev) if draw(st.integers(0, 3)) > 0]
        prog['watch_hold'] = draw(st.sampled_from([0.5, 1.5, 3]))
        prog['careless'] = [k for k in range(nev) if draw(st.booleans())]
        # (the failures of these events are defused by a callback, so that the run does not depend on the watchers)
        prog['defusers'] = sorted(set(prog['defusers']) | (failed_events & (set(prog['watch']) | set(prog['careless']))))
    if draw(st.integers(0, 3)) == 0:
        # native activities that wait for an event for a while and give up (dates between the phases of the processes)
        prog['impatient'] = [[draw(st.integers(0, nev - 1)), prog['t0'] + draw(st.integers(0, 4)) + 0.03125,
                              draw(st.sampled_from(['until', 'cancel']))] for _ in range(draw(st.integers(1, 2)))]
    return prog


def norm_payload(x):
    if isinstance(x, list):
        return tuple(x)
    return x


class C18(Check):
    pid = 'C18'
    level = 'exploration'
    rule = ('Process graphs in a small DSL (timeouts with values, waiting for events incl. already-fired ones, succeed/fail '
            'incl. second triggers and unhandled failures, sub-processes that return or raise, AnyOf/AllOf incl. empty, '
            'interrupt with several causes per step and on finished processes, yielded native delays/flags/coroutines, '
            'callbacks, env.run(until=None|time|event), initial_time) executed standalone and embedded in a native '
            'simulation with native activities awaiting the events; compared with an independent reference simulator of '
            'documented SimPy semantics. Race-free by construction (per-process time phases); cases whose outcome would '
            'depend on same-step order are discarded. non-trivial = >=2 processes interacting through an event, interrupt '
            'or sub-process; distinct by sha1. Also: conditions built by operators / classes / a custom evaluation function and '
            'read through the mapping interface of their value, interrupts issued by event callbacks, negative initial times, native '
            'activities that handle a failure and go on next to others that die of it, exact until dates; yielded native coroutines that fail, '
            'sub-processes that raise before their first yield, events triggered through `other.trigger` as a callback (chained outcomes).')
    budgets = {'quick': dict(examples=1600, procs=4), 'thorough': dict(examples=200000, procs=16)}
    level_text = ('Model-based differential: per-process logs (step, env.now, value | exception | interrupt cause), callback '
                  'invocations, second-trigger errors, the result of env.run and env.now afterwards must equal the reference '
                  'simulator; embedded and standalone executions must give the same logs.')
    level_note = ('No SimPy in the sandbox: the reference is a ~250 line simulator written from the documented semantics. '
                  'Condition values use the allowed-set rule (members firing in the same step may or may not be included).')
    technique = 'model-based property testing: generated process graphs vs an independent SimPy-semantics reference simulator; standalone/embedded differential'
    design_ref = 'DESIGN.md section 5, C18'

    def strategy(self, tier):
        return programs(tier)

    def until_exact(self, case):
        out = Outcome()
        out.evals = 1
        t0, u = case['until_exact']
        if not (u > t0):
            raise InvalidCase('until')
        from usim.py import Environment
        seen = []

        def ticker(env):
            while True:
                seen.append(env.now)
                yield env.timeout(case['period'])
        p = Probe(b_step=20000, b_total=200000)
        _TLS.stack.append(p)
        try:
            env = Environment(t0)
            env.process(ticker(env))
            env.run(until=u)
        except BaseException as e:      # noqa
            out.fail('run', 'until_exact:%s' % type(e).__name__, 'Environment(%r).run(until=%r) raised %r' % (t0, u, e))
            return out
        finally:
            _TLS.stack.pop()
        if env.now != u:
            out.fail('run', 'until_exact:now', 'Environment(%r).run(until=%r) stopped at %r' % (t0, u, env.now))
        if seen and (seen[0] != t0 or any(t >= u for t in seen)):
            out.fail('run', 'until_exact:steps', 'Environment(%r).run(until=%r): the process ran at %r' % (t0, u, [seen[0], seen[-1]]))
        out.nontrivial = True
        out.features.add('until_exact')
        return out

    def run_case(self, prog, tier='quick'):
        if 'until_exact' in prog:
            return self.until_exact(prog)
        out = Outcome()
        out.evals = 2
        sys.unraisablehook = vlib.interp._unraisable
        warnings.simplefilter('ignore')
        _N[0] += 1
        if _N[0] % 200 == 0:
            gc.collect()
        model = spy.Model(prog)
        try:
            want = model.run()
        except spy.Ambiguous:
            raise InvalidCase('order-dependent')
        except RecursionError:
            raise InvalidCase('too deep')
        for (k, date, kind) in prog.get('impatient', ()):
            ev = model.events[k]
            if ev.state is not None and ev.state[0] == 'fail':
                if ev.time < date:
                    raise InvalidCase('the impatient native waiter is still there when the event fails')
                out.features.add('failure_after_abandoned_native_wait')
        stop_time = getattr(model, 'stop_time', None)
        crash_time = want['now'] if model.crash is not None else None
        soft = stop_time if stop_time is not None else crash_time       # entries at this time are optional
        p = Probe(b_step=20000, b_total=200000)
        _TLS.stack.append(p)
        try:
            real, got = spy.run_standalone(prog)
            real2, got2 = spy.run_embedded(prog)
        finally:
            _TLS.stack.pop()
        interacting = False
        for mode, r, g in (('standalone', real, got), ('embedded', real2, got2)):
            pre = mode + ':'
            # ---- result of the run
            if g['outcome'].startswith('other:'):
                out.fail('run', pre + g['outcome'], 'env.run ended with %s %s; model %r' % (g['outcome'], g.get('exc'), want))
                continue
            if g['outcome'] != want['outcome'] or (g['outcome'] == 'spyerr' and g.get('exc') != want.get('exc')):
                out.fail('run', pre + 'outcome_%s_want_%s' % (g['outcome'], want['outcome']),
                         'env.run: %r, model: %r' % (g, want))
                continue
            if 'value' in want and mode == 'standalone' and g.get('value') != want['value']:
                out.fail('run', pre + 'until_event_value', 'env.run returned %r, model %r' % (g.get('value'), want['value']))
            if isinstance(prog.get('until'), (int, float)) and want['outcome'] == 'ok':
                now = g['now'] if mode == 'standalone' else g.get('now_inside')
                if now != want['now']:
                    out.fail('run', pre + 'now_after_until', 'env.now is %r after run(until=%r)' % (now, prog['until']))
            # ---- per process logs
            for name, mp in model.procs.items():
                have = [(i, k, t, norm_payload(v)) for (i, k, t, v) in r.log.get(name, [])]
                exp = mp.log
                hi = 0
                ok = True
                for (i, k, t, v) in exp:
                    cand = have[hi] if hi < len(have) else None
                    match = False
                    if cand is not None and cand[0] == i and cand[1] == k and cand[2] == t:
                        if isinstance(v, tuple) and len(v) == 2 and v[0] == 'cond':
                            match = (isinstance(cand[3], tuple) and cand[3][0] == 'cond'
                                     and spy.cond_ok(cand[3][1], v[1], t))
                            if cand[3] and isinstance(cand[3], tuple) and not match:
                                out.fail('condition', pre + 'members', '%s step %d: condition value %r not allowed at t=%r (leaves %r)' % (
                                    name, i, cand[3], t, [(m.eid, m.state, m.time) for m in spy.leaves(v[1])]))
                                ok = False
                                break
                        else:
                            match = cand[3] == norm_payload(v)
                    if match:
                        hi += 1
                        continue
                    if soft is not None and t >= soft:
                        continue          # the run stopped in this step: optional
                    sig = 'missing'
                    if cand is not None and cand[0] == i:
                        if cand[1] != k:
                            sig = 'kind_%s_want_%s' % (cand[1], k)
                        elif cand[2] != t:
                            sig = 'time'
                        else:
                            sig = 'value'
                    s = mp.spec['steps'][i] if 0 <= i < len(mp.spec['steps']) else {'op': 'start' if i < 0 else 'end'}
                    out.fail('process_log', pre + '%s:%s' % (s['op'] + ('/' + s.get('kind', '') if s['op'] in ('native', 'cond') else ''), sig),
                             '%s: expected %r, got %r\n full got  %r\n full want %r' % (name, (i, k, t, v), cand, have, exp))
                    ok = False
                    break
                if ok and hi < len(have):
                    extra = have[hi]
                    if not (soft is not None and extra[2] >= soft):
                        out.fail('process_log', pre + 'extra:%s' % extra[1], '%s: unexpected %r\n full got %r\n full want %r' % (
                            name, extra, have, exp))
                if any(k in ('interrupt', 'raised') or (k == 'got' and 0 <= i < len(mp.spec['steps']) and
                                                      mp.spec['steps'][i]['op'] in ('wait', 'cond', 'spawn'))
                       for (i, k, t, v) in exp):
                    interacting = True
            for name in r.log:
                if name not in model.procs:
                    out.fail('process_log', pre + 'unknown_process', name)
            # ---- callbacks: exactly once, at the trigger time
            hcb = sorted((k, t) for (k, t) in r.cb if soft is None or t < soft)
            wcb = sorted((k, t) for (k, t) in model.cb if soft is None or t < soft)
            if hcb != wcb:
                out.fail('callbacks', pre + ('count' if len(hcb) != len(wcb) else 'time'), 'callbacks ran %r, model %r' % (hcb, wcb))
        # ---- the value of a condition read through its mapping interface
        for mode, r in (('standalone', real), ('embedded', real2)):
            if r.api_errors:
                out.fail('condition', mode + ':value_api', 'ConditionValue: %s' % sorted(set(r.api_errors))[:3])
            for (k, val) in r.cond_values:
                ev = model.events[k]
                if ev.state is None or ev.state[0] != 'ok' or norm_payload(val) != ev.state[1]:
                    out.fail('condition', mode + ':member_value', 'a condition value holds %r for event %d; model %r' % (val, k, ev.state))
                    break
        # ---- native watchers (embedded): same value / time as the trigger
        end = got2.get('now_inside')
        for (k, kind, t, v) in real2.watch_log:
            ev = model.events[k]
            if kind == 'held':
                continue
            want_kind = 'got' if ev.state is not None and ev.state[0] == 'ok' else 'raised'
            if ev.state is None or ev.time != t or kind != want_kind or norm_payload(v) != ev.state[1]:
                out.fail('native_waiter', 'value_or_time', 'activity awaiting event %d %s %r at %r; model %r at %r' % (
                    k, kind, v, t, ev.state, ev.time))
            elif prog.get('watch_hold') and end is not None and got2['outcome'] == 'ok' and t + prog['watch_hold'] < end and \
                    (k, 'held', t + prog['watch_hold'], None) not in real2.watch_log:
                out.fail('native_waiter', 'handler_did_not_go_on', 'the activity that %s event %d at %r never reached the end of '
                         'its %r pause (the simulation went on until %r); careless awaiters of %r' % (
                             kind, k, t, prog['watch_hold'], end, prog.get('careless')))
                out.features.add('careless_watcher')
        out.nontrivial = interacting and len(prog['procs']) >= 2
        for mp in model.procs.values():
            for (i, k, t, v) in mp.log:
                s_ = mp.spec['steps'][i] if 0 <= i < len(mp.spec['steps']) else {}
                if k == 'raised' and s_.get('kind') == 'coro_fail':
                    out.features.add('yielded_coroutine_failed')
                if k == 'raise' and mp.spec.get('noyield'):
                    out.features.add('raised_before_first_yield')
        if any(model.events[b].state is not None for (a, b) in prog.get('chains', ())):
            out.features.add('chained_trigger_' + ('ok' if all(
                model.events[b].state is None or model.events[b].state[0] == 'ok' for (a, b) in prog['chains']) else 'fail'))
        if prog.get('until') is not None:
            out.features.add('until_' + ('event' if isinstance(prog['until'], list) else 'time'))
        if want['outcome'] != 'ok':
            out.features.add('run_' + want['outcome'])
        return out


CHECK = C18()
