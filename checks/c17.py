"""C17 - Concurrent[...] handlers select exactly the documented sets of failures."""
import gc
import itertools
from hypothesis import strategies as st

from usim import Concurrent

from vlib.runner import Check, Outcome, InvalidCase


# fixed hierarchy  E > L > {K, I}; V; R
class E(Exception):
    pass


class L(E):
    pass


class K(L):
    pass


class I(L):  # noqa: E742
    pass


class V(Exception):
    pass


class R(Exception):
    pass


BASE = {'E': E, 'L': L, 'K': K, 'I': I, 'V': V, 'R': R}
TOKENS = ['E', 'L', 'K', 'I', 'V', 'R', 'C[K]', 'C[L]']


# ---- a type expression is: str token of BASE | int (forest class) | {'c': [type exprs]} (nested Concurrent)
def norm(tok):
    if isinstance(tok, str) and tok.startswith('C['):
        return {'c': [tok[2:-1]]}
    return tok


class World:
    def __init__(self, forest=None):
        self.classes = []
        for i, parents in enumerate(forest or ()):
            bases = tuple(self.classes[p] for p in parents if p < i) or (Exception,)
            try:
                # (distinct classes may well carry the same name: netlib.Timeout and dblib.Timeout, classes made by a factory)
                self.classes.append(type('X%d' % (i % 3), bases, {}))
            except TypeError:
                raise InvalidCase('inconsistent MRO')

    def plain(self, t):
        return BASE[t] if isinstance(t, str) else self.classes[t]

    # ---- reference predicate on type expressions
    def sub(self, r, h):
        """is a child of type expression r matched by listed type expression h?"""
        r, h = norm(r), norm(h)
        rd, hd = isinstance(r, dict), isinstance(h, dict)
        if rd != hd:
            return False
        if not rd:
            return issubclass(self.plain(r), self.plain(h))       # ordinary classes: plain subclassing
        return self.match(h['c'], False, r['c'])

    def match(self, H, open_, Rs):
        if not all(any(self.sub(r, h) for r in Rs) for h in H):
            return False
        return open_ or all(any(self.sub(r, h) for h in H) for r in Rs)

    # ---- real objects
    def make_type(self, t):
        t = norm(t)
        if isinstance(t, dict):
            return Concurrent[tuple(self.make_type(c) for c in t['c'])]
        return self.plain(t)

    def make_exc(self, t):
        t = norm(t)
        if isinstance(t, dict):
            return Concurrent(*[self.make_exc(c) for c in t['c']])
        return self.plain(t)()


def leaves(world, t):
    t = norm(t)
    if isinstance(t, dict):
        out = []
        for c in t['c']:
            out += leaves(world, c)
        return out
    return [world.plain(t)]


class C17(Check):
    pid = 'C17'
    level = 'exploration'
    exhaustive = True
    rule = ('(a) exhaustive table: every multiset of 1-3 child types over {E>L>{K,I}, V, R, Concurrent[K], Concurrent[L]} '
            '(the empty failure included) x every handler of 1-3 listed types with and without `...` (also after the same handler '
            'was spelled with `...` in another position), bare Concurrent and Concurrent[...]; '
            '(b) Hypothesis: random class forests (<=7 classes, multiple inheritance), raised multisets <=5, handlers <=4, '
            'nesting <=2. Each pair is checked through isinstance, issubclass and a real try/except against the reference '
            'predicate; plus type identity/order-insensitivity (also across garbage collection) and flattened(). '
            'non-trivial = handler with >=2 listed types, or a subclass (not exact) match, or nesting; distinct by sha1. '
            'exhaustive=true refers to part (a).')
    budgets = {'quick': dict(examples=1500, procs=4), 'thorough': dict(examples=60000, procs=16)}
    level_text = ('Part (a) enumerates the complete finite table (about 30k raised x handler pairs x 3 mechanisms) and '
                  'compares each with the reference predicate written from the statement; part (b) samples random '
                  'hierarchies. Type identity, order/multiplicity insensitivity, weak-cache behaviour and flattened() '
                  'order are checked on every case.')
    level_note = 'Reference predicate is recursive for nested Concurrent types; plain classes use issubclass.'
    technique = 'exhaustive enumeration of a finite table + property-based testing (random class forests) against a reference predicate'
    design_ref = 'DESIGN.md section 5, C17'

    def enumerate(self, tier):
        raised = [[]]           # (a failure without children is of the bare type and matches only bare handlers)
        for n in (1, 2, 3):
            raised += [list(c) for c in itertools.combinations_with_replacement(TOKENS, n)]
        handlers = [{'bare': True}, {'bare': True, 'ellipsis_only': True}]
        for n in (1, 2, 3):
            for c in itertools.combinations(TOKENS, n):
                handlers.append({'types': list(c), 'open': False})
                handlers.append({'types': list(c), 'open': True})
                # the same handler after somebody spelled it with `...` in another position
                handlers.append({'types': list(c), 'open': True, 'pre_dots': 0})
        # one case = one raised multiset against all handlers (keeps the case count manageable)
        for r in raised:
            yield {'forest': None, 'raised': r, 'handlers': handlers}
        # many specialisations alive at once (a long run with many kinds of failures)
        for n in (40, 150, 400):
            yield {'pressure': n}
        # ... the kept ones not being used at all meanwhile (a cache that forgets what was not used recently)
        for n in (300, 700):
            yield {'pressure': n, 'quiet': True}

    def strategy(self, tier):
        @st.composite
        def gen(draw):
            if draw(st.integers(0, 3)) == 0:
                # failures built by a real Scope from what its children raise in one time step
                kids = []
                for _ in range(draw(st.integers(1, 5))):
                    k = draw(st.sampled_from(['raise', 'raise', 'raise', 'pass_cancel', 'cleanup_raise']))
                    kids.append({'kind': k, 'cls': draw(st.sampled_from(sorted(BASE))), 'rounds': draw(st.integers(0, 2))})
                handlers = [{'types': draw(st.lists(st.sampled_from(sorted(BASE)), min_size=1, max_size=3, unique=True)),
                             'open': draw(st.booleans())} for _ in range(draw(st.integers(1, 6)))]
                return {'scope': kids, 'handlers': handlers + [{'bare': True}]}
            n = draw(st.integers(2, 7))
            forest = [sorted(set(draw(st.lists(st.integers(0, max(i - 1, 0)), max_size=2)))) if i else []
                      for i in range(n)]
            plain = st.integers(0, n - 1)
            texpr = st.recursive(plain, lambda ch: st.builds(lambda cs: {'c': cs}, st.lists(ch, min_size=1, max_size=3)),
                                 max_leaves=4)
            raised = draw(st.lists(texpr, min_size=1, max_size=5))
            handlers = []
            for _ in range(draw(st.integers(1, 6))):
                handlers.append({'types': draw(st.lists(texpr, min_size=1, max_size=4)), 'open': draw(st.booleans())})
                if handlers[-1]['open'] and draw(st.integers(0, 2)) == 0:
                    handlers[-1]['pre_dots'] = draw(st.integers(0, len(handlers[-1]['types']) - 1))
            case = {'forest': forest, 'raised': raised, 'handlers': handlers}
            if draw(st.integers(0, 2)) == 0:
                case['shared'] = [draw(st.integers(0, 4)), draw(st.sampled_from(['sibling', 'deep']))]
            return case
        return gen()

    def scope_case(self, case, out):
        """children of one Scope fail in one time step; the failure must be Concurrent[set of their types]"""
        import usim
        from usim import Scope, time, instant
        kids = case['scope']
        # FIFO model of the rounds of that time step: who fails before the scope's own abort is delivered
        queue = [(i, k['rounds'] + (1 if k['kind'] == 'pass_cancel' else 0)) for i, k in enumerate(kids)
                 if k['kind'] != 'cleanup_raise']
        failed, aborted = [], False
        while queue:
            i, r = queue.pop(0)
            if i == 'CANCEL':
                aborted = True
                break
            if r > 0:
                queue.append((i, r - 1))
            else:
                failed.append(i)
                if len(failed) == 1:
                    queue.append(('CANCEL', 0))
        survivors = {i for i, _ in queue if i != 'CANCEL'}
        # children closed by the abort whose clean-up raises fail as well (in spawn order of the closing loop)
        # (without an earlier failure they reach the end of their wait at t=50 and fail there, in spawn order)
        closed_fail = [i for i, k in enumerate(kids) if k['kind'] == 'cleanup_raise']
        want_objs = [i for i in failed if kids[i]['kind'] == 'raise'] + closed_fail
        made = {}

        async def child(i, k, t0):
            if k['kind'] == 'cleanup_raise':
                try:
                    await (time + 50)
                finally:
                    made[i] = BASE[k['cls']]()
                    raise made[i]
            await (time + 1)
            for _ in range(k['rounds']):
                await instant
            if k['kind'] == 'pass_cancel':
                await t0                      # raises TaskCancelled, which escapes this child
            made[i] = BASE[k['cls']]()
            raise made[i]

        async def idle():
            await (time + 100)

        result = {}

        async def main():
            try:
                async with Scope() as s:
                    t0 = s.do(idle())
                    t0.cancel('x')
                    for i, k in enumerate(kids):
                        s.do(child(i, k, t0))
            except BaseException as e:      # noqa
                result['exc'] = e
        usim.run(main())
        exc = result.get('exc')
        desc = 'children %r' % ([(k['kind'], k['cls'], k['rounds']) for k in kids],)
        if not want_objs:
            if exc is not None:
                out.fail('scope_failure', 'unexpected_exception', '%s: scope raised %r, expected nothing' % (desc, exc))
            return
        if not isinstance(exc, Concurrent):
            out.fail('scope_failure', 'not_concurrent', '%s: scope raised %r' % (desc, exc))
            return
        want_types = {BASE[kids[i]['cls']] for i in want_objs}
        if type(exc) is not Concurrent[tuple(want_types)]:
            got = {type(c) for c in exc.children}
            sig = 'type_missing_children' if got < want_types else 'type_wrong'
            out.fail('scope_failure', sig, '%s: failure is %s, expected Concurrent over %r' % (
                desc, type(exc).__name__, sorted(t.__name__ for t in want_types)))
            return
        if [id(c) for c in exc.children] != [id(made[i]) for i in want_objs]:
            out.fail('scope_failure', 'children_objects', '%s: children %r' % (desc, exc.children))
        wd = World(None)
        raised = [kids[i]['cls'] for i in want_objs]
        for h in case['handlers']:
            out.evals += 1
            if h.get('bare'):
                ref, H = True, Concurrent
            else:
                hts = [BASE[t] for t in h['types']]
                H = Concurrent[tuple(hts + [...])] if h['open'] else Concurrent[tuple(hts)]
                ref = wd.match(h['types'], h['open'], raised)
            if isinstance(exc, H) != ref:
                out.fail('isinstance', 'scope_built_false_%s' % ('positive' if not ref else 'negative'),
                         '%s; handler %r: reference %s' % (desc, h, ref))
        out.nontrivial = len(want_objs) >= 2 or any(k['kind'] != 'raise' for k in kids)
        out.features.add('scope_built')

    def pressure_case(self, case, out):
        n = case['pressure']
        if not (1 <= n <= 2000):
            raise InvalidCase('pressure')
        kept = Concurrent[KeyError]
        kept2 = Concurrent[LookupError, ...]
        failure = Concurrent(KeyError('k'))
        classes = [type('E%d' % i, (Exception,), {}) for i in range(n)]
        alive = []
        for i, cls in enumerate(classes):
            alive.append(Concurrent[cls] if i % 2 else type(Concurrent(cls())))
            out.evals += 1
            if (i % 25 == 24 and not case.get('quiet')) or i == n - 1:
                if Concurrent[KeyError] is not kept or type(failure) is not kept or Concurrent[LookupError, ...] is not kept2 \
                        or type(Concurrent(KeyError())) is not kept:
                    out.fail('type_identity', 'forgotten_under_pressure',
                             'with %d other specialisations alive, Concurrent[KeyError] is no longer the identical class' % (i + 1))
                    break
                try:
                    raise Concurrent(KeyError('x'))
                except kept:
                    pass
                except Concurrent:
                    out.fail('except', 'missed_identical_class_under_pressure', 'with %d other specialisations alive, `except '
                             'Concurrent[KeyError]` (a kept reference) no longer catches Concurrent(KeyError())' % (i + 1))
                    break
                if not isinstance(failure, kept2) or isinstance(Concurrent(alive[0].specialisations[0]()), kept):
                    out.fail('isinstance', 'wrong_under_pressure', 'matching changed with %d specialisations alive' % (i + 1))
                    break
        out.nontrivial = n >= 129
        out.features.add('pressure')

    def run_case(self, case, tier='quick'):
        out = Outcome()
        if 'pressure' in case:
            self.pressure_case(case, out)
            out.evals = max(out.evals, 1)
            return out
        if 'scope' in case:
            self.scope_case(case, out)
            out.evals = max(out.evals, 1)
            return out
        w = World(case.get('forest'))
        raised = list(case['raised'])
        try:
            objs = [w.make_exc(t) for t in raised]
            sh = case.get('shared')
            if sh and raised:
                # the very same failure object occurs twice in the hierarchy (two awaiters of one failed task
                # report the identical exception): as a sibling, or once more inside another nested failure
                i = sh[0] % len(raised)
                if sh[1] == 'sibling':
                    objs.append(objs[i])
                    raised.append(raised[i])
                else:
                    objs.append(Concurrent(objs[i]))
                    raised.append({'c': [raised[i]]})
                out.features.add('shared_object')
            exc = Concurrent(*objs)
        except RecursionError:
            raise InvalidCase('too deep')
        # ---- type depends only on the set of child types; equal specialisations are identical
        types = [w.make_type(t) for t in raised]
        T = type(exc)
        if not raised:
            # a failure without children is of the bare type; `Concurrent[()]` is not a documented spelling
            if T is not Concurrent:
                out.fail('type_identity', 'empty_not_bare', 'type(Concurrent()) is %r' % (T,))
        elif T is not Concurrent[tuple(types)] or T is not Concurrent[tuple(reversed(types))] \
                or T is not Concurrent[tuple(types + types[:1])]:
            out.fail('type_identity', 'order_or_multiplicity', 'type(Concurrent(*%r)) is not the specialisation of its type set' % (raised,))
        exc2 = Concurrent(*[w.make_exc(t) for t in reversed(raised)])
        if type(exc2) is not T:
            out.fail('type_identity', 'instance_order', 'reversed children give a different class for %r' % (raised,))
        name_before = T.__name__
        del exc2
        gc.collect()
        if raised and Concurrent[tuple(types)] is not T:
            out.fail('type_identity', 'not_cached_while_alive', 'specialisation re-created while the old class is alive')
        # ---- flattened(): leaves preserved, in order; no-op without nesting
        flat = exc.flattened()
        want = []
        for t in raised:
            want += leaves(w, t)
        got = [type(c) for c in flat.children]
        if got != want:
            sig = 'order' if sorted(map(id, got)) == sorted(map(id, want)) else 'content'
            out.fail('flattened', sig, 'flattened() of %r gives %r, expected %r' % (raised, got, want))
        nested = any(isinstance(norm(t), dict) for t in raised)
        if not nested and flat is not exc:
            out.fail('flattened', 'not_noop', 'flattened() without nesting returned a new object')
        if nested:
            # the very leaf objects, not copies
            def leaf_objs(e):
                res = []
                for c in e.children:
                    res += leaf_objs(c) if isinstance(c, Concurrent) else [c]
                return res
            if [id(x) for x in leaf_objs(exc)] != [id(x) for x in flat.children]:
                out.fail('flattened', 'leaf_identity', 'flattened() does not carry the original leaf exceptions in order')
            out.features.add('nested')
        # ---- handlers
        for h in case['handlers']:
            out.evals += 1
            if h.get('bare'):
                H = Concurrent[...] if h.get('ellipsis_only') else Concurrent
                ref = True
                desc = 'Concurrent'
            else:
                hts = [w.make_type(t) for t in h['types']]
                other = None
                if h.get('pre_dots') is not None and h['open']:
                    # an undocumented spelling (`...` not last) evaluated first must not change what the documented one
                    # means; whatever it returns is kept alive (specialisations are cached weakly) and not judged
                    items = list(hts)
                    items.insert(min(h['pre_dots'], len(items) - 1) if len(items) > 1 else 0, ...)
                    try:
                        other = Concurrent[tuple(items)]
                    except Exception:       # noqa
                        other = None
                    out.features.add('dots_elsewhere_first')
                H = Concurrent[tuple(hts + [...])] if h['open'] else Concurrent[tuple(hts)]
                del other
                ref = w.match(h['types'], h['open'], raised)
                desc = 'Concurrent[%s%s]' % (h['types'], ', ...' if h['open'] else '')
            try:
                m1 = isinstance(exc, H)
                m2 = issubclass(type(exc), H)
            except Exception as err:        # noqa  (matching must answer, not fail)
                out.fail('isinstance', 'raised:%s' % type(err).__name__, 'raised %r, handler %s: isinstance/issubclass raised %r' % (
                    raised, desc, err))
                continue
            try:
                raise exc
            except H:
                m3 = True
            except BaseException:
                m3 = False
            exc.__traceback__ = None
            ctx = 'raised %r, handler %s: reference=%s isinstance=%s issubclass=%s except=%s' % (
                raised, desc, ref, m1, m2, m3)
            if m1 != ref:
                out.fail('isinstance', 'false_positive' if m1 else 'false_negative', ctx)
            if m2 != ref:
                out.fail('issubclass', 'false_positive' if m2 else 'false_negative', ctx)
            if m3 != ref:
                if m3:
                    out.fail('except', 'caught_wrongly', ctx)
                else:
                    mro = H in type(exc).__mro__
                    out.fail('except', 'missed_by_except_clause' if not mro else 'missed_although_in_mro', ctx)
            if not h.get('bare'):
                if len(h['types']) >= 2 or (ref and not h['open'] and any(
                        not isinstance(norm(t), dict) and not any(
                            not isinstance(norm(x), dict) and w.plain(x) is w.plain(t) for x in raised)
                        for t in h['types'])):
                    out.nontrivial = True
        out.evals = max(out.evals, 1)
        return out


CHECK = C17()
