"""C13 - Pipe shares throughput proportionally; transfers end at the fluid-model time."""
from fractions import Fraction as F
from hypothesis import strategies as st

from vlib.runner import Check, Outcome, InvalidCase
from vlib.interp import execute, num
from vlib.probe import Probe
from vlib.scopelog import foreign_exception, Structure

INF = float('inf')
DY = [0.25, 0.5, 1, 1, 2, 3, 4, 8]


def fluid(T, trs):
    """Exact processor sharing.  trs: list of dicts(start, V, L, remove|None) with Fractions
    (T may be None = infinite).  Returns list of (completion time | None, ambiguous)."""
    n = len(trs)
    rem = {}
    done = [None] * n
    amb = [False] * n
    pending = sorted(range(n), key=lambda i: trs[i]['start'])
    t = None
    guard = 0
    while (pending or rem) and guard < 10000:
        guard += 1
        # rates
        tot = sum(trs[i]['L'] for i in rem if trs[i]['L'] is not None) if rem else 0
        rate = {}
        for i in rem:
            L = trs[i]['L']
            if T is None:
                rate[i] = L           # None = infinitely fast
            else:
                rate[i] = L * min(F(1), T / tot) if tot > 0 else L
        cands = []
        if pending:
            cands.append(trs[pending[0]]['start'])
        for i in rem:
            if trs[i]['remove'] is not None:
                cands.append(trs[i]['remove'])
            if rate[i] is None or rem[i] == 0:
                cands.append(t)
            else:
                cands.append(t + rem[i] / rate[i])
        nt = min(cands)
        if t is not None and nt > t:
            for i in rem:
                if rate[i] is not None:
                    rem[i] -= rate[i] * (nt - t)
        t = nt
        # completions at t
        for i in list(rem):
            fin = rate[i] is None or rem[i] <= 0
            rm = trs[i]['remove'] is not None and trs[i]['remove'] <= t
            if fin and rm:
                amb[i] = True
            if fin:
                done[i] = t
                del rem[i]
            elif rm:
                del rem[i]
        # arrivals at t
        while pending and trs[pending[0]]['start'] <= t:
            i = pending.pop(0)
            if trs[i]['remove'] is not None and trs[i]['remove'] <= trs[i]['start']:
                amb[i] = True
                continue
            rem[i] = trs[i]['V']
            if trs[i]['V'] == 0:
                done[i] = t
                del rem[i]
    return done, amb


@st.composite
def huge_limit_cases(draw):
    """One limit many orders of magnitude above the others (it dominates every sum of limits) in a tie-free setting: all
    arrivals on dates of the grid, no removals, the ordinary transfers outlast the huge one (an arrival or removal an ulp
    before or after a completion makes all the difference next to such a limit, see section 10)."""
    T = draw(st.sampled_from([1, 2, 4]))
    kids = []
    for i in range(draw(st.integers(1, 3))):
        kids.append({'name': 't%d' % i, 'steps': [{'op': 'sleep', 'd': draw(st.sampled_from([0, 0.5, 1]))},
                                                  {'op': 'transfer', 'p': 0, 'total': draw(st.sampled_from([16, 24, 40])),
                                                   'thr': draw(st.sampled_from([0.5, 1, 1, 2]))}]})
    kids.append({'name': 't9', 'steps': [{'op': 'sleep', 'd': draw(st.sampled_from([1.5, 2, 3]))},
                                         {'op': 'transfer', 'p': 0, 'total': draw(st.sampled_from([2, 4, 8])),
                                          'thr': draw(st.sampled_from([2.0 ** 60, 2.0 ** 70, 2.0 ** 55]))}]})
    roots = [{'name': 'r0', 'steps': [{'op': 'scope', 'name': 'S', 'children': kids, 'body': [], 'catch': True}]},
             {'name': 'fin', 'steps': [{'op': 'at_ge', 't': 1000}, {'op': 'transfer', 'p': 0, 'total': 4, 'thr': None}]}]
    return {'prog': {'start': 0, 'objs': {'pipes': [{'thr': T}]}, 'roots': roots}, 'targets': [k['name'] for k in kids], 'faults': []}


@st.composite
def cases(draw, tier):
    big = tier == 'thorough'
    if draw(st.integers(0, 9)) == 0:
        return draw(huge_limit_cases())

    def pipe_spec():
        r = draw(st.integers(0, 11))
        if r < 2:
            return {'unbounded': True}
        if r < 3:
            return {'thr': 'inf'}          # the documented infinite-throughput Pipe
        return {'thr': draw(st.sampled_from(DY))}
    pipes = [pipe_spec() for _ in range(draw(st.sampled_from([1, 1, 1, 2])))]
    kids = []
    n = draw(st.integers(1, 6 if big else 5))

    def transfer(pi=None, first=True):
        V = draw(st.sampled_from([0, 0.5, 1, 2, 3, 4, 6, 8, 12]))
        L = draw(st.sampled_from([None, None] + DY + ['inf']))        # 'inf': limited by the pipe only, like None

        return {'op': 'transfer', 'p': draw(st.integers(0, len(pipes) - 1)) if pi is None else pi, 'total': V, 'thr': L}
    for i in range(n):
        tr = transfer()
        steps = []
        off = draw(st.sampled_from([0, 0, 0.5, 1, 2, 3]))
        if off:
            steps.append({'op': 'sleep', 'd': off})
        w = draw(st.integers(0, 7))
        if w == 0:
            tr = {'op': 'until', 'name': 'U%d' % i, 'notif': ['delay', draw(st.sampled_from([0.5, 1, 2, 3]))],
                  'children': [], 'body': [tr]}
        steps.append(tr)
        if draw(st.integers(0, 3)) == 0:
            steps.append({'op': 'transfer', 'p': tr.get('p', 0), 'total': draw(st.sampled_from([0, 1, 2])), 'thr': None})
        kids.append({'name': 't%d' % i, 'steps': steps})
    if draw(st.integers(0, 3)) == 0:
        kids.append({'name': 'x0', 'steps': [{'op': 'sleep', 'd': draw(st.sampled_from([0.5, 1, 1.5, 2, 3]))},
                                             {'op': 'cancel', 'ref': 't0', 'token': [1]}]})
    blk = {'op': 'scope', 'name': 'S', 'children': kids, 'body': [], 'catch': True}
    mode = draw(st.integers(0, 9))
    if mode == 0:
        blk['op'], blk['notif'] = 'until', ['delay', draw(st.sampled_from([1, 2, 3, 5]))]
    elif mode <= 2:
        # some transfers run as volatile tasks: they are closed when the body and the other children are done
        for k in kids:
            if k['name'].startswith('t') and draw(st.booleans()):
                k['volatile'] = True
        blk['body'] = [{'op': 'sleep', 'd': draw(st.sampled_from([0.5, 1, 2, 3]))}]
    elif mode == 3:
        # the scope fails while transfers are in flight: its children are closed
        blk['body'] = [{'op': 'sleep', 'd': draw(st.sampled_from([0.5, 1, 2, 3]))}, {'op': 'raise', 'eid': 1, 'cls': 'E'}]
    roots = [{'name': 'r0', 'steps': [blk]}]
    if draw(st.integers(0, 2)) == 0:
        # transfers of an activity outside the scope share the pipes with whatever happens inside
        roots.append({'name': 'ot', 'steps': [{'op': 'sleep', 'd': draw(st.sampled_from([0, 0.5, 1]))}, transfer(0),
                                              transfer(len(pipes) - 1, first=False)]})
    fin = {'name': 'fin', 'steps': [{'op': 'at_ge', 't': 1000}]}
    for pi in range(len(pipes)):
        fin['steps'] += [{'op': 'transfer', 'p': pi, 'total': 4, 'thr': None}, {'op': 'transfer', 'p': pi, 'total': 3, 'thr': 1}]
    roots.append(fin)
    prog = {'start': draw(st.sampled_from([0, 0, -2, 1.5])), 'objs': {'pipes': pipes}, 'roots': roots}
    targets = ['t%d' % i for i in range(n)]
    faults = draw(st.lists(st.fixed_dictionaries({'k': st.integers(0, 80), 'target': st.sampled_from(targets),
                                                  'token': st.just([1])}), max_size=3))
    return {'prog': prog, 'targets': targets, 'faults': faults}


def judge(out, case, it, oc, exc, ctx):
    prog = case['prog']
    if oc != 'ok':
        out.fail('run_outcome', ('exc:' + type(exc).__name__) if oc == 'exc' else oc, '%r;%s' % (exc, ctx))
        return
    fe = foreign_exception(it.log, it.end_seq)
    if fe:
        out.fail('run_outcome', 'activity_exc:%s' % fe[1][1], '%s%s ended with %r, which the program did not raise;%s' % (
            fe[0][1], fe[0][2], fe[1], ctx))
    S = Structure(prog)
    log = [e for e in it.log if e[0] <= it.end_seq]
    specs = prog['objs']['pipes']
    if not specs:
        raise InvalidCase('no pipe')
    Ts = [None if (sp.get('unbounded') or sp['thr'] == 'inf') else F(sp['thr']) for sp in specs]
    fin_time = {}
    for e in log:
        if e[3] == 'fin':
            fin_time[e[1]] = e[4]
    begun = {}
    for e in log:
        if e[3] in ('begin', 'ok'):
            try:
                node = S.step_at(e[1], e[2])
            except Exception:
                continue
            if node.get('op') != 'transfer':
                continue
            if e[3] == 'begin':
                begun[(e[1], e[2])] = [e, None, node]
            else:
                begun[(e[1], e[2])][1] = e
    # interrupted transfers leave at the time their block / activity was left
    leave_time = {}
    for e in log:
        if e[3] in ('leave',):
            leave_time[(e[1], e[2])] = e[4]
    # a transfer whose scope was left is interrupted: nothing of it may run (or occupy the pipe) afterwards
    s_leave = next((e for e in log if e[1] == 'r0' and e[3] == 'leave' and e[2] == (0,)), None)
    if s_leave is not None:
        late = [e for e in log if e[0] > s_leave[0] and e[1] in case['targets']]
        if late:
            out.fail('fluid', 'transfer_outlived_scope', 'scope left at t=%r (seq %d) but %s logged %r afterwards;%s' % (
                s_leave[4], s_leave[0], late[0][1], late[0][2:5], ctx))
    removed_midflight = False
    for pi, T in enumerate(Ts):
        trs, keys = [], []
        for key, (b, okev, node) in sorted(begun.items(), key=lambda kv: kv[1][0][0]):
            if node.get('p', 0) != pi:
                continue
            L = node.get('thr')
            if L == 'inf':
                L = None          # an infinite limit of its own = no limit of its own
            L = F(num(L)) if L is not None else (T if T is not None else None)
            remove = None
            if okev is None:
                # left without completing: removal time = when the enclosing until-block or the activity ended
                act, idx = key
                rt = None
                for cut in range(len(idx) - 1, 0, -1):
                    if idx[cut] == 'b' and (act, idx[:cut]) in leave_time:
                        rt = leave_time[(act, idx[:cut])]
                        break
                if rt is None:
                    rt = fin_time.get(act)
                if rt is None:
                    continue          # still running at the end of the run (cannot happen: run ended)
                remove = F(rt)
            trs.append({'start': F(b[4]), 'V': F(num(node['total'])), 'L': L, 'remove': remove})
            keys.append((key, b, okev))
        done, amb = fluid(T, trs)
        # A transfer that an activity starts in the time step in which an earlier one of its own has completed arrives -
        # in exact arithmetic - exactly at that completion; the logged (rounded) date may lie an ulp before the exact
        # one, which would make the two overlap in the model (a newcomer with a huge limit would starve the last bit
        # of its predecessor): such arrivals are tied to the model's own completion date of the predecessor.
        follows = {}
        for i, (key, b, okev) in enumerate(keys):
            for j, (key2, b2, okev2) in enumerate(keys):
                if j != i and key2[0] == key[0] and okev2 is not None and okev2[0] < b[0] and okev2[4] == b[4]:
                    follows[i] = j
        unplaced = sorted(follows, key=lambda i: float(trs[i]['start']))
        while unplaced:
            i = unplaced.pop(0)
            # the model without this follower and the ones that arrive still later: what happens before it arrives does
            # not depend on them, so the completion date of its predecessor is final
            t_i = float(trs[i]['start'])
            idx = [k for k in range(len(trs)) if k != i and not (k in unplaced and float(trs[k]['start']) >= t_i)]
            sub_done, _ = fluid(T, [trs[k] for k in idx])
            d_prev = dict(zip(idx, sub_done)).get(follows[i])
            if d_prev is not None and abs(t_i - float(d_prev)) <= 1e-9 * (1 + abs(float(d_prev))):
                trs[i]['start'] = d_prev
        done, amb = fluid(T, trs)
        for (key, b, okev), tr, d, a in zip(keys, trs, done, amb):
            if a:
                out.features.add('tie_removal_completion')
                continue
            what = '%s%s V=%s L=%s start=%s' % (key[0], key[1], tr['V'], tr['L'], tr['start'])
            if okev is None:
                if d is not None and abs(float(d) - float(tr['remove'])) <= 1e-9 * (1 + abs(float(d))):
                    out.features.add('tie_removal_completion')      # equal up to rounding: either may win
                    continue
                if d is not None and d < tr['remove']:
                    out.fail('fluid', 'not_completed', '%s should have completed at %s but was still running when removed at %s;%s' % (
                        what, float(d), float(tr['remove']), ctx))
                if tr['remove'] > tr['start']:
                    removed_midflight = True
                continue
            if d is None:
                out.fail('fluid', 'completed_unexpectedly', '%s completed at %r, model: never;%s' % (what, okev[4], ctx))
                continue
            got, want = okev[4], float(d)
            if abs(got - want) > 1e-9 * (1 + abs(want)):
                if tr['V'] == 0 or (T is None and tr['L'] is None):
                    sig = 'zero_time_transfer_took_time'
                elif got > want:
                    sig = 'too_slow_after_removal' if removed_midflight else 'too_slow'
                else:
                    sig = 'too_fast'
                out.fail('fluid', sig, '%s completed at %r, fluid model %r (pipe %s);%s' % (what, got, want, T, ctx))
        # features
        if T is not None:
            evs = sorted({t['start'] for t in trs})
            for t0 in evs:
                act = [t for t, d in zip(trs, done) if t['start'] <= t0 and (d is None or d > t0)
                       and (t['remove'] is None or t['remove'] > t0)]
                if len(act) >= 2 and sum(t['L'] for t in act) > T:
                    out.features.add('congested')
                    if len({t['L'] for t in act}) > 1:
                        out.features.add('congested_unequal_limits')
    if removed_midflight:
        out.features.add('removal_midflight')
    return removed_midflight


class C13(Check):
    pid = 'C13'
    level = 'exploration'
    rule = ('1-2 pipes - Pipe(throughput T dyadic), Pipe(inf) or UnboundedPipe - with 1-6 transfers (volume incl. 0, limit '
            'dyadic or default, overlapping start offsets, negative/fractional start time), some inside until(time+d), '
            'cancelled by a sibling or by an injected cancel, run as volatile tasks closed at the end of their scope, '
            'closed by a failing scope body or by an enclosing until(), optionally next to transfers of an activity '
            'outside the scope; two probe transfers per pipe after everything. '
            'Oracle: exact processor-sharing model (fractions.Fraction), tolerance 1e-9*(1+|t|). non-trivial = >=2 '
            'overlapping transfers with sum of limits > T and unequal limits, or a removal mid-flight; distinct by '
            'sha1(program+faults).')
    budgets = {'quick': dict(examples=2400, procs=4), 'thorough': dict(examples=300000, procs=16)}
    level_text = ('Reference-model comparison: every completion time of every generated transfer set must equal the '
                  'rational fluid-model time (rate = limit * min(1, T / sum of active limits)); removed transfers are '
                  'removed from the model at their removal time, so later completions and the probe transfers expose '
                  'any bandwidth they keep.')
    level_note = ('Arrival and removal times are taken from the log (they are fixed by the program, not by the pipe). '
                  'Infinite per-transfer limits on a finite pipe are not generated; Pipe(inf) is modelled like the '
                  'unbounded pipe (every transfer runs at its own limit). Ties removal==completion skipped.')
    technique = 'property-based testing against an exact rational fluid (processor-sharing) reference model'
    design_ref = 'DESIGN.md section 4, C13'

    def strategy(self, tier):
        return cases(tier)

    def run_case(self, case, tier='quick'):
        out = Outcome()
        mk = lambda: Probe(b_step=4000, b_total=40000)  # noqa
        it, oc, exc, p = execute(case['prog'], mk())
        out.evals = 1
        judge(out, case, it, oc, exc, ' faults=None')
        N = p.k
        for f in case['faults']:
            faults = [dict(f, k=f['k'] % (N + 1))]
            it, oc, exc, p = execute(case['prog'], mk(), faults=faults)
            out.evals += 1
            judge(out, case, it, oc, exc, ' faults=%r' % (faults,))
        if {'congested_unequal_limits', 'removal_midflight'} & out.features:
            out.nontrivial = True
        return out


CHECK = C13()
