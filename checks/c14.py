"""C14 - interval() ticks on a fixed grid, delay() pauses a fixed span, for any body."""
from hypothesis import strategies as st

from vlib.runner import Check, Outcome, InvalidCase
from vlib.interp import execute, num
from vlib.probe import Probe
from vlib.scopelog import foreign_exception, Structure

PERIODS = [0, 0, 0.25, 0.5, 1, 1, 2, 3]


@st.composite
def cases(draw, tier):
    big = tier == 'thorough'
    floaty = draw(st.integers(0, 9)) == 0

    def ticker(i):
        op = draw(st.sampled_from(['interval', 'interval', 'delay']))
        if floaty:
            p = draw(st.floats(0.001, 1000, allow_nan=False))
            durs = [draw(st.sampled_from([p / 2, p / 3, p * 0.999, p * 1.001, p * 2, 0, None]))
                    for _ in range(draw(st.integers(1, 6)))]
        else:
            p = draw(st.sampled_from(PERIODS))
            if draw(st.integers(0, 11)) == 0:
                p = -draw(st.sampled_from([0.5, 1, 2]))
            durs = []
            for _ in range(draw(st.integers(1, 8 if big else 6))):
                r = draw(st.integers(0, 9))
                if r < 4:
                    durs.append(draw(st.sampled_from([0, None, p / 2 if p > 0 else 0, p / 4 if p > 0 else None])))
                elif r < 7:
                    durs.append(p if p > 0 else 0)
                elif r < 8 and op == 'interval':
                    durs.append(abs(p) + draw(st.sampled_from([0.25, 1, 2])))
                else:
                    durs.append(draw(st.sampled_from([0.25, 0.5, 1, 3])) if op == 'delay' else (p / 2 if p > 0 else None))
        if not floaty and op == 'interval' and p > 0 and draw(st.integers(0, 3)) == 0:
            # body runs whose length is no binary fraction: the grid (start + k * period, exact here) must not notice
            durs = [draw(st.sampled_from([p * 0.1, p * 0.3, p * 0.6, p * 0.9, None, 0])) for _ in durs]
            p = draw(st.sampled_from([p, 5.5, 4.5])) if all(d is None or d < 4 for d in durs) else p
        step = {'op': op, 'p': p, 'durs': durs}
        if not floaty and draw(st.integers(0, 4)) == 0:
            step['prepare'] = draw(st.sampled_from([0.25, 0.5, 1, 3]))    # ticker object created now, iterated later
        steps = []
        if draw(st.booleans()):
            steps.append({'op': 'sleep', 'd': draw(st.sampled_from([0, 0.5, 1, 2.25]))})
        if draw(st.integers(0, 4)) == 0:
            step = {'op': 'until', 'name': 'U%d' % i, 'notif': ['delay', draw(st.sampled_from([0.5, 1, 2, 3, 5]))],
                    'children': [], 'body': [step]}
        if draw(st.integers(0, 5)) == 0 and not floaty and op == 'interval' and p > 0:
            # an until() block that is left by the ticker's own IntervalExceeded (handled outside), followed by
            # another ticker that is still running when that block's notification would have fired
            d0 = abs(p) + 1
            step = {'op': 'try', 'body': [{'op': 'until', 'name': 'X%d' % i, 'notif': ['delay', d0 + draw(st.sampled_from([1, 2, 3]))],
                                           'children': [], 'body': [{'op': 'interval', 'p': p, 'durs': [d0], 'propagate': True}]}]}
            steps.append(step)
            steps.append({'op': draw(st.sampled_from(['interval', 'delay'])), 'p': draw(st.sampled_from([0.5, 1, 2])),
                          'durs': [None, 0, 0.25, None, 0, None, 0.25, None]})
            return {'name': 'k%d' % i, 'steps': steps}
        steps.append(step)
        if draw(st.integers(0, 3)) == 0:
            steps.append({'op': draw(st.sampled_from(['interval', 'delay'])), 'p': draw(st.sampled_from(PERIODS)),
                          'durs': [None, 0]})
        return {'name': 'k%d' % i, 'steps': steps}

    if not floaty and draw(st.integers(0, 7)) == 0:
        # a ticker that is interrupted inside one of its pauses (an until() whose flag a neighbour sets in that very
        # time step), followed at once by another ticker of the same activity next to runnable neighbours
        T = draw(st.sampled_from([1, 2.5]))
        second = {'op': draw(st.sampled_from(['interval', 'delay'])), 'p': draw(st.sampled_from([0, 0, 1, 5])),
                  'durs': draw(st.sampled_from([[None, None, None], [None, 0, None], [2, 2], [None]]))}
        if second['op'] == 'interval' and second['p'] < 2:
            second['durs'] = [d if d is None else 0 for d in second['durs']]
        k0 = {'name': 'k0', 'steps': [{'op': 'at_ge', 't': T},
                                      {'op': 'until', 'name': 'X0', 'notif': ['flag', 0], 'children': [],
                                       'body': [{'op': 'delay', 'p': 0, 'durs': [None] * draw(st.integers(4, 9))}]}, second]}
        nb = {'name': 'nb', 'steps': [{'op': 'at_ge', 't': T}] + [{'op': 'instant'} for _ in range(draw(st.integers(0, 3)))] +
              [{'op': 'set_flag', 'i': 0, 'v': True}] + [{'op': 'instant'} for _ in range(draw(st.integers(2, 8)))]}
        order = [k0, nb] if draw(st.booleans()) else [nb, k0]
        spin = {'name': 'sp', 'steps': [{'op': 'at_ge', 't': T}] + [{'op': 'instant'} for _ in range(draw(st.integers(3, 10)))]}
        roots = [{'name': 'r0', 'steps': [{'op': 'scope', 'name': 'S', 'children': order, 'body': [], 'catch': True}]}, spin]
        return {'prog': {'start': draw(st.sampled_from([0, 0, -1, 1])), 'objs': {'flags': 1}, 'roots': roots}, 'floaty': False}
    kids = [ticker(i) for i in range(draw(st.integers(1, 3)))]
    spin = {'name': 'sp', 'steps': [{'op': 'sleep', 'd': draw(st.sampled_from([0, 0, 0.5, 1]))}] +
            [{'op': 'instant'} for _ in range(draw(st.integers(3, 10)))]}
    roots = [{'name': 'r0', 'steps': [{'op': 'scope', 'name': 'S', 'children': kids, 'body': [], 'catch': True}]}, spin]
    start = draw(st.sampled_from([0, 0, -1, -2, -3.5, 1.5, 7, -10, -8])) if not floaty else \
        draw(st.floats(-1000, 1000, allow_nan=False))
    if not floaty and draw(st.integers(0, 7)) == 0:
        # extreme but exactly representable magnitudes: a late clock and/or a tiny period
        start = draw(st.sampled_from([2.0 ** 40, 2.0 ** 30 + 0.5, 4096.0, -2.0 ** 35]))
        tiny = draw(st.sampled_from([2.0 ** -20, 2.0 ** -10, 1, 0.25]))
        for k in kids:
            for s_ in k['steps']:
                tk = s_['body'][0] if s_['op'] == 'until' else s_
                if tk['op'] in ('interval', 'delay') and tk['p'] > 0:
                    tk['p'] = tiny
                    tk['durs'] = [draw(st.sampled_from([None, 0, tiny / 2, tiny])) for _ in tk['durs']]
    return {'prog': {'start': start, 'objs': {}, 'roots': roots}, 'floaty': floaty}


def judge(out, case, it, oc, exc, ctx):
    prog = case['prog']
    if oc != 'ok':
        out.fail('run_outcome', ('exc:' + type(exc).__name__) if oc == 'exc' else oc, '%r;%s' % (exc, ctx))
        return
    S = Structure(prog)
    log = [e for e in it.log if e[0] <= it.end_seq]
    fe = foreign_exception(it.log, it.end_seq)
    if fe:
        if fe[1][1] == 'IndexError':
            raise InvalidCase('program refers to an object that does not exist')
        out.fail('run_outcome', 'activity_exc:%s' % fe[1][1], '%s%s ended with %r, which the program did not raise;%s' % (
            fe[0][1], fe[0][2], fe[1], ctx))
    groups = {}
    for e in log:
        try:
            node = S.step_at(e[1], e[2])
        except Exception:
            continue
        if isinstance(node, dict) and node.get('op') in ('interval', 'delay'):
            groups.setdefault((e[1], e[2]), []).append(e)
    leave = {}
    for e in log:
        if e[3] == 'leave':
            leave[(e[1], e[2])] = e
    for (act, idx), es in groups.items():
        node = S.step_at(act, idx)
        op, p = node['op'], num(node['p'])
        durs = [None if d is None else num(d) for d in node['durs']]
        begin = [e for e in es if e[3] == 'begin'][0]
        what = '%s(%r) in %s%s started at %r, bodies %r' % (op, p, act, idx, begin[4], durs)
        # deadline of an enclosing until (ticker directly inside its body)
        H = float('inf')
        for cut in range(len(idx) - 1, 0, -1):
            if idx[cut] == 'b':
                blk = S.step_at(act, idx[:cut])
                if blk.get('op') == 'until':
                    ent = [e for e in log if e[1] == act and e[2] == idx[:cut] and e[3] == 'enter']
                    if ent and blk['notif'][0] == 'flag':
                        before = [e for e in log if e[3] == 'set_begin' and e[5][0] == blk['notif'][1] and e[0] < ent[0][0]]
                        sets = [e for e in log if e[3] == 'set_begin' and e[5] == (blk['notif'][1], True) and e[0] > ent[0][0]]
                        if before and before[-1][5][1]:
                            H = min(H, ent[0][4])         # already set when the block is entered
                        elif sets:
                            H = min(H, sets[0][4])
                    elif ent:
                        H = min(H, ent[0][4] + num(blk['notif'][1]))
        # --- model
        exp = []            # (kind, time, payload)
        if p < 0:
            exp.append(('valueerror', begin[4], None))
        else:
            t = begin[4] + p
            k = 0
            while True:
                exp.append(('tick', t, t))
                if k >= len(durs):
                    exp.append(('ok', t, k))
                    break
                d = durs[k] or 0
                k += 1
                done_t = t + d
                exp.append(('body_done', done_t, k))
                if op == 'interval':
                    if d > p:
                        exp.append(('exceeded', done_t, k))
                        break
                    t = t + p
                else:
                    t = done_t + p
        got = [(e[3], e[4], e[5]) for e in es if e[3] != 'begin']
        # events strictly before the deadline are mandatory, at the deadline optional, later forbidden
        mand = [x for x in exp if x[1] < H]
        opt = [x for x in exp if x[1] == H]
        want = mand + opt[:max(0, len(got) - len(mand))]      # (any prefix of what is due exactly at the deadline)
        if case.get('floaty'):
            # float stress: only the IntervalExceeded-iff clause (kinds, not dates)
            if [x[0] for x in got] != [x[0] for x in want]:
                out.fail('ticker', 'float_exceeded_iff', '%s\n got  %r\n want %r;%s' % (what, got, want, ctx))
            continue
        if got != want:
            sig = 'mismatch'
            for a, b in zip(got, want):
                if a != b:
                    if a[0] == b[0]:
                        sig = '%s_%s_wrong_%s' % (op, a[0], 'time' if a[1] != b[1] else 'value')
                    else:
                        sig = '%s_got_%s_want_%s' % (op, a[0], b[0])
                    break
            else:
                sig = '%s_%s' % (op, 'extra_' + got[len(want)][0] if len(got) > len(want) else 'missing_' + want[len(got)][0])
            out.fail('ticker', sig, '%s\n got  %r\n want %r;%s' % (what, got, want, ctx))
            continue
        # --- each step of the iteration suspends: the tick is logged in a later activation than
        #     the event before it
        prev = begin
        for e in es[1:]:
            if e[3] == 'tick' and e[6] == prev[6]:
                out.fail('yield', '%s_step_did_not_suspend' % op, '%s: tick at %r in the same activation as the '
                         'previous step (%s);%s' % (what, e[4], prev[3], ctx))
                break
            prev = e
        # --- and lets a runnable spinner run in between
        sp = [e for e in log if e[1] == 'sp' and e[3] == 'ok']
        ticks = [e for e in es if e[3] == 'tick']
        prev = begin
        for e in es[1:]:
            if e[3] == 'tick' and e[4] == prev[4]:
                later = [s for s in sp if s[0] > e[0] and s[4] == e[4]]
                earlier = [s for s in sp if s[0] < prev[0] and s[4] == e[4]]
                between = [s for s in sp if prev[0] < s[0] < e[0]]
                if later and earlier and not between:
                    out.fail('yield', '%s_starved_spinner' % op, '%s: spinner was runnable at %r but did not run '
                             'between two steps;%s' % (what, e[4], ctx))
                    break
            prev = e
        if p == 0:
            out.features.add('period0')
        if any(d is not None and d == p for d in durs) and p > 0:
            out.features.add('body==period')
        if any(x[0] == 'exceeded' for x in got):
            out.features.add('exceeded')
        if p < 0:
            out.features.add('negative')
        if H < float('inf'):
            out.features.add('in_until')
        if any(x[0] == 'tick' and x[1] == 0 for x in got) and begin[4] < 0:
            out.features.add('tick_at_date_0')


class C14(Check):
    pid = 'C14'
    level = 'exploration'
    rule = ('[also: ticker objects created first and iterated later; an until() left by IntervalExceeded followed by another ticker] '
            '1-3 concurrent tickers (interval/delay) with period from {0, 1/4, .., 3} (also negative), 1-8 body '
            'durations each <, == or > the period (also no-suspension bodies), start times incl. negative and '
            'fractional, optionally inside until(time+d) and followed by a second ticker, next to a bounded spinner; '
            '10% arbitrary float periods (IntervalExceeded-iff clause only). non-trivial = period 0, or a body equal '
            'to / longer than the period, or a tick on date 0 from a negative clock, or inside until; distinct by sha1.')
    budgets = {'quick': dict(examples=3000, procs=4), 'thorough': dict(examples=400000, procs=16)}
    level_text = ('Reference model of the tick grid: every tick time, yielded value, IntervalExceeded point and end of '
                  'every generated ticker must equal the model; every step is logged in a later activation than the '
                  'step before it and a runnable spinner runs in between (also for period 0).')
    level_note = 'Dyadic times make float arithmetic exact; events at an enclosing deadline are optional (tie).'
    technique = 'property-based testing against a tick-grid reference model; activation-index yield check'
    design_ref = 'DESIGN.md section 4, C14'

    def strategy(self, tier):
        return cases(tier)

    def run_case(self, case, tier='quick'):
        out = Outcome()
        it, oc, exc, p = execute(case['prog'], Probe(b_step=4000, b_total=40000))
        out.evals = 1
        judge(out, case, it, oc, exc, '')
        if {'period0', 'body==period', 'exceeded', 'tick_at_date_0', 'in_until'} & out.features:
            out.nontrivial = True
        return out


CHECK = C14()
