"""
Baseline finding for C10 (UNCHANGED tree, CPython 3.12): closing a receiver that iterates a
Queue through an explicit iterator (``it = aiter(queue)`` / ``await anext(it)``) while it waits
for the next item leaves the queue's read side owned by the dead receiver.

Why: ``coroutine.close()`` of the receiver does not unwind the async generator behind
``anext(it)`` (before 3.13 ``asend.close()`` does not throw into the generator); the generator
is only unwound when it is collected.  The receiver's frame - and with it the local ``it`` -
is kept alive by the reference cycle that every usim wake-up leaves behind
(``wake_up`` interrupt <-> traceback <-> frame of postpone/__subscription__), so that only
happens at some later cyclic garbage collection, if ever.  Until then ``Queue._read_mutex``
is held by an activity that no longer exists and ``Queue._notification`` lists it as waiter:
later receivers are never served and items accepted by ``put`` are never received.
(``async for`` is not affected: its iterator sits on the value stack and is dropped at once.)

Expected: first receiver gets 'a' and is closed with its scope; the second receiver then
receives 'b' and 'c' in order.
"""
import sys
from usim import run, time, Scope, Queue, StreamClosed


class Abort(Exception):
    pass


def main():
    queue = Queue()
    received = []
    accepted = []
    finished = []

    async def receive(name):
        it = aiter(queue)
        while True:
            try:
                item = await anext(it)
            except StopAsyncIteration:
                return
            received.append((name, item))
            await (time + 0.5)  # handle the item

    async def put(item):
        await queue.put(item)
        accepted.append(item)

    async def scenario():
        try:
            async with Scope() as scope:
                scope.do(receive('first'))
                await put('a')
                await (time + 2)  # 'first' has handled 'a' and waits for more
                raise Abort  # the scope fails: 'first' is closed while waiting
        except Abort:
            pass
        async with Scope() as scope:
            scope.do(receive('second'))
            await (time + 1)
            await put('b')
            await (time + 1)
            await put('c')
            await (time + 1)
            await queue.close()
        finished.append(True)

    run(scenario(), till=1000)  # safety bound
    expected = [('first', 'a'), ('second', 'b'), ('second', 'c')]
    print('accepted by put:', accepted)
    print('expected       :', expected)
    print('observed       :', received)
    if received == expected and finished:
        print('OK: no violation observed')
        return 0
    print('VIOLATION: items accepted after a receiver was closed are never received;')
    print('           the read side of the queue is still held by the closed receiver')
    return 1


if __name__ == '__main__':
    sys.exit(main())
