"""
C20 on the UNCHANGED tree: leaving scope blocks - without any exception visible to the
program and with bodies that contain no break point at all - completes without letting
runnable activities run, when an *inner* block's exit is cut short by the pending
interrupt of an *outer* until-block.  (Commit 581750a fixed this for a single block only.)

exit status 1: violation observed, 0: not observed
"""
import signal
import sys


def _alarm(*_):
    print("TIMEOUT")
    sys.stdout.flush()
    sys.exit(1)


signal.signal(signal.SIGALRM, _alarm)
signal.alarm(30)

from usim import run, Scope, Flag, Queue, Resources, until, time, collect  # noqa: E402
from usim import StreamClosed, ResourcesUnavailable  # noqa: E402

primary = []
secondary = []


async def case(name, block, bucket):
    await (time + 1)
    ran = []

    async def competitor():
        ran.append(time.now)

    async with Scope() as outer:
        start = time.now
        await block(outer, competitor)
        done = bool(ran)
        assert time.now == start
    print("%-58s competitor ran before completion: %s" % (name, done))
    if not done:
        bucket.append(name)


async def main():
    expired = Flag()
    await expired.set()
    also_expired = Flag()
    await also_expired.set()

    # reference: the single block, fixed in 581750a
    async def single(outer, competitor):
        async with until(expired):
            outer.do(competitor())

    # the same with a second block around / inside: no statement of the program raises,
    # no body contains a break point, the competitor is runnable when the blocks are left
    async def until_in_until(outer, competitor):
        async with until(expired):
            async with until(also_expired):
                outer.do(competitor())

    async def scope_in_until(outer, competitor):
        async with until(expired):
            async with Scope():
                outer.do(competitor())

    async def scope_in_until_2(outer, competitor):
        async with until(expired):
            outer.do(competitor())
            async with Scope():
                pass

    async def collect_in_until(outer, competitor):
        async with until(expired):
            outer.do(competitor())
            await collect()

    await case("until(set flag): do(K)                       [reference]", single, primary)
    await case("until(set flag): until(set flag): do(K)", until_in_until, primary)
    await case("until(set flag): Scope(): do(K)", scope_in_until, primary)
    await case("until(set flag): do(K); Scope(): pass", scope_in_until_2, primary)
    await case("until(set flag): do(K); await collect()", collect_in_until, primary)

    # an operation that takes effect, is then cut short, and the block is left silently
    signal_flag = Flag()

    async def set_in_until(outer, competitor):
        async with until(expired):
            outer.do(competitor())
            await signal_flag.set()

    await case("until(set flag): do(K); await flag.set()", set_in_until, secondary)
    print("   ... and the flag has been set by that operation: %s" % bool(signal_flag))

    # operations that are refused / blocks left by an exception do not yield at all:
    # a loop of them starves everybody else and keeps the clock from advancing
    closed = Queue()
    await closed.close()
    empty = Resources(a=0)

    async def loop_put_closed(outer, competitor):
        outer.do(competitor())
        for _ in range(1000):
            try:
                await closed.put(1)
            except StreamClosed:
                pass

    async def loop_get_closed(outer, competitor):
        outer.do(competitor())
        for _ in range(1000):
            try:
                await closed
            except StreamClosed:
                pass

    async def loop_claim(outer, competitor):
        outer.do(competitor())
        for _ in range(1000):
            try:
                async with empty.claim(a=1):
                    pass
            except ResourcesUnavailable:
                pass

    async def loop_scope_raise(outer, competitor):
        outer.do(competitor())
        for _ in range(1000):
            try:
                async with Scope():
                    raise KeyError
            except KeyError:
                pass

    await case("1000 x put on a closed queue (StreamClosed)", loop_put_closed, secondary)
    await case("1000 x get from a closed, empty queue (StreamClosed)", loop_get_closed,
               secondary)
    await case("1000 x claim of unavailable resources", loop_claim, secondary)
    await case("1000 x Scope left by an exception of its body", loop_scope_raise, secondary)


run(main(), till=1000)
print()
if secondary:
    print("secondary observations (refused/failed operations never yield): %d" %
          len(secondary))
if primary:
    print("VIOLATION of C20 by the unchanged tree: %d case(s) in which leaving scope blocks"
          % len(primary))
    print("(regular exit, no break point in the bodies) completed although an activity that")
    print("was runnable at that time had not run.")
    sys.exit(1)
print("no violation observed")
sys.exit(0)
