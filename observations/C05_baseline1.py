"""
Baseline finding (UNCHANGED tree): a child that fails with an exception type
derived from BaseException but not from Exception (and not one of the privileged
SystemExit/KeyboardInterrupt/AssertionError) - e.g. asyncio.CancelledError or an
application defined BaseException - makes the scope end with an AssertionError
that neither the body nor any child raised:

    AssertionError: 'Concurrent' may only be specialised by Exception subclasses, not (...)

It stems from the assert in MetaConcurrent.__getitem__, reached from
Scope._collect_exceptions -> Concurrent(*failures).  Expected by C05: the block ends
with a Concurrent carrying exactly the child's exception object (the only failure is
a child failure; nothing privileged occurred).  Only shows with assertions enabled
(default); under ``python -O`` a proper Concurrent is raised.
"""
import sys

from usim import run, time, Scope, Concurrent

observed = {}


class Abort(BaseException):
    """application level signal, deliberately not an Exception"""


async def failing(exc):
    await (time + 1)
    raise exc


async def main():
    boom = Abort('boom')
    outcome = None
    try:
        async with Scope() as scope:
            scope.do(failing(boom))
            await (time + 5)
    except BaseException as err:  # noqa: B902
        outcome = err
    observed.update(outcome=outcome, boom=boom, end=time.now)


if __name__ == '__main__':
    run(main(), till=1000)
    outcome, boom = observed.get('outcome'), observed.get('boom')
    print('expected: block ends at t=1 with Concurrent carrying exactly (%r,)' % (boom,))
    print('observed: block ends at t=%s with %r' % (observed.get('end'), outcome))
    ok = (
        isinstance(outcome, Concurrent)
        and len(outcome.children) == 1 and outcome.children[0] is boom
        and observed.get('end') == 1
    )
    if not ok:
        print('VIOLATION: the block ended with an exception that nobody raised')
        sys.exit(1)
    print('no violation')
    sys.exit(0)
