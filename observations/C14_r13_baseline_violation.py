"""
Two violations of C14 by the UNCHANGED library (see baseline_violation.txt).

A. A ticker whose body has *handled* an exception stops ticking - silently, no
   exception, its task stays "RUNNING" for ever - as soon as some other activity
   ends with that same exception object.
B. With a negative clock, interval() leaves its grid by the duration of the body:
   start -10, period 5.5 (grid -4.5, 1.0, 6.5, ... all exact in binary) ticks at
   1.0000000000000004 when the body took 0.6 and at 0.9999999999999996 when it
   took 0.9.

Exit status 1 if at least one of the violations shows, 0 otherwise.
"""
import signal
import sys

from usim import run, time, interval, Scope, Concurrent

signal.alarm(20)
problems = []


# --------------------------------------------------------------------------- A
class Glitch(Exception):
    pass


async def measure():
    raise Glitch('sensor glitch')


async def sampler(ticks, reports):
    """Tick every 10; a failing measurement is handled and reported, that is all"""
    async for now in interval(10):
        ticks.append(now)
        try:
            await measure()
        except Glitch as err:
            reports.append(err)  # handled here; handed to the supervisor for the log
        if now >= 100:
            break


async def supervisor(reports):
    """Looks at the reports now and then - and gives up on the first one"""
    await (time + 25)
    if reports:
        raise reports[0]


async def scenario_a(ticks, state):
    reports = []
    async with Scope() as outer:
        task = outer.do(sampler(ticks, reports), volatile=True)
        try:
            async with Scope() as inner:
                inner.do(supervisor(reports))
        except Concurrent[Glitch]:
            pass  # the supervisor is gone, the sampler is none of its business
        await (time + 200)
        state.append((time.now, str(task.status), bool(task.done)))
        # (volatile: the scope does not wait for the sampler, which can never finish)


ticks, state = [], []
try:
    run(scenario_a(ticks, state))
except BaseException as err:  # noqa: B902
    state.append(('run() raised', repr(err)))
expected = list(range(10, 101, 10))
print('A: ticks of interval(10) until 100:', ticks)
print('A: state of the sampler at the end:', state)
if ticks != expected:
    problems.append(
        'A: the ticker stopped after %r although nothing ended it; expected %r'
        % (ticks, expected)
    )


# --------------------------------------------------------------------------- B
async def ticker(period, body, count, out):
    async for now in interval(period):
        out.append(now)
        if len(out) == count:
            break
        if body:
            await (time + body)


def grid_run(start, period, body, count=4):
    out = []
    run(ticker(period, body, count, out), start=start)
    return out


for start, period, body in (
        (-10.0, 5.5, 0.6),
        (-10.0, 5.5, 0.9),
        (-8.0, 4.5, 2.0 ** -51),  # every input is a dyadic number
):
    grid = [start + (k + 1) * period for k in range(4)]  # exact for these numbers
    idle = grid_run(start, period, 0)
    busy = grid_run(start, period, body)
    print('B: start %r period %r: empty body %r, body of %r: %r' % (
        start, period, idle, body, busy))
    if idle != grid:
        problems.append('B: empty body, ticks %r instead of %r' % (idle, grid))
    if busy != grid:
        problems.append(
            'B: start %r, period %r, body %r: ticks %r instead of %r'
            % (start, period, body, busy, grid)
        )

if problems:
    print('VIOLATED:')
    for problem in problems:
        print('  ' + problem)
    sys.exit(1)
print('ok')
sys.exit(0)
