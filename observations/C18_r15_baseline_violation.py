"""
C18 on the UNCHANGED tree: programs for which HEAD already departs from the statement.
Exits 1 if at least one of the departures shows, 0 if none does.
"""
import signal
import sys


def _alarm(*_):
    print('TIMEOUT: a scenario hung')
    sys.exit(1)


signal.signal(signal.SIGALRM, _alarm)
signal.alarm(60)

import usim  # noqa: E402
from usim import time, Scope, Concurrent  # noqa: E402
from usim.py import Environment, Interrupt  # noqa: E402


def v1_until_failed_event():
    """env.run(until=event): an unhandled failure of that event is returned, not raised"""
    env = Environment()

    def failing(env):
        yield env.timeout(1)
        raise KeyError('boom')

    proc = env.process(failing(env))
    try:
        result = env.run(until=proc)
    except KeyError:
        return None
    return (
        'a process failed with KeyError at time 1, nothing handled or defused it'
        ' (defused=%s), yet env.run(until=process) ended normally and *returned* %r'
        ' (SimPy raises it)' % (proc.defused, result)
    )


def v2_timeout_before_embedded_start():
    """A Timeout created before an embedded environment is entered fires too late"""
    seen = {}

    async def main():
        env = Environment()
        seen['created'] = env.now
        timeout = env.timeout(5, 'ring')

        def watcher(env):
            yield timeout
            seen['fired'] = env.now

        env.process(watcher(env))
        await (time + 3)  # the native simulation does something else first
        await env.until(50)

    usim.run(main())
    if seen.get('fired') == seen['created'] + 5:
        return None
    return (
        'env.timeout(5) was created at env.now == %s (native time 0) and fired at'
        ' env.now == %s - not 5 later by either clock: the delay is only counted from'
        ' the moment the embedded environment is entered (native time 3)'
        % (seen['created'], seen.get('fired'))
    )


def v3_concurrent_through_yield():
    """A process cannot handle the failure of a yielded coroutine if it is a Concurrent"""
    log = []

    async def boom():
        await (time + 1)
        raise KeyError('inner')

    async def supervised():
        async with Scope() as scope:
            scope.do(boom())

    async def native():
        try:
            await supervised()
        except Concurrent as err:
            log.append('activity handled %r' % err)

    usim.run(native())
    env = Environment()

    def proc(env):
        try:
            yield supervised()
        except Concurrent as err:
            log.append('process handled %r' % err)
        yield env.timeout(1)

    env.process(proc(env))
    try:
        env.run()
    except BaseException as err:  # noqa: B902
        return (
            'an activity that awaits the coroutine can handle its failure (%s), a'
            ' process that yields the same coroutine never gets it: the run ended'
            ' with %r' % ('; '.join(log), err)
        )
    return None


def _interrupt_vs_completion(native: bool):
    env = Environment()
    log = []
    box = []

    def attacker(env):
        yield env.timeout(1)
        box[0].interrupt('A')

    def victim(env):
        try:
            yield (time + 1) if native else env.timeout(1)
            log.append('value')
        except Interrupt:
            log.append('interrupt')
        try:
            yield env.timeout(5)
            log.append('value')
        except Interrupt:
            log.append('interrupt')

    env.process(attacker(env))
    box.append(env.process(victim(env)))
    env.run()
    return log


def v4_interrupt_native_vs_event():
    """interrupt() while the awaited thing completes in the same step: native differs"""
    event, native = _interrupt_vs_completion(False), _interrupt_vs_completion(True)
    if event == native:
        return None
    return (
        'victim is interrupted at time 1 after what it waits for has completed but'
        ' before it resumed: waiting for env.timeout(1) it gets %s, waiting for'
        ' (time + 1) it gets %s - the Interrupt is not raised at the current yield'
        % (event, native)
    )


def v5_pending_interrupt_skipped():
    """one Interrupt per yield: a yield of a coroutine that never suspends is skipped"""
    env = Environment()
    log = []

    async def answer():
        return 42

    def victim(env):
        for awaited in (env.timeout(1), answer(), env.timeout(1)):
            try:
                log.append((yield awaited))
            except Interrupt as err:
                log.append('Interrupt(%s)' % err.cause)

    process = env.process(victim(env))
    process.interrupt('a')
    process.interrupt('b')
    env.run()
    if log[:2] == ['Interrupt(a)', 'Interrupt(b)']:
        return None
    return (
        'two interrupts were pending; the yields of the process got %r - the second'
        ' yield returned a value instead of raising Interrupt(b)' % (log,)
    )


def v6_failure_lost_at_until():
    """A process that fails just before the until-event stops the run is swallowed"""
    env = Environment()

    def failing(env, alarm):
        yield alarm
        raise KeyError('at 5')

    proc = env.process(failing(env, env.timeout(5)))
    stop = env.timeout(5)  # created after, fires after the timeout of the process
    try:
        env.run(until=stop)
    except KeyError:
        return None
    if not proc.triggered:
        return None
    return (
        'the process had already failed (value=%r, defused=%s) when the until-event'
        ' stopped the run in the same time step; the unhandled failure was dropped'
        ' and env.run() returned normally (SimPy raises KeyError)'
        % (proc.value, proc.defused)
    )


try:
    found = 0
    for check in (
        v1_until_failed_event, v2_timeout_before_embedded_start,
        v3_concurrent_through_yield, v4_interrupt_native_vs_event,
        v5_pending_interrupt_skipped, v6_failure_lost_at_until,
    ):
        finding = check()
        print('%s: %s' % (check.__name__, check.__doc__))
        print('    ->', 'VIOLATION: ' + finding if finding else 'conforms')
        found += bool(finding)
    sys.exit(1 if found else 0)
except SystemExit:
    raise
except BaseException as err:  # noqa: B902
    print('UNEXPECTED', type(err).__name__, err)
    sys.exit(1)
