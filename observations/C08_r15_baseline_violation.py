"""
Baseline (unchanged tree) violation candidate for C08:
``~c`` of a tracked-value comparison is not the negation of ``c`` when the tracked
value is of a type that is only partially ordered (sets; floats including NaN).

``Tracked(frozenset({1})) <= frozenset({2})`` is False ({1} is not a subset of {2}),
so its inverse must be True and ``await (~c)`` must resume in the current time step.
usim derives the inverse by swapping the operator (``<=`` becomes ``>``), which is
only the negation for totally ordered values: {1} > {2} is False as well.
"""
import signal
import sys

from usim import run, time, Tracked, until

observed = {}
problems = []


async def main():
    tracked = Tracked(frozenset({1}))
    cases = {
        'set <=': tracked <= frozenset({2}),
        'set <': tracked < frozenset({2}),
        'set >=': tracked >= frozenset({2}),
        'set >': tracked > frozenset({2}),
        'nan <': Tracked(float('nan')) < 1.0,
        'nan >=': Tracked(float('nan')) >= 1.0,
    }
    for name, condition in cases.items():
        inverse = ~condition
        print(f'{name:7}: c = {bool(condition)}, ~c = {bool(inverse)},'
              f' ~~c = {bool(~inverse)}   [{condition}  /  {inverse}]')
        if bool(inverse) != (not condition):
            problems.append(f'~({condition}) is {bool(inverse)} while c is '
                            f'{bool(condition)}')

    async def waiter(name, condition):
        await condition
        observed[name] = time.now

    async with until(time == 3) as scope:
        for name, condition in cases.items():
            if not condition:
                scope.do(waiter(name, ~condition))
        await (time == 2)
        for name, condition in cases.items():
            if not condition and name not in observed:
                problems.append(
                    f'{name}: c was False all the time, but the waiter of ~c is still '
                    f'waiting at time 2'
                )


def on_alarm(*_):
    print('TIMEOUT')
    sys.stdout.flush()
    sys.exit(1)


if __name__ == '__main__':
    signal.signal(signal.SIGALRM, on_alarm)
    signal.alarm(30)
    try:
        run(main(), till=10)
    except BaseException as err:  # noqa: B902
        print('FAILED with', repr(err))
        sys.exit(1)
    print('waiters of ~c resumed at:', observed)
    if problems:
        print('VIOLATION of C08 (~c is not "not c" for a tracked-value comparison):')
        for problem in problems:
            print('  -', problem)
        sys.exit(1)
    print('no violation')
    sys.exit(0)
