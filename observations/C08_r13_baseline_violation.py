"""
Violations of C08 by the UNCHANGED library.

1. ``~c`` is not the negation of ``c`` for a comparison of a tracked value that
   is only partially ordered (sets, or floats with NaN): both ``c`` and ``~c``
   are false, and a waiter of ``~c`` is left waiting although ``c`` is false.
2. A nested condition (``(a & b) | c``) that was still being waited for when a
   simulation ended cannot be used in a second simulation: setting ``a`` there
   ends the simulation with an internal AssertionError ("Break points cannot be
   passed to other coroutines") instead of waking the waiter.
"""
import signal
import sys

from usim import Flag, Tracked, Scope, run, time, instant

signal.alarm(15)
problems = []


# -- 1 ------------------------------------------------------------------------
async def partially_ordered():
    members = Tracked(frozenset({'alice', 'bob'}))
    needed = frozenset({'carol'})
    covers = members >= needed          # "all needed members are present"
    lacking = ~covers
    if bool(covers) == bool(lacking):
        problems.append(
            f'sets: c = (tracked >= {set(needed)}) is {bool(covers)} and ~c is '
            f'{bool(lacking)} with tracked = {set(members.value)}'
        )
    resumed = []

    async def waiter():
        await lacking
        resumed.append(time.now)

    async with Scope() as scope:
        scope.do(waiter(), volatile=True)
        await (time + 1)
        await members.set(frozenset({'alice'}))     # still does not cover {'carol'}
        for _ in range(20):
            await instant
        if not covers and not resumed:
            problems.append(
                'sets: waiter of ~(tracked >= needed) still waiting at the end of '
                f'time step {time.now} although (tracked >= needed) is False'
            )
    level = Tracked(float('nan'))
    high = level >= 1.0
    if bool(high) == bool(~high):
        problems.append(
            f'nan: c = (tracked >= 1.0) is {bool(high)} and ~c is {bool(~high)}'
        )


run(partially_ordered())


# -- 2 ------------------------------------------------------------------------
a, b, c = Flag(), Flag(), Flag()
ready = a & b
woken = []


async def consumer(name):
    await (ready | c)
    woken.append((name, time.now))


async def first_simulation():
    async with Scope() as scope:
        scope.do(consumer('first'), volatile=True)
        await (time + 1)
        # ends while 'first' is still waiting; it is closed with the scope


async def second_simulation():
    async with Scope() as scope:
        scope.do(consumer('second'), volatile=True)
        await (time + 1)
        await a.set()
        await b.set()
        for _ in range(20):
            await instant


run(first_simulation())
try:
    run(second_simulation())
except AssertionError as err:
    problems.append(
        f'second simulation: internal AssertionError({err}) when an operand of a '
        f'nested condition used in an earlier simulation was set; woken={woken}'
    )
else:
    if ('second', 1) not in woken:
        problems.append(f'second simulation: waiter not woken at 1: {woken}')

if problems:
    print('C08 VIOLATED BY THE UNCHANGED LIBRARY')
    for problem in problems:
        print(' -', problem)
    sys.exit(1)
print('ok')
sys.exit(0)
