"""
C15 on the UNCHANGED library: simulations are not always kept isolated.

Findings (details in baseline_violation.txt); each is checked separately:

 V1  activities of a failed simulation survive ``run()`` and are unwound inside a
     later simulation, observing that one's clock (asynchronous iterator such as
     ``first(...)`` held in a local variable of the failing root activity)
 V2  a condition ``(time >= date) | flag`` whose first simulation ended before the
     date never wakes its waiter in the next simulation: ``run()`` returns although
     the activity could proceed at ``date``
 V3  an exception escaping a root activity during the final unwinding is reported by
     ``run(..., till=...)`` but silently dropped by ``run(...)``
 N4  (observation only) ``run(..., start=t, till=t)`` never starts the root
     activities, although everything dated ``till`` is otherwise still performed

exit status 1 if any of V1-V3 shows, else 0
"""
import signal
import sys
import warnings

from usim import run, time, eternity, first, until, Flag

signal.alarm(20)
warnings.simplefilter('ignore')
violations = []


def probe():
    try:
        return time.now
    except RuntimeError:
        return 'no simulation'


# V1 ###############################################################################
async def quick():
    await (time + 1)
    return 'quick'


async def slow(log):
    try:
        await (time + 10)
    finally:
        # e.g. statistics of the activity: when was it ended?
        log.append(probe())
    return 'slow'


async def failing_root(log):
    results = first(quick(), slow(log), count=2)
    async for result in results:
        # 'slow' is still running as a child of the scope inside ``first``
        raise KeyError(result)


async def bystander(report):
    await (time + 100)
    # e.g. the failures collected so far are written out and forgotten
    report.clear()
    await (time + 100)


log, report = [], []
try:
    run(failing_root(log))
except KeyError as err:
    report.append(err)
if not log:
    violations.append(
        "V1: run() raised at time 1, but its activity 'slow' is still suspended"
    )
run(bystander(report), start=1000)
if log != [1]:
    violations.append(
        "V1: the clean-up of 'slow' (simulation 1, ended at 1) saw the clock %r"
        " - it ran inside simulation 2" % (log,)
    )


# V2 ###############################################################################
async def waiter(condition, woken):
    async with until(condition):
        await eternity
    woken.append(time.now)


async def failing(at):
    await (time + at)
    raise KeyError


flag = Flag()
condition = (time >= 5) | flag
woken = []
try:
    run(waiter(condition, woken), failing(1))  # ends at 1, before the date
except KeyError:
    pass
run(waiter(condition, woken))  # a new simulation: must wake the waiter at 5
if woken != [5]:
    violations.append(
        'V2: run() returned without ever resuming the activity that waits for'
        ' (time >= 5) | flag; resumed at %r' % (woken,)
    )
del condition, flag


# V3 ###############################################################################
async def bad_cleanup():
    try:
        await eternity
    finally:
        raise ValueError('clean-up failed')


async def short():
    await (time + 1)


outcome = {}
for name, kwargs in (('run()', {}), ('run(till=5)', {'till': 5})):
    try:
        run(bad_cleanup(), short(), **kwargs)
    except ValueError as err:
        outcome[name] = repr(err)
    else:
        outcome[name] = 'returned normally'
if outcome['run()'] != outcome['run(till=5)']:
    violations.append(
        'V3: exception escaping a root activity while it is unwound at the end: %r'
        % (outcome,)
    )


# N4 ###############################################################################
async def starter(started, name):
    started.append((name, time.now))
    await (time + 1)


started = []
run(starter(started, 'a'), starter(started, 'b'), start=3, till=3)
if started != [('a', 3), ('b', 3)]:
    print('note N4: run(a, b, start=3, till=3) started %r' % (started,))


if violations:
    print('C15 violated by the unchanged library:')
    for violation in violations:
        print(' -', violation)
    sys.exit(1)
print('ok')
