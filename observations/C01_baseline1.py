"""
Baseline observation (UNCHANGED tree) - borderline for C01, needs NESTED simulations.

A date condition object keeps ONE list of waiters, whatever simulation they belong
to. If an activity of an outer simulation waits for `deadline = (time >= 10)` and
another outer activity runs a nested simulation (`usim.run(...)` is documented as
nestable) in which the same object is awaited, the nested simulation's trigger wakes
the OUTER waiter too - inside the nested event loop, while the outer clock still
reads 0. Seen from the outer simulation, work for time 10 runs before work for
time 5: the clock observed by its activities decreases.

expected (outer log, by time): ticker@5, nested done@0 (outer time), waiter@10
"""
import sys
import warnings

from usim import run, time

warnings.simplefilter('ignore', RuntimeWarning)

deadline = time >= 10
log = []


async def outer_waiter():
    await deadline
    log.append(('outer waiter resumed', time.now))


async def outer_ticker():
    await (time + 5)
    log.append(('outer ticker', time.now))


async def inner_waiter():
    await deadline
    log.append(('inner waiter resumed', time.now))


async def outer_nesting():
    await (time + 0)        # let the outer waiter subscribe first
    run(inner_waiter())     # nested, independent simulation starting at 0
    log.append(('outer after nested run', time.now))


def main():
    run(outer_waiter(), outer_ticker(), outer_nesting())
    outer = [entry for entry in log if entry[0].startswith('outer')]
    times = [t for _, t in outer]
    print('log in execution order:')
    for entry in log:
        print('   ', entry)
    if times != sorted(times):
        print('VIOLATION: activities of the outer simulation observed the clock as',
              times, '- it decreased; the outer waiter for date 10 was resumed by the'
              ' nested simulation before outer time 5 was processed')
        return 1
    print('no violation observed')
    return 0


if __name__ == '__main__':
    sys.exit(main())
