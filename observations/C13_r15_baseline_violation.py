"""
Baseline (unchanged tree) violation of C13 for limits whose sum leaves the float range.

Pipe(throughput=2); two transfers of volume 2, each with the largest finite float as
its own limit ("practically unlimited"), both starting at t=0.
Fluid model: rate_i = min(limit_i, limit_i * 2 / (limit_1 + limit_2)) = 1 each, so
both end at t=2 (a single such transfer does end at t=1, as it should).
Observed on the unchanged tree: sum(limits) overflows to inf, the pipe's scale becomes
2 / inf == 0.0, the window rate limit * 0.0 == 0.0 and the transfer that is woken to
re-compute its window dies of ZeroDivisionError (taking its scope with it).
The same happens for Pipe(throughput=1e308) and two transfers without a limit of
their own, and (underflow instead of overflow) for limits 1e-200 next to 1e200.
"""
import sys
import signal

signal.signal(signal.SIGALRM, lambda *_: (print("FAIL: hang (alarm)"), sys.exit(1)))
signal.alarm(30)

try:
    from usim import run, time, Pipe, Scope

    def scenario(pipe_throughput, limits, total):
        ends = {}

        async def transfer(pipe, idx, limit):
            try:
                await pipe.transfer(total=total, throughput=limit)
            except Exception as err:
                ends[idx] = repr(err)
                raise
            ends[idx] = time.now

        async def main():
            pipe = Pipe(throughput=pipe_throughput)
            async with Scope() as scope:
                for idx, limit in enumerate(limits):
                    scope.do(transfer(pipe, idx, limit))

        try:
            run(main(), till=1e6)
        except BaseException as err:  # noqa: B902
            ends['run'] = repr(err)[:120]
        return ends

    big = sys.float_info.max
    failed = False
    for name, args, expected in (
        ("one transfer, limit=float max, pipe 2", (2, [big], 2), {0: 1.0}),
        ("two transfers, limit=float max, pipe 2", (2, [big, big], 2), {0: 2.0, 1: 2.0}),
        ("two transfers, no own limit, pipe 1e308", (1e308, [None, None], 1e308),
         {0: 2.0, 1: 2.0}),
    ):
        ends = scenario(*args)
        ok = all(
            isinstance(ends.get(key), float) and abs(ends[key] - value) < 1e-9
            for key, value in expected.items()
        ) and 'run' not in ends
        print("%-45s expected %s observed %s -> %s" % (
            name, expected, ends, "ok" if ok else "VIOLATION"))
        failed = failed or not ok
    if failed:
        print(
            "FAIL: transfers must progress at limit * throughput / sum(limits); instead"
            " the scale underflows to 0.0 and a transfer raises ZeroDivisionError"
        )
        sys.exit(1)
    print("OK")
    sys.exit(0)
except SystemExit:
    raise
except BaseException as err:  # noqa: B902
    print("FAIL: unexpected %r" % (err,))
    sys.exit(1)
