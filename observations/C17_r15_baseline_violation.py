"""
Baseline violation of C17 (unchanged tree, CPython 3): an ``except`` clause
does NOT agree with ``isinstance``/``issubclass`` for Concurrent handlers.

The statement says: "``isinstance``, ``issubclass`` and an ``except`` clause all
agree with this rule".  ``except H:`` in CPython 3 is implemented by
``PyErr_GivenExceptionMatches`` -> ``PyType_IsSubtype``, i.e. it walks the real
``__mro__`` and never calls ``type(H).__subclasscheck__``.  The specialised
classes are all direct subclasses of ``Concurrent``, so ``except Concurrent[X]``
only catches a failure whose type is *identical* to ``Concurrent[X]``:
covariant handlers (``Concurrent[LookupError]`` for a KeyError child) and every
open handler (``Concurrent[KeyError, ...]``) never catch anything, although
``isinstance`` and ``issubclass`` say they match.

Exit status 1 if the disagreement shows, 0 otherwise.
"""
import signal
import sys


def _alarm(*_):
    print("TIMEOUT")
    sys.exit(1)


signal.signal(signal.SIGALRM, _alarm)
signal.alarm(30)

try:
    from usim import run, Scope, time, Concurrent

    def except_matches(failure, handler):
        try:
            try:
                raise failure
            except handler:
                return True
        except BaseException:  # noqa: B902
            return False

    disagreements = []
    cases = [
        (lambda: Concurrent(KeyError()), Concurrent[KeyError]),
        (lambda: Concurrent(KeyError()), Concurrent),
        (lambda: Concurrent(KeyError()), Concurrent[IndexError]),
        (lambda: Concurrent(KeyError()), Concurrent[LookupError]),
        (lambda: Concurrent(KeyError()), Concurrent[KeyError, ...]),
        (lambda: Concurrent(KeyError(), IndexError()), Concurrent[KeyError, ...]),
        (lambda: Concurrent(KeyError(), IndexError()), Concurrent[LookupError]),
        (lambda: Concurrent(Concurrent(KeyError())),
         Concurrent[Concurrent[LookupError]]),
    ]
    for make, handler in cases:
        failure = make()
        by_isinstance = isinstance(failure, handler)
        by_issubclass = issubclass(type(failure), handler)
        by_except = except_matches(failure, handler)
        agree = by_isinstance == by_issubclass == by_except
        print(
            f"{'ok ' if agree else 'BAD'} {type(failure).__name__} vs"
            f" {handler.__name__}: isinstance={by_isinstance}"
            f" issubclass={by_issubclass} except={by_except}"
        )
        if not agree:
            disagreements.append((type(failure).__name__, handler.__name__))

    # the same in a simulation, using the example of the Concurrent docstring
    selected = []

    async def fail(exc):
        await (time + 1)
        raise exc

    async def main():
        try:
            async with Scope() as scope:
                scope.do(fail(KeyError('concurrent')))
                scope.do(fail(ValueError('concurrent')))
        except Concurrent[KeyError]:
            selected.append('Failed only key lookup')
        except Concurrent[KeyError, IndexError]:
            selected.append('Failed key lookup and indexing')
        except Concurrent[KeyError, ...]:
            selected.append('Failed key lookup and something else')
        except Concurrent as err:
            selected.append(
                'no documented handler selected the failure %r' % (err,)
            )

    run(main(), till=10)
    print("docstring example selected:", selected)
    if selected != ['Failed key lookup and something else']:
        disagreements.append(('docstring example', selected))

    if disagreements:
        print(
            "VIOLATION of C17 on the unchanged tree: the except clause disagrees"
            " with isinstance/issubclass for", disagreements
        )
        sys.exit(1)
    print("except, isinstance and issubclass agree")
    sys.exit(0)
except SystemExit:
    raise
except BaseException as err:  # noqa: B902
    print("UNEXPECTED", type(err), err)
    sys.exit(1)
