"""
Baseline finding 2 (unchanged tree): ``env.run(until=event)`` with an event that
FAILS and is handled by nobody returns the exception object as a normal return
value instead of ending the run with that exception.

Property: "an unhandled failed event ends the run with that exception".
(SimPy raises the exception here. ``Environment.until`` only waits for the flag of
the until-event and raises StopSimulation, which closes the environment's scope
before the event's failure is ever processed.)  The annotated return type
``Union[None, V, Exception]`` suggests this might be intentional - judge yourself.
"""
import sys

from usim.py import Environment

env = Environment()
event = env.event()


def failer(env):
    yield env.timeout(2)
    event.fail(KeyError('nobody handles this'))


env.process(failer(env))
try:
    result = env.run(until=event)
except KeyError as err:
    print('no violation observed: run ended with', repr(err), 'at', env.now)
    sys.exit(0)
print('VIOLATION')
print('   expected: env.run(until=event) raises KeyError at time 2')
print(f'   observed: returned {result!r} (defused={event.defused}) at time {env.now}')
sys.exit(1)
