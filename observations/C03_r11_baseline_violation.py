"""
Two behaviours of the UNCHANGED library that violate property C03 (both reproduced).

Case 1 - internal CancelScope delivered to the wrong activity:
    ``first(...)`` opens its internal Scope in whatever activity fetches the *first*
    result. If the iterator is then handed to another activity (passing an async
    iterator on is ordinary Python), the scope still belongs to the first activity:
    when a contestant fails, ``Scope._cancel_self`` is thrown into the first activity,
    at an await that has nothing to do with ``first``. It escapes from there as a bare
    ``CancelScope`` and ``run()`` ends with this internal signal.

Case 2 - virtual time stops advancing once delays are absorbed by float rounding:
    ``await (time + d)`` with ``d > 0`` is accepted, but when ``time.now + d == time.now``
    in floating point the wake-up is queued for the *same* date: the activity resumes
    without any time passing. ``async for now in delay(1)`` bounded by
    ``until(time >= end)`` is fine at small dates and spins forever at one virtual
    time at 2**53 (about 9e15).

exit 0: neither shows;  exit 1: at least one shows (each is reported)
"""
import signal
import sys

import usim
from usim import run, time, until, delay, first, Scope, Concurrent

signal.alarm(20)
found = []


# -- case 1 ------------------------------------------------------------------------
async def contestant(value, duration, fail=False):
    await (time + duration)
    if fail:
        raise KeyError(value)
    return value


async def consumer(results, seen):
    try:
        async for result in results:
            seen.append(result)
    except Concurrent as err:
        seen.append(err)


async def producer(seen):
    results = first(
        contestant(1, 1), contestant(2, 5, fail=True), contestant(3, 9), count=3
    )
    seen.append(await results.__anext__())  # take one result ...
    async with Scope() as scope:
        scope.do(consumer(results, seen))   # ... and let someone else take the rest
        try:
            await (time + 20)               # unrelated to ``first``
        except BaseException as err:
            found.append(
                'case 1: the activity waiting for (time + 20) received %r at time %s'
                % (err, time.now)
            )
            raise


def case_1():
    seen = []
    try:
        run(producer(seen))
    except BaseException as err:
        if not isinstance(err, (KeyError, Concurrent)):
            found.append('case 1: run() ended with %r' % (err,))


# -- case 2 ------------------------------------------------------------------------
LIMIT = 10000
START = float(2 ** 53)


class Spinning(Exception):
    pass


async def ticker(period):
    steps = 0
    async with until(time >= START + 100):
        async for now in delay(period):
            steps += 1
            if steps > LIMIT:
                raise Spinning(
                    'resumed %d times by delay(%s), time is still %r' % (steps, period, now)
                )


def case_2():
    # sanity: the very same program terminates for a period that is representable
    run(ticker(2.0), start=START)
    try:
        run(ticker(1.0), start=START)
    except Spinning as err:
        found.append('case 2: livelock at one virtual time: %s' % err)


def check():
    assert usim.__file__.startswith('/tmp/s6_C03/'), usim.__file__
    case_1()
    case_2()
    if found:
        print('PROPERTY C03 VIOLATED BY THE UNCHANGED LIBRARY:')
        for item in found:
            print('  ', item)
        return 1
    print('ok')
    return 0


if __name__ == '__main__':
    sys.exit(check())
