"""
Baseline finding 2 (unchanged tree): activities that are still suspended when a
simulation ends (``run`` returns as soon as nothing is scheduled anymore) are not
closed by ``run``. They are part of reference cycles (scope <-> task <-> waiter
lists, interrupt tracebacks), so Python unwinds them - running their ``finally:``
blocks / ``async with`` exits - whenever the cyclic garbage collector happens to
run: i.e. depending on unrelated allocations. If the program goes on to run
another simulation, the clean-up events of the first one land at arbitrary points
of the second one's trace (and usim clean-up code such as Lock/resource release
then acts on whatever event loop is current at that moment).

Expected: one trace, whatever unrelated allocations the program's environment
does. Exits 1 when the traces differ.
(Only concerns programs in which a simulation ends while activities still wait.)
"""
import gc
import signal
import sys

from usim import run, time, Scope, Flag


def program(perturb):
    trace = []

    async def server(name, flag):
        try:
            trace.append((name, 'serving', time.now))
            await flag  # never set: the simulation ends while we wait
        finally:
            trace.append((name, 'cleanup'))

    async def first():
        never = Flag()
        async with Scope() as scope:
            scope.do(server('server-1', never))
            scope.do(server('server-2', never))

    async def second():
        for step in range(5):
            await (time + 1)
            perturb(step)
            trace.append(('second', 'step', time.now))

    run(first())
    trace.append(('first simulation over',))
    run(second())
    trace.append(('second simulation over',))
    return trace


# unrelated activity of the environment
def plain(step):
    pass


def collect(step):
    if step == 2:
        gc.collect()


def churn(step):
    garbage = [[item] for item in range(30000 * (step + 1))]
    del garbage


def main():
    signal.alarm(120)  # safety bound
    traces = {}
    for perturb in (plain, collect, churn):
        traces[perturb.__name__] = program(perturb)
        gc.collect()
    distinct = {tuple(trace) for trace in traces.values()}
    print('expected: 1 distinct trace; observed: %d' % len(distinct))
    if len(distinct) > 1:
        for name, trace in traces.items():
            print('--- unrelated allocations: %s' % name)
            for event in trace:
                print('   ', *event)
        print('VIOLATION: the trace depends on unrelated allocations (GC timing)')
        return 1
    print('no difference observed')
    return 0


if __name__ == '__main__':
    sys.exit(main())
