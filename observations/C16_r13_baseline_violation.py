"""
C16 on the UNCHANGED library: failures of activities that first()/collect() swallow
or replace, and aborts that do not take place.

Exit status 1 if at least one of the violations below shows, 0 otherwise.

A  (main finding) An activity that fails with a TaskCancelled / TaskClosed it did not
   cause itself - the documented outcome of ``await task`` for a task that somebody
   cancelled, or that was closed with its scope - is a failed activity like any other.
   But Scope.SUPPRESS_CONCURRENT drops exactly these exception types from the
   failures a scope reports, while the scope is still cancelled and its other
   children are still aborted. So
     * ``first(..., count=3)`` aborts the remaining activities and then just ENDS,
       after 1 result instead of 3, without raising anything;
     * ``collect(...)`` aborts the remaining activities and raises not the failure but
       whatever ``await task`` of the first non-successful activity in ARGUMENT
       order gives: the TaskClosed("closed at end of scope ...") of an innocent
       activity that was merely aborted, or a bare TaskCancelled (no Concurrent).
B  (tie, weaker) ``first()`` leaves its scope with a postponement. An activity that is
   resumed in the time step in which the consumer returns from the k-th (last)
   result still runs one turn *after* first() was told to stop; if it fails in that
   turn, first() raises Concurrent although all k results were delivered and it was
   to stop and abort.
C  (deep nesting, resource limit) aborting an activity that is nested about 200
   first()/collect() levels deep overflows the Python stack *inside* the abort; the
   RecursionError is swallowed (stderr only / recorded as failure of a task of an
   already closed scope) and the innermost activity keeps running to its end while
   first() reports a normal end.
"""
import contextlib
import io
import signal
import sys

from usim import run, time, first, collect, Scope, Concurrent, TaskCancelled, TaskClosed

signal.alarm(60)

violations = []


async def sleeper(log, name, duration):
    try:
        await (time + duration)
        log.append((name, 'finished', time.now))
        return name
    finally:
        log.append((name, 'exit', time.now))


async def wait_for(task):
    """An activity whose result is the result of some other task"""
    return await task


async def cancel_later(task, delay):
    await (time + delay)
    task.cancel()


# --- A ---------------------------------------------------------------------------
async def scenario_a_first():
    log = []
    async with Scope() as scope:
        helper = scope.do(sleeper(log, 'helper', 50))
        scope.do(cancel_later(helper, 2))
        start = time.now
        results = []
        try:
            async for result in first(
                sleeper(log, 'a', 1), wait_for(helper), sleeper(log, 'b', 5), count=3,
            ):
                results.append((result, time.now - start))
        except Concurrent as err:
            # what the documentation promises: the failure of wait_for is reported
            if not isinstance(err.children[0], TaskCancelled):
                violations.append('A/first: raised %r' % (err,))
            return
        violations.append(
            'A/first: count=3 of 3 activities, one fails with TaskCancelled at +2: the '
            'iteration ENDED normally at +%s with only %d result(s) %r; the failure '
            'was swallowed (activity "b" aborted: %r)' % (
                time.now - start, len(results), results,
                [event for event in log if event[0] == 'b'],
            )
        )


async def scenario_a_collect():
    log = []
    async with Scope() as scope:
        helper = scope.do(sleeper(log, 'helper', 50))
        scope.do(cancel_later(helper, 2))
        start = time.now
        try:
            result = await collect(
                sleeper(log, 'b', 5), wait_for(helper), sleeper(log, 'a', 1),
            )
        except Concurrent as err:
            if not isinstance(err.children[0], TaskCancelled):
                violations.append('A/collect: raised %r' % (err,))
        except TaskClosed as err:
            violations.append(
                'A/collect: the second activity fails with TaskCancelled at +2; raised '
                'at +%s is not that failure (nor a Concurrent) but the %s of the '
                'innocent first activity that was aborted because of it: %.60s...' % (
                    time.now - start, type(err).__name__, err)
            )
        except TaskCancelled as err:
            violations.append(
                'A/collect: the failure is raised bare, not as Concurrent: %r' % (err,)
            )
        else:
            violations.append('A/collect: returned %r' % (result,))


# --- B ---------------------------------------------------------------------------
async def late_failure(log):
    await (time + 3)
    await (time + 3)  # resumed at 6, in the turn after the consumer came back
    log.append(('late', 'runs', time.now))
    raise KeyError('late')


async def scenario_b():
    log = []
    start = time.now
    results = []
    try:
        async for result in first(sleeper(log, 'a', 1), late_failure(log), count=1):
            results.append((result, time.now - start))
            await (time + 5)  # a slow consumer: back at +6
            log.append(('consumer', 'back', time.now))
    except Concurrent as err:
        order = [event[:2] for event in log if event[0] in ('consumer', 'late')]
        violations.append(
            'B: count=1, the one result %r was delivered and handled, first() was to '
            'stop and abort the rest - but the loser ran afterwards (%r) and first() '
            'raised %r' % (results, order, err)
        )


# --- C ---------------------------------------------------------------------------
async def nest_first(log, depth):
    if depth == 0:
        return await sleeper(log, 'deep', 10)
    async for result in first(nest_first(log, depth - 1)):
        pass
    return result


async def nest_collect(log, depth):
    if depth == 0:
        return await sleeper(log, 'deep', 10)
    return (await collect(nest_collect(log, depth - 1)))[0]


async def scenario_c(nest, depth):
    log = []
    start = time.now
    outcome = 'ended normally'
    try:
        async for _ in first(sleeper(log, 'quick', 1), nest(log, depth)):
            pass
    except BaseException as err:  # noqa: B902
        outcome = 'raised %s' % type(err).__name__
    stop = time.now - start
    await (time + 20)
    deep = [(what, when - start) for who, what, when in log if who == 'deep']
    if deep != [('exit', 1)]:
        violations.append(
            'C: %s depth %d: first() %s at +%s, but the innermost activity was not '
            'aborted: %r' % (nest.__name__, depth, outcome, stop, deep)
        )


async def main():
    await scenario_a_first()
    await (time + 100)
    await scenario_a_collect()
    await (time + 100)
    await scenario_b()
    await (time + 100)
    # the overflow is reported on stderr only ("Exception ignored in ..."): keep the
    # output readable
    with contextlib.redirect_stderr(io.StringIO()):
        await scenario_c(nest_first, 300)
        await (time + 100)
        await scenario_c(nest_collect, 300)
    finished.append(True)


finished = []
run(main())
if not finished:
    print('the simulation did not run to its end')
    sys.exit(2)
for violation in violations:
    print('VIOLATION', violation)
    print()
sys.exit(1 if violations else 0)
