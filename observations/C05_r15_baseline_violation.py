"""
Baseline (unchanged tree): an exception of the body that is still unwinding the block is
lost when the block's own interrupt arrives during a clean-up that suspends

Four cases, all with the library's own suspending clean-up (handing back resources
borrowed with ``async with resources.borrow(...)``; a ``finally: await ...`` does the same):

A  ``until(flag)``: the body raises KeyError; while it unwinds through the borrow block the
   flag is set  ->  the until-block ends WITHOUT any exception, the KeyError is gone.
B  as A with AssertionError (a privileged exception that "always propagates").
C  plain ``Scope``: the body raises AssertionError; while it unwinds, a child fails
   ->  the block ends with Concurrent(IndexError); the privileged exception of the body,
   which wins over child failures everywhere else, is gone.

D  as A, but what the body raises is the Concurrent(IndexError) of an inner scope whose
   child failed  ->  the failure of that child is reported to nobody at all.

Exit status 1 if any of this shows, 0 otherwise.
"""
import sys
import signal

from usim import run, time, instant, Scope, until, Concurrent, Resources, Flag


def on_alarm(*_):
    print("the simulation hangs")
    sys.exit(1)


signal.signal(signal.SIGALRM, on_alarm)
signal.alarm(30)

violations = []


async def set_flag(flag, at, turns=1):
    await (time + at)
    for _ in range(turns):
        await instant  # in the time step of the failure, but after it
    await flag.set()


async def fail_child(at):
    await (time + at)
    await instant
    raise IndexError('child')


async def until_case(name, body_exc):
    resources = Resources(slots=1)
    flag = Flag()
    async with Scope() as helper:
        helper.do(set_flag(flag, 1))
        try:
            async with until(flag):
                async with resources.borrow(slots=1):
                    await (time + 1)
                    raise body_exc
        except BaseException as err:  # noqa: B902
            outcome = err
        else:
            outcome = None
    print("%s: body raised %r, until-block ended with %r" % (name, body_exc, outcome))
    if outcome is not body_exc:
        violations.append(
            "%s: the body of the until-block raised %r and no child failed, but the "
            "block ended with %r" % (name, body_exc, outcome)
        )


async def nested_case(name):
    resources = Resources(slots=1)
    flag = Flag()
    async with Scope() as helper:
        helper.do(set_flag(flag, 1, turns=2))
        try:
            async with until(flag):
                async with resources.borrow(slots=1):
                    # the child of this inner scope fails: the inner block duly ends with
                    # Concurrent(IndexError) - which is an exception of the until-body
                    async with Scope() as inner:
                        inner.do(fail_child(1))
                        await (time + 10)
        except BaseException as err:  # noqa: B902
            outcome = err
        else:
            outcome = None
    print("%s: inner scope failed with Concurrent, until-block ended with %r at %s" % (
        name, outcome, time.now))
    if not isinstance(outcome, Concurrent):
        violations.append(
            "%s: a child failed and its scope raised Concurrent[IndexError] into the body "
            "of the until-block, but that block ended with %r: the failure is reported "
            "to nobody" % (name, outcome)
        )


async def scope_case(name, body_exc):
    resources = Resources(slots=1)
    try:
        async with Scope() as scope:
            scope.do(fail_child(1))
            async with resources.borrow(slots=1):
                await (time + 1)
                raise body_exc
    except BaseException as err:  # noqa: B902
        outcome = err
    else:
        outcome = None
    print("%s: body raised %r, scope ended with %r" % (name, body_exc, outcome))
    if outcome is not body_exc:
        violations.append(
            "%s: the body raised the privileged %r, but the block ended with %r" % (
                name, body_exc, outcome)
        )


async def main():
    await until_case('A', KeyError('body'))
    await until_case('B', AssertionError('body'))
    await scope_case('C', AssertionError('body'))
    await nested_case('D')


if __name__ == '__main__':
    try:
        run(main(), till=100)
    except BaseException as err:  # noqa: B902
        print("simulation failed with %r" % (err,))
        sys.exit(1)
    for violation in violations:
        print("VIOLATION", violation)
    sys.exit(1 if violations else 0)
