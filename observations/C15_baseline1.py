"""
Baseline finding 1 (unchanged tree): with ``till=...``, run() does not re-raise the
exception escaping a root activity unchanged - it raises ``usim.Concurrent`` wrapping it.

C15: run() "... (or `till` is reached) ... re-raises the first exception escaping a root
activity unchanged". run(..., till=T) wraps the root activities as children of an
internal ``until(time == T)`` scope, so their failure surfaces as Concurrent[...].
"""
import sys

from usim import run, time


class Boom(Exception):
    pass


async def failing(error):
    await (time + 1)
    raise error


def outcome(**kwargs):
    error = Boom('root activity failed')
    try:
        run(failing(error), **kwargs)
    except BaseException as err:
        return error, err
    return error, None


def main():
    violated = False
    for kwargs in ({}, {'till': 10}):
        raised, received = outcome(**kwargs)
        unchanged = received is raised
        print('run(failing(), %s): expected the very exception %r, observed %r -> %s' % (
            ', '.join('%s=%r' % item for item in kwargs.items()), raised, received,
            'ok' if unchanged else 'VIOLATION'
        ))
        violated |= not unchanged
    return 1 if violated else 0


if __name__ == '__main__':
    sys.exit(main())
