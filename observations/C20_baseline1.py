"""
C20, unchanged tree: leaving an ``until`` block whose notification has fired
already does not let an activity run that is runnable at that time.

Expected (property): leaving a scope block lets every other activity that is
runnable at that time run before the block statement completes.

Observed: the interrupt of ``until(<true condition>)`` is queued when the block
is *entered*.  If the block has no break point, leaving it is the first one;
the interrupt is delivered there and the block statement completes at once -
before any activity that became runnable inside the block (started in an outer
scope from within the block) had a chance to run even once.
"""
import sys

from usim import run, Scope, Flag, until, instant


async def other(log):
    log.append('other ran')


async def main(problems):
    flag = Flag()
    await flag.set()
    log = []
    async with Scope() as outer:
        # control: a plain scope lets the new activity run before it is left
        async with Scope():
            outer.do(other(log))
        if log != ['other ran']:
            problems.append('control: plain Scope left, log = %r' % log)
        log.clear()
        async with until(flag):
            outer.do(other(log))  # runnable from here on
        print('expected: other activity has run when the until-block is left')
        print('observed: log = %r' % log)
        if log != ['other ran']:
            problems.append(
                'until(<set flag>) block was left before a runnable activity ran'
            )
        await instant
        print('after one more postponement: log = %r' % log)


if __name__ == '__main__':
    problems = []
    run(main(problems))
    if problems:
        for problem in problems:
            print('VIOLATION:', problem)
        sys.exit(1)
    print('no violation')
    sys.exit(0)
