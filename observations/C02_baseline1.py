"""
Baseline finding 1 (unchanged tree): what a failed scope reports depends on memory
addresses - ``Concurrent`` specialisations are built by iterating a ``frozenset``
of exception *types* (usim/_primitives/concurrent_exception.py, _get_specialisation),
whose iteration order follows the types' addresses.

The same program - three children of a scope fail at the same time, the parent logs
the error it receives - therefore logs a different exception type name / message
(``Concurrent[KeyError, IndexError, ValueError]`` vs ``Concurrent[KeyError,
ValueError, IndexError]`` ...) from process to process (ASLR), and the order of
``type(err).specialisations`` differs as well.

Expected: the identical trace in every process. Exits 1 when traces differ.
(This concerns the *content* of a logged event, not the order of events.)
"""
import os
import subprocess
import sys

PROCESSES = 16


def program():
    from usim import run, time, Scope, Concurrent

    trace = []

    async def fail(error, after):
        await (time + after)
        trace.append(('raise', type(error).__name__, time.now))
        raise error

    async def main():
        try:
            async with Scope() as scope:
                scope.do(fail(KeyError('a'), 1))
                scope.do(fail(IndexError('b'), 1))
                scope.do(fail(ValueError('c'), 1))
                scope.do(fail(TypeError('d'), 1))
        except Concurrent as err:
            trace.append(('parent caught', str(err), time.now))
            trace.append((
                'specialisations',
                [child.__name__ for child in type(err).specialisations]
            ))

    run(main(), till=1000)
    for event in trace:
        print(*event)


def main():
    traces = {}
    for index in range(PROCESSES):
        env = dict(os.environ, PYTHONHASHSEED=str(index % 2))
        result = subprocess.run(
            [sys.executable, os.path.abspath(__file__), '--program'],
            env=env, stdout=subprocess.PIPE, stderr=subprocess.PIPE,
            universal_newlines=True, timeout=120,
        )
        if result.returncode != 0:
            print('could not run program:\n' + result.stderr)
            return 2
        traces.setdefault(result.stdout, []).append(index)
    print('expected: 1 distinct trace in %d processes' % PROCESSES)
    print('observed: %d distinct trace(s)' % len(traces))
    if len(traces) > 1:
        for trace, where in traces.items():
            print('--- in processes %s:' % where)
            print(trace.rstrip())
        print('VIOLATION: the logged error depends on the process (memory addresses)')
        return 1
    print('no difference observed (address layout did not vary between processes)')
    return 0


if __name__ == '__main__':
    if sys.argv[1:] == ['--program']:
        program()
    else:
        sys.exit(main())
