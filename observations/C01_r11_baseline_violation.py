"""
UNCHANGED library: a date condition shared by a simulation and a simulation nested
in it hands the waiters of the outer simulation over to the inner event loop.

The outer activity ``waiter`` awaits ``deadline = time >= 10`` at (outer) time 0.
At outer time 2 another outer activity runs a nested simulation (``usim.run`` inside
an activity; nesting is supported, see usim/_core/handler.py) whose activity awaits
the same condition object. The trigger that the nested loop schedules for the date
wakes *all* waiters of the object - including the outer ``waiter``, which from then
on is executed by the nested loop: it resumes although the clock of its own
simulation reads 2, and the times seen by the outer activities go 10, 11, 2.
"""
import os
import signal
import sys

sys.path.insert(0, os.path.dirname(os.path.dirname(os.path.abspath(__file__))))
signal.alarm(15)

from usim import run, time, Scope  # noqa: E402

DATE = 10
seen = []  # (activity of the OUTER simulation, time.now), in order of execution
deadline = None


async def waiter():
    await deadline
    seen.append(('waiter resumed from `await (time >= 10)`', time.now))
    await (time + 1)
    seen.append(('waiter resumed from `await (time + 1)`', time.now))


async def inner():
    await deadline


async def nester():
    await (time + 2)
    seen.append(('nester before the nested run', time.now))
    run(inner())
    seen.append(('nester after the nested run', time.now))


async def main():
    global deadline
    deadline = time >= DATE
    async with Scope() as scope:
        scope.do(waiter())
        scope.do(nester())

run(main())

for entry in seen:
    print('%-45s time.now = %r' % entry)
times = [now for _, now in seen]
if times != sorted(times):
    print('C01 violated on the unchanged library: the clock read by the activities '
          'of one simulation decreased: %r' % (times,))
    sys.exit(1)
print('ok')
