"""
Baseline violation (unchanged library, CPython < 3.13): an awaiter that properly handles
the TaskCancelled of a cancelled task is silently destroyed later on, when *another*
awaiter of the same task fails to handle it.

Exit status 1 when the violation shows, 0 otherwise.
"""
import os
import signal
import sys

import usim
from usim import Scope, run, time, TaskCancelled, TaskState

signal.alarm(15)
log = []
tasks = {}


async def victim():
    await (time + 100)


async def careful(task):
    # awaits the task, handles its cancellation, and carries on with its own work
    try:
        await task
    except TaskCancelled as err:
        log.append('careful: handled %r' % (err,))
    await (time + 10)
    log.append('careful: finished its work at %s' % time.now)
    return 'careful result'


async def careless(task):
    await (time + 3)
    await task  # TaskCancelled is not handled: this task ends with it


async def main():
    async with Scope() as outer:
        tasks['victim'] = victim_task = outer.do(victim())
        tasks['careful'] = outer.do(careful(victim_task))
        await (time + 0.5)
        victim_task.cancel('token')          # time 0.5: careful handles it, sleeps to 10.5
        async with Scope() as inner:         # a separate scope for the careless awaiter
            tasks['careless'] = inner.do(careless(victim_task))
        log.append('main: inner scope left at %s' % time.now)   # 3.5
        await (time + 50)
        log.append('main: body finished at %s' % time.now)      # 53.5
    log.append('main: outer scope left at %s' % time.now)


print('usim from', usim.__file__)
run(main())
for line in log:
    print('  ', line)
for name, task in tasks.items():
    print('  ', name, task.status, 'done' if task.done else 'NOT done')

problems = []
if 'careful: finished its work at 10.5' not in log:
    problems.append("the careful awaiter never finished although nobody cancelled it")
if tasks['careful'].status is not TaskState.SUCCESS:
    problems.append("careful awaiter has status %s" % tasks['careful'].status)
if not any(line.startswith('main: outer scope left') for line in log):
    problems.append("the outer scope never ended: run() returned with main() unfinished")
if tasks['careless'].status is TaskState.CANCELLED:
    problems.append(
        "the careless awaiter was never cancelled but reports status CANCELLED")

# --- second observation: cancelling a child silently aborts the parent scope as soon as
# --- a sibling awaits the cancelled child without handling TaskCancelled
log2 = []


async def main2():
    try:
        async with Scope() as scope:
            child = scope.do(victim())
            scope.do(careless(child))       # awaits child at time 3, unhandled
            await (time + 1)
            child.cancel('token')
            await (time + 20)
            log2.append('body finished')
    except BaseException as err:  # noqa: B902
        log2.append('scope raised %r' % (err,))
    log2.append('scope left at %s' % time.now)


run(main2())
print('  ', log2)
if log2 == ['scope left at 3']:
    problems.append(
        "cancelling a child aborted the body of its parent scope at time 3 (via the "
        "sibling that awaited it) and the scope reported no error at all")
if problems:
    print('BASELINE VIOLATION:')
    for problem in problems:
        print('  -', problem)
    sys.stdout.flush()
    os._exit(1)  # skip the noisy finalisation of the frozen activities
print('ok')
sys.exit(0)
