"""
Baseline (unchanged library): ``~c`` is not the negation of ``c`` for a comparison of
a tracked value that is only partially ordered (a set, or a float that is NaN).

Exit status 1 when the violation shows, 0 otherwise.
"""
import signal
import sys

import usim
from usim import Tracked, Flag, Scope, run, time

signal.alarm(20)

problems = []
resumed = {}


async def wait_for(name, condition):
    await condition
    resumed[name] = time.now


async def main():
    members = Tracked(frozenset({1}))
    subset = members <= frozenset({2})  # {1} <= {2}: False
    flag = Flag()
    for name, cond, expected in (
        ('c = (members <= {2})', subset, False),
        ('~c', ~subset, True),
        ('~~c', ~~subset, False),
        ('~(c & flag)', ~(subset & flag), True),
        ('~c | ~flag', ~subset | ~flag, True),
        ('~(c | flag)', ~(subset | flag), True),
    ):
        if bool(cond) != expected:
            problems.append('bool(%s) is %s, boolean algebra says %s' % (
                name, bool(cond), expected))
    nan = Tracked(float('nan'))
    below = nan < 5  # False
    if bool(~below) is not True:
        problems.append('bool(~(nan < 5)) is %s although bool(nan < 5) is %s' % (
            bool(~below), bool(below)))
    # never missed: "not c" holds all the time, the waiter must resume at once
    async with Scope() as scope:
        scope.do(wait_for('await ~c', ~subset), volatile=True)
        await (time + 1)
        await members.set(frozenset({1, 3}))  # {1, 3} <= {2} still False
        await (time + 1)
    if 'await ~c' not in resumed:
        problems.append(
            "'await ~c' never resumed within 2 time units although c is False "
            "all the time")


if __name__ == '__main__':
    print('usim from', usim.__file__)
    run(main(), till=10)
    if problems:
        print('PROPERTY C08 VIOLATED (unchanged library):')
        for problem in problems:
            print(' -', problem)
        sys.exit(1)
    print('ok')
    sys.exit(0)
