"""
Violations of C05 by the UNCHANGED library (three independent ones).

Each case is a separate simulation that uses only documented API; ``observed[case]``
records how the scope block ended.  Exit status 1 if any violation shows.
"""
import signal
import sys

from usim import run, Scope, until, time, eternity, Concurrent, Resources

signal.alarm(20)  # never hang
observed = {}
violations = []


def describe(err):
    if isinstance(err, Concurrent):
        return 'Concurrent(%s)' % ', '.join(map(repr, err.children))
    return repr(err)


# --- A: an until-block swallows the exception raised by its own body ------------------
# The body raises KeyError at t=5 inside a ``borrow`` block.  Giving the resources back
# postpones (same time step).  The block's own notification (time == 5) fires in that
# very time step, its interrupt is delivered at the postponement and *replaces* the
# KeyError; the block then suppresses its interrupt: the KeyError is gone.
async def case_a():
    resources = Resources(cores=2)
    body_error = KeyError('raised by the body')
    try:
        async with until(time == 5):
            async with resources.borrow(cores=1):
                await (time + 5)
                raise body_error
    except BaseException as err:
        observed['A'] = (err, time.now)
    else:
        observed['A'] = (None, time.now)
    if observed['A'][0] is not body_error:
        violations.append(
            "A: the body of an until-block raised %r at t=5, but the block ended with %s"
            % (body_error, describe(observed['A'][0]))
        )


# --- A2: same mechanism in a Scope: a privileged exception of the body is lost ----------
# The body's AssertionError - documented to supersede every synchronous and concurrent
# exception - is replaced by the Concurrent of a child that fails in the same time step,
# because the scope's interrupt arrives while the ``borrow`` block is being left.
async def case_a2():
    resources = Resources(cores=2)
    body_error = AssertionError('raised by the body')
    child_error = IndexError('raised by the child')

    async def child():
        await (time + 5)
        raise child_error
    try:
        async with Scope() as scope:
            scope.do(child())
            await (time + 1)
            async with resources.borrow(cores=1):
                await (time + 4)
                raise body_error
    except BaseException as err:
        observed['A2'] = (err, time.now)
    else:
        observed['A2'] = (None, time.now)
    if observed['A2'][0] is not body_error:
        violations.append(
            "A2: the body raised the privileged %r, a child failed in the same time "
            "step, and the block ended with %s" % (body_error, describe(observed['A2'][0]))
        )


# --- B: a child re-raises an exception that the scope's owner had caught -----------------
# The failure of a child is an exception object whose traceback still references the
# frame of the (suspended) owner of the scope, because the owner caught it earlier.
# Task.payload_wrapper runs ``clear_frames`` on the traceback, which *finalises the
# owner's coroutine*: GeneratorExit is thrown into the body, Scope.__aexit__ tries to
# close the child that is executing right now, and the block ends with
# ``ValueError('coroutine already executing')`` - the owner is dead afterwards.
async def case_b():
    try:
        raise KeyError('deferred')
    except KeyError as err:
        deferred = err  # e.g. the first error of a batch, to be escalated later

    async def escalate(exc, delay):
        await (time + delay)
        raise exc
    observed['B'] = ('block never ended', None)
    try:
        async with Scope() as scope:
            scope.do(escalate(deferred, 1))
            await (time + 10)
    except BaseException as err:
        observed['B'] = (err, time.now)
        ok = isinstance(err, Concurrent) and len(err.children) == 1 \
            and err.children[0] is deferred
        if not ok:
            violations.append(
                "B: the only failure was the child's %r at t=1, but the block ended "
                "with %s" % (deferred, describe(err))
            )
        raise
    else:
        observed['B'] = (None, time.now)
        violations.append("B: block ended without exception")


# --- C: a child fails with a BaseException that is neither Exception nor privileged ----
class Shutdown(BaseException):
    """An application level signal, like asyncio.CancelledError or trio.Cancelled"""


async def case_c():
    failure = Shutdown()

    async def child():
        await (time + 1)
        raise failure
    try:
        async with Scope() as scope:
            scope.do(child())
            await (time + 10)
    except BaseException as err:
        observed['C'] = (err, time.now)
    else:
        observed['C'] = (None, time.now)
    err = observed['C'][0]
    ok = isinstance(err, Concurrent) and len(err.children) == 1 \
        and err.children[0] is failure
    if not ok and __debug__:
        violations.append(
            "C: the only failure was the child's %r, but the block ended with %s"
            % (failure, describe(err))
        )


for case in (case_a, case_a2, case_b, case_c):
    try:
        run(case())
    except BaseException as err:  # noqa: B902
        print("%s: run() raised %s" % (case.__name__, describe(err)))

for key, value in observed.items():
    print(key, '->', value if not isinstance(value, tuple)
          else (describe(value[0]) if isinstance(value[0], BaseException)
                else value[0], value[1]))
if 'B' in observed and observed['B'][0] == 'block never ended':
    violations.append("B: the block never ended")
for violation in violations:
    print("BASELINE VIOLATION", violation)
sys.exit(1 if violations else 0)
