"""
Baseline finding for C15 (unchanged tree): helper activities that the library
itself schedules in the event loop are not unwound when run() ends.

``until(a | b)`` (any ``until``/subscription on a combined condition) makes the
``Connective`` start a watcher coroutine directly in the event loop.  When the
simulation ends while the watcher is still suspended, ``Loop.run`` unwinds the root
activities only: the watcher stays alive, suspended, and subscribed to the flags.
The next simulation on this thread that sets one of the flags resumes this
activity *of the finished simulation* inside itself, and fails with an
AssertionError that none of its root activities raised.

Exits 1 if the violation shows, 0 otherwise.
"""
import sys
import signal

signal.signal(signal.SIGALRM, lambda *_: (print("TIMEOUT (hang)"), sys.exit(1)))
signal.alarm(30)

from usim import run, time, Flag, until, eternity  # noqa: E402

problems = []


def leftover(till):
    a, b = Flag(), Flag()
    trace = []

    async def blocked():
        async with until(a | b):
            await eternity
        trace.append('until(a | b) left at %s' % time.now)

    async def unrelated():
        # a root activity that does nothing wrong
        await (time + 1)
        await a.set()
        await (time + 1)
        trace.append('unrelated done at %s' % time.now)

    # first simulation: nobody sets a flag, it ends at quiescence (or at ``till``)
    run(blocked(), till=till)
    try:
        time.now
    except RuntimeError:
        pass
    else:
        problems.append('simulation visible after run()')
    # second simulation on the same thread: sets the flag
    try:
        run(unrelated(), start=100, till=None if till is None else 100 + till)
    except BaseException as err:  # noqa: B902
        problems.append(
            'run(blocked(), till=%r) returned but left an activity of that simulation '
            'alive; a later run(unrelated()) raised %r, which no root activity raised '
            '(trace: %r)' % (till, err, trace)
        )
    else:
        print('till=%r: second simulation undisturbed: %r' % (till, trace))


def start_is_till():
    """Secondary observation: run(..., start=t, till=t) never starts its activities"""
    started = []

    async def activity(tag):
        started.append((tag, time.now))
        await (time + 1)

    import warnings
    with warnings.catch_warnings():
        warnings.simplefilter('ignore', RuntimeWarning)
        run(activity('a'), activity('b'), start=5, till=5)
    if started != [('a', 5), ('b', 5)]:
        problems.append(
            'run(a, b, start=5, till=5) started %r instead of both activities at 5 '
            '(run() is to start all root activities at `start`)' % (started,)
        )


def swallowed_cleanup_failure():
    """Secondary observation: a failure escaping a root while it is unwound is lost"""
    async def blocked():
        try:
            await eternity
        finally:
            raise ValueError('cleanup of a root activity failed')

    outcome = {}
    for till in (None, 10):
        try:
            run(blocked(), till=till)
        except ValueError:
            outcome[till] = 'ValueError re-raised'
        else:
            outcome[till] = 'nothing reported'
    if outcome[None] != outcome[10]:
        problems.append(
            'an exception escaping a root activity while it is unwound at the end: '
            'run() -> %s, run(till=10) -> %s' % (outcome[None], outcome[10])
        )


def main():
    leftover(till=None)
    leftover(till=10)
    start_is_till()
    swallowed_cleanup_failure()
    if problems:
        print('BASELINE VIOLATION of C15:')
        for problem in problems:
            print(' -', problem)
        return 1
    print('no violation observed')
    return 0


if __name__ == '__main__':
    try:
        status = main()
    except BaseException as err:  # noqa: B902
        print('unexpected failure: %r' % (err,))
        status = 1
    sys.stdout.flush()
    sys.exit(1 if status else 0)
