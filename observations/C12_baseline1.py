"""
Baseline finding 1 (unchanged tree): a nested borrower that outlives the block of
the share it borrowed from.

``async with supply.borrow(a=5) as sub`` hands ``sub`` to a child activity (running
in an enclosing Scope) that borrows ``a=3`` from ``sub`` for a while. When the outer
block is left first, BorrowedResources.__aexit__ removes the full 5 from the share
and returns the full 5 to the supply (see the TODO "forcefully kill off anyone
holding our resources?").

Expected by C12: levels never negative; available <= supply - everything held.
Observed: the share's level is -3, and the supply shows 5 of 5 available while 3
are still held by the nested borrower - a third borrower then takes all 5, so 8
units of a supply of 5 are held at the same time.
"""
import sys

from usim import run, Scope, time, Capacities

log = {}


async def main():
    supply = Capacities(a=5)
    held = {'now': 0, 'max': 0}

    async def hold(resources, amount, duration):
        async with resources.borrow(a=amount):
            held['now'] += amount
            held['max'] = max(held['max'], held['now'])
            await (time + duration)
            held['now'] -= amount

    async with Scope() as scope:
        async with supply.borrow(a=5) as sub:
            scope.do(hold(sub, 3, 10))  # nested borrower in another activity
            await (time + 1)
        # outer block left at time 1, nested borrower holds until time 10
        log['share level after block'] = sub.levels.a
        log['supply level after block'] = supply.levels.a
        scope.do(hold(supply, 5, 5))  # takes "everything" while 3 are still held
        await (time + 2)
    log['max held at once (leaf borrowers)'] = held['max']
    log['supply level at end'] = supply.levels.a
    log['finished'] = True


run(main(), till=1000)
print('expected: share level >= 0, supply level after block <= 5 - 3 = 2, '
      'max held at once <= 5')
print('observed:', log)
if (
    not log.get('finished')
    or log['share level after block'] < 0
    or log['supply level after block'] > 2
    or log['max held at once (leaf borrowers)'] > 5
):
    print('VIOLATION')
    sys.exit(1)
print('no violation')
