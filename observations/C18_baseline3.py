"""
Baseline finding 3 (unchanged tree): a queued interrupt is NOT raised at the next
yield if that yield is a native coroutine which finishes without suspending.

Property: "interrupt(cause) raises Interrupt(cause) in a live process at its
current yield within the same time step, one per yield in call order" -
quantified over processes that also yield native activities.

``AwaitableEvent.wait_interruptible`` relies on ``until(flag)``, which can only
interrupt at a suspension point of the awaited activity; an activity without one
completes, and its result wins over the interrupt that was queued before.
"""
import sys

from usim.py import Environment, Interrupt

env = Environment()
trace = []


async def quick():
    return 'q'


def victim(env):
    for step in range(3):
        try:
            value = yield (quick() if step == 1 else env.timeout(5, step))
            trace.append(('value', value, env.now))
        except Interrupt as intr:
            trace.append(('interrupt', intr.cause, env.now))


def attacker(env, target):
    yield env.timeout(1)
    target.interrupt('a')
    target.interrupt('b')


env.process(attacker(env, env.process(victim(env))))
env.run(until=50)
expected = [('interrupt', 'a', 1), ('interrupt', 'b', 1), ('value', 2, 6)]
if trace != expected:
    print('VIOLATION')
    print('   expected:', expected)
    print('   observed:', trace)
    sys.exit(1)
print('no violation observed')
