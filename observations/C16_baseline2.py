"""
Baseline finding (unchanged tree): cancelling the caller of first() while it works on a
result does not abort the remaining activities when the caller keeps the iterator in a
local variable (gen = first(...); async for x in gen: ...).

C16 quantifies over "cancellation of the caller" and demands that the activities still
running are aborted so that none of their code runs afterwards.
Observed: the activities keep running to their end (the suspended async generator - and
with it first()'s scope - stays referenced from the traceback kept with the task's
TaskCancelled, so it is only unwound when that is garbage collected). With the iterator
used inline (async for x in first(...)) the activities are aborted at the cancellation.
"""
import sys
import warnings
from usim import run, time, Scope, first

warnings.simplefilter('ignore')
problems = []


async def activity(log, name, delay):
    await (time + delay)
    log.append((name, time.now))
    return name


async def caller(log, keep_iterator):
    if keep_iterator:
        gen = first(activity(log, 'a', 1), activity(log, 'b', 4), activity(log, 'c', 8),
                    count=2)
        async for value in gen:
            await (time + 100)  # busy with the result
    else:
        async for value in first(activity(log, 'a', 1), activity(log, 'b', 4),
                                 activity(log, 'c', 8), count=2):
            await (time + 100)


async def main(keep_iterator):
    log = []
    async with Scope() as scope:
        task = scope.do(caller(log, keep_iterator))
        await (time + 2)
        task.cancel()
        await (time + 50)
        late = [entry for entry in log if entry[1] > 2]
        print('iterator kept in a variable:' if keep_iterator else 'iterator used inline:',
              'activity code that ran after the cancellation at 2:', late, '(expected [])')
        if late:
            problems.append('keep_iterator=%s: %r ran after the caller was cancelled at 2'
                            % (keep_iterator, late))


run(main(False), till=10000)
run(main(True), till=10000)
if problems:
    print('VIOLATION')
    for problem in problems:
        print(' -', problem)
    sys.exit(1)
print('no violation')
