"""
Violations of C02 ("the trace is a function of the program alone") by the UNCHANGED
library.  Each part replays one simulation under configurations that must not matter
(here: the moment at which the garbage collector runs, made reproducible by switching
the automatic collector off and calling gc.collect() from a bystander) and compares
the event logs.

exit status 1 if at least one part shows a violation, 0 otherwise
"""
import gc
import signal
import sys

import usim
from usim import run, time, instant, until, Scope, Lock, Resources

signal.alarm(20)  # never hang


# Part A ---------------------------------------------------------------------------
# An activity whose ``until`` block has been interrupted once keeps its frame alive
# through the delivered interrupt (scope <-> interrupt cycle, interrupt.__traceback__
# -> frame).  When that activity is later closed (volatile task at the end of its
# scope), a suspended async generator in one of its local variables is not unwound
# by the close but only when the garbage collector runs: whatever the generator
# holds (here: a Lock) is released at a time decided by unrelated allocations.
async def sampler(device: Lock, period: float):
    async with device:
        while True:
            await (time + period)
            yield time.now


def part_a(collect_at):
    log = []

    async def monitor(device: Lock):
        samples = sampler(device, 1)
        async for now in samples:
            log.append(('monitor sample', now))
            async with until(time + 1):     # a plain timeout ...
                await (time + 10)           # ... that fires
            log.append(('monitor timed out', time.now))
            await (time + 10)

    async def user(device: Lock):
        log.append(('user wants device', time.now))
        async with device:
            log.append(('user has device', time.now))

    async def bystander():
        if collect_at is not None:
            await (time + collect_at)
            gc.collect()

    async def main():
        device = Lock()
        async with Scope() as outer:
            outer.do(bystander())
            async with Scope() as scope:
                scope.do(monitor(device), volatile=True)
                await (time + 3)
                outer.do(user(device))
                await (time + 1)
            log.append(('monitor closed with its scope', time.now))
            await (time + 30)

    gc.collect()
    gc.disable()
    try:
        run(main())
    finally:
        gc.enable()
        gc.collect()
    return log


# Part B ---------------------------------------------------------------------------
# The ResourceLevels specialisation cache is keyed by the field names only, not by
# the zero value, and holds its classes weakly (classes are freed by the cyclic
# collector only).  The zero used for unspecified fields of a new ``Resources`` hence
# depends on whether an unrelated, earlier ``Resources`` with the same field names
# has been collected already.
def part_b(collect: bool):
    log = []

    async def earlier():
        Resources(cores=1.5, memory=2.5)   # float valued, dropped at once

    async def later():
        resources = Resources(cores=4, memory=2 ** 60 + 1)   # int valued
        async with resources.borrow(cores=1):
            log.append(('while borrowed', repr(resources.levels)))
        log.append(('after borrowing', repr(resources.levels)))
        try:
            async with resources.claim(memory=2 ** 60 + 1):
                log.append(('claimed all memory', time.now))
        except usim.ResourcesUnavailable:
            log.append(('all memory not available', time.now))

    gc.collect()
    gc.disable()
    try:
        run(earlier())
        if collect:
            gc.collect()
        run(later())
    finally:
        gc.enable()
        gc.collect()
    return log


# Part C (debatable: float absorption) ----------------------------------------------
# At a clock so large that ``now + delay == now``, an activity that was made runnable
# for "now" by a delay runs after activities made runnable for "now" later on.
def part_c():
    log = []

    async def first():
        await (time + 0.5)     # 1e16 + 0.5 == 1e16: runnable for the current time
        log.append('made runnable first')

    async def second():
        await instant          # runnable for the current time, too - but later
        log.append('made runnable second')

    async def main():
        async with Scope() as scope:
            scope.do(first())
            scope.do(second())

    run(main(), start=1e16)
    return log


def show(title, logs) -> bool:
    print('===', title)
    reference = next(iter(logs.values()))
    same = True
    for name, log in logs.items():
        print('---', name)
        for event in log:
            print('   ', event)
        same = same and log == reference
    print('    ->', 'identical' if same else 'DIFFERENT')
    return same


def main():
    print('usim from', usim.__file__)
    violated = False
    violated |= not show('A: until-interrupt keeps frames alive until the collector runs', {
        'collector runs at t=7': part_a(7),
        'collector runs at t=15': part_a(15),
    })
    violated |= not show('B: zero of resource levels depends on collection of another class', {
        'collector ran in between': part_b(True),
        'collector did not run in between': part_b(False),
    })
    order = part_c()
    print('=== C: same-time order at a huge clock value:', order)
    if order != ['made runnable first', 'made runnable second']:
        print('    -> not in the order of being made runnable')
        violated = True
    print('VIOLATION' if violated else 'no violation shown')
    return 1 if violated else 0


if __name__ == '__main__':
    sys.exit(main())
