"""
Baseline findings for C19 on the UNCHANGED library (exit 1 if any of them shows).

A. Preempted.by / request.proc name an unrelated, long finished process when the
   preempting request is issued from an event callback (or any code that is not
   a running process): Environment.active_process is not reset when a process
   generator ends, so it keeps pointing at the last process that finished.

B. Cancelling the head request of a queue can leave the new head grantable but
   pending until some unrelated later operation (Container, PreemptiveResource).
"""
import signal
import sys

from usim.py import Environment
from usim.py.exceptions import Interrupt
from usim.py.resources.container import Container
from usim.py.resources.resource import PreemptiveResource, PriorityRequest

signal.alarm(15)
findings = []


def case_a():
    env = Environment()
    machine = PreemptiveResource(env, 1)
    seen = {}

    def bystander():
        # has nothing to do with the machine; ends at t=1
        yield env.timeout(1)

    def worker():
        with machine.request(priority=5) as req:
            yield req
            try:
                yield env.timeout(10)
            except Interrupt as interrupt:
                seen['cause'] = interrupt.cause

    def breakdown(event):
        # a timer callback (documented Event.callbacks API) issues the request
        seen['active_process'] = env.active_process
        seen['request'] = machine.request(priority=0)

    bystander_proc = env.process(bystander())
    env.process(worker())
    env.timeout(3).callbacks.append(breakdown)
    env.run(until=20)
    cause = seen.get('cause')
    if cause is None:
        findings.append("A: the worker was not preempted at all")
        return
    if seen['active_process'] is not None:
        findings.append(
            f"A: env.active_process inside a timer callback at t=3 is "
            f"{seen['active_process']!r} (alive={seen['active_process'].is_alive}); "
            f"no process is active there"
        )
    if cause.by is not None:
        findings.append(
            f"A: Preempted.by is {cause.by!r}, a process that ended at t=1 and "
            f"never touched the resource (is bystander: {cause.by is bystander_proc});"
            f" the request was issued by a callback, i.e. by no process"
        )


def case_b_container():
    env = Environment()
    tank = Container(env, capacity=10, init=8)
    seen = {}

    def big():
        with tank.put(5) as put:       # does not fit: 8 + 5 > 10
            yield put | env.timeout(2)  # gives up at t=2 -> cancelled

    def small():
        yield env.timeout(1)
        put = tank.put(2)              # fits (8 + 2 <= 10) but queues behind `big`
        yield put
        seen['small'] = env.now

    def later():
        yield env.timeout(7)
        yield tank.put(0.5)            # unrelated operation

    env.process(big())
    env.process(small())
    env.process(later())
    env.run(until=20)
    if seen.get('small') != 2:
        findings.append(
            f"B: Container: put(2) is first in the queue and fits from t=2 on "
            f"(the blocking put(5) was cancelled), but was granted at "
            f"t={seen.get('small')}"
        )


def case_b_preemptive():
    env = Environment()
    res = PreemptiveResource(env, 1)
    seen = {}

    def user():
        with res.request(priority=5) as req:
            yield req
            try:
                yield env.timeout(10)
            except Interrupt:
                seen['user preempted'] = env.now

    def polite():
        yield env.timeout(1)
        # better than the user but does not preempt: waits, then gives up at t=3
        with PriorityRequest(res, priority=0, preempt=False) as req:
            yield req | env.timeout(2)

    def urgent():
        yield env.timeout(2)
        with res.request(priority=1) as req:   # preempting, better than the user
            yield req
            seen['urgent'] = env.now

    env.process(user())
    env.process(polite())
    env.process(urgent())
    env.run(until=30)
    if seen.get('urgent') != 3:
        findings.append(
            f"B: PreemptiveResource: the preempting request (priority 1 against a "
            f"user of priority 5) heads the queue from t=3 on, but was granted at "
            f"t={seen.get('urgent')} (user preempted at "
            f"{seen.get('user preempted')})"
        )


case_a()
case_b_container()
case_b_preemptive()
if findings:
    print("BASELINE: the unchanged library deviates from C19")
    for line in findings:
        print("  ", line)
    sys.exit(1)
print("nothing found")
sys.exit(0)
