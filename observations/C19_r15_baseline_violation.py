"""
C19 on the UNCHANGED tree.

Primary finding (decides the exit status): a capacity that is not a whole number
is accepted by Resource / PriorityResource / PreemptiveResource (and Store), but the
admission test is `len(users) < capacity`, so ceil(capacity) users are admitted:
"a Resource never has more users than capacity" is violated (count 2 > capacity 1.5).

Secondary observations (printed only, they need a requester that is not a Process and
are therefore outside the literal quantification "issued by any number of processes"):
 * env.active_process is left pointing at a finished process, so a request issued from
   an event callback / native activity is attributed to it and `Preempted.by` names a
   process that never touched the resource;
 * a PreemptiveResource user whose request was issued by a native activity (proc None)
   makes the *preempter's* request() raise AttributeError after the victim has been
   removed from `users` and with the new request left behind in the queue.

Exit status 1 when the primary violation shows, else 0.
"""
import signal
import sys


def _alarm(signum, frame):
    print("hang")
    sys.exit(1)


signal.signal(signal.SIGALRM, _alarm)
signal.alarm(30)


def primary():
    from usim.py import Environment
    from usim.py.resources.resource import (
        Resource, PriorityResource, PreemptiveResource,
    )
    from usim.py.resources.store import Store

    violated = False
    for resource_type in (Resource, PriorityResource, PreemptiveResource):
        env = Environment()
        resource = resource_type(env, capacity=1.5)
        peak = [0]

        def user(resource=resource, env=env, peak=peak):
            with resource.request() as claim:
                yield claim
                peak[0] = max(peak[0], resource.count)
                yield env.timeout(1)

        for _ in range(4):
            env.process(user())
        env.run(until=10)
        print(f"{resource_type.__name__}(capacity=1.5): max simultaneous users "
              f"= {peak[0]}")
        if peak[0] > resource.capacity:
            print("  VIOLATION: more users than capacity")
            violated = True
    env = Environment()
    store = Store(env, capacity=2.5)
    sizes = []

    def filler():
        puts = [store.put(n) for n in range(5)]
        yield env.timeout(1)
        sizes.append((len(store.items), [put.triggered for put in puts]))

    env.process(filler())
    env.run(until=5)
    print(f"Store(capacity=2.5): items held, puts granted = {sizes}")
    if sizes and sizes[0][0] > store.capacity:
        print("  VIOLATION: more items than capacity")
        violated = True
    return violated


def secondary():
    from usim import run, Scope, time
    from usim.py import Environment, Interrupt
    from usim.py.resources.resource import PreemptiveResource

    # stale active_process -> wrong Preempted.by
    env = Environment()
    resource = PreemptiveResource(env, capacity=1)
    seen = []

    def bystander():
        yield env.timeout(1)

    def victim():
        with resource.request(priority=5) as claim:
            try:
                yield claim
                yield env.timeout(10)
            except Interrupt as interrupt:
                seen.append(interrupt.cause.by)

    env.process(victim())
    finished = env.process(bystander())
    env.timeout(3).callbacks.append(lambda event: resource.request(priority=0))
    env.run(until=20)
    print(f"[secondary] request from a callback at t=3: Preempted.by = {seen}; "
          f"expected None, it is the bystander that ended at t=1: "
          f"{bool(seen) and seen[0] is finished}")

    # native holder of a PreemptiveResource
    log = []

    async def main():
        async with Environment() as env:
            resource = PreemptiveResource(env, 1)

            async def native_holder():
                await resource.request(priority=5)
                await (time + 10)

            def preempter():
                yield env.timeout(2)
                try:
                    yield resource.request(priority=0)
                    log.append('granted')
                except AttributeError as err:
                    log.append(f'request() raised {err!r}; users={resource.count}, '
                               f'queue={len(resource.queue)}')

            async with Scope() as scope:
                scope.do(native_holder())
                env.process(preempter())

    run(main(), till=50)
    print(f"[secondary] preempting a slot held by a native activity: {log}")


if __name__ == '__main__':
    try:
        violated = primary()
    except SystemExit:
        raise
    except BaseException as err:  # noqa: B902
        print(f"unexpected {type(err).__name__}: {err}")
        violated = True
    try:
        secondary()
    except BaseException as err:  # noqa: B902
        print(f"[secondary] unexpected {type(err).__name__}: {err}")
    sys.stdout.flush()
    sys.exit(1 if violated else 0)
