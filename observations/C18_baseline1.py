"""
Baseline finding 1 (unchanged tree): a Process whose generator ends *before its
first yield* does not behave as an event.

Property: "a Process is an event that fires with the generator's return value
when it ends" and "every process ... waiting for it resumes ... with its value
- or has its exception raised".

Root cause: ``Process._run_payload`` performs the first ``generator.send(None)``
outside of the ``try`` that translates StopIteration/exceptions into
``succeed``/``fail``.
"""
import sys

from usim.py import Environment

problems = []

# (a) generator returns a value without ever yielding
env = Environment()
seen = []


def quick(env):
    return 5
    yield  # pragma: no cover - makes this a generator


def parent(env):
    value = yield env.process(quick(env))
    seen.append((value, env.now))


env.process(parent(env))
try:
    env.run(until=10)
except BaseException as err:  # noqa
    problems.append(
        f'(a) expected parent to resume with 5 at time 0; '
        f'run raised {type(err).__name__}: {err}'
    )
else:
    if seen != [(5, 0)]:
        problems.append(f'(a) expected [(5, 0)], observed {seen}')

# (b) generator raises before its first yield: waiting parent must get it raised
env = Environment()
seen = []


def broken(env):
    raise KeyError('boom')
    yield  # pragma: no cover


def guardian(env):
    try:
        yield env.process(broken(env))
    except KeyError as err:
        seen.append(('caught', str(err), env.now))


env.process(guardian(env))
try:
    env.run(until=10)
except BaseException as err:  # noqa
    problems.append(
        f"(b) expected the waiting process to catch KeyError('boom') at time 0; "
        f'instead the run ended with {type(err).__name__}: {err}, seen={seen}'
    )
else:
    if seen != [('caught', "'boom'", 0)]:
        problems.append(f'(b) observed {seen}')

if problems:
    print('VIOLATION')
    for problem in problems:
        print('  ', problem)
    sys.exit(1)
print('no violation observed')
