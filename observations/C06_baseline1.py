"""
Baseline candidate 1 (unchanged tree): a task launched with a start delay (scope.do(..., after=5)) and
cancelled in the time step of its start date, but BEFORE it had its turn, still runs its code up to the
first suspension.

Property clause: "Cancelling a task that has not started prevents any of its code from running".
The task's payload has not executed a single statement when cancel() is called (it is still waiting for its
start date inside the Task wrapper; status already reports RUNNING), yet the start wake-up is queued ahead of
the cancellation, so the payload starts, runs to its first suspension and only then receives CancelTask.
For cancel() at any time < 5 no payload code runs; at t == 5 (before the task's turn) it does.
"""
import sys
from usim import run, time, Scope, TaskCancelled

log = []


async def payload():
    log.append('payload code ran at t=%s' % time.now)   # side effect before the first suspension
    await (time + 10)


async def main():
    async with Scope() as scope:
        task = scope.do(payload(), after=5)
        await (time + 5)  # our wake-up at t=5 is queued before the task's start wake-up
        assert not log, 'setup: payload must not have started yet'
        log.append('cancel() at t=%s, status=%s, payload started=%s' % (time.now, task.status, False))
        task.cancel('tok')
        try:
            await task
        except TaskCancelled:
            log.append('awaiter got TaskCancelled at t=%s' % time.now)


run(main(), till=1000)
for line in log:
    print(line)
ran = any(line.startswith('payload code ran') for line in log)
print('expected: no payload code runs (cancelled before it started)')
print('observed: payload code %s' % ('RAN' if ran else 'did not run'))
sys.exit(1 if ran else 0)
