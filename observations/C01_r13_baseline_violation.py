"""
Violations of C01 by the UNCHANGED library (see baseline_violation.txt)

  V1  an activity suspended in a timed wait is silently destroyed when another task
      ends by an exception object that the first one has handled before
      (traceback.clear_frames in the task wrapper; CPython < 3.13)
  V1b the same through 'except Concurrent as err: raise err.children[0]'
  V2  the clock decreases when the time is a large int and a float delay is added
  V3  interval(period) does not resume at `last + period` when the clock crosses 0

Exit status 1 if any of them shows.
"""
import signal
import sys

from usim import run, time, Scope, Concurrent, Queue, Flag, interval


# V1 ##########################################################################
def v1():
    log = {}

    async def worker(errors):
        try:
            raise KeyError('sensor broke')
        except KeyError as err:
            await errors.put(err)  # report the problem to a supervisor, carry on
        log['worker waits from'] = time.now
        await (time + 10)
        log['worker resumed'] = time.now

    async def supervisor(errors):
        err = await errors
        await (time + 2)
        raise err  # the supervisor decides to give up with the reported error

    async def main():
        errors = Queue()
        async with Scope() as outer:
            outer.do(worker(errors))
            try:
                async with Scope() as inner:
                    inner.do(supervisor(errors))
            except Concurrent:
                log['supervisor failed'] = time.now
        log['main done'] = time.now

    run(main())
    if log.get('worker resumed') != 10 or log.get('main done') != 10:
        return (
            "worker started 'await (time + 10)' at %s, the supervisor task failed "
            "at %s in another scope; the worker resumed at %s, main finished at %s "
            "(expected 10 and 10), run() returned normally" % (
                log.get('worker waits from'), log.get('supervisor failed'),
                log.get('worker resumed', 'NEVER'), log.get('main done', 'NEVER'),
            )
        )


# V1b #########################################################################
def v1b():
    log = {}

    async def failing():
        await (time + 1)
        raise KeyError('x')

    async def observer(box, ready):
        await ready
        try:
            await box[0]
        except KeyError:
            log['observer handled the failure'] = time.now
        await (time + 10)
        log['observer resumed'] = time.now

    async def owner(box, ready):
        try:
            async with Scope() as scope:
                box.append(scope.do(failing()))
                await ready.set()
        except Concurrent as err:
            await (time + 1)  # some clean-up
            raise err.children[0]  # unwrap the failure (as usim.py's Environment does)

    async def main():
        box, ready = [], Flag()
        async with Scope() as outer:
            outer.do(observer(box, ready))
            try:
                async with Scope() as inner:
                    inner.do(owner(box, ready))
            except Concurrent:
                log['owner failed'] = time.now
        log['main done'] = time.now

    run(main())
    if log.get('observer resumed') != 11 or log.get('main done') != 11:
        return (
            "observer handled the failure of a task at %s and started "
            "'await (time + 10)'; the task's owner failed with the unwrapped failure "
            "at %s; the observer resumed at %s, main finished at %s (expected 11 and "
            "11), run() returned normally" % (
                log.get('observer handled the failure'), log.get('owner failed'),
                log.get('observer resumed', 'NEVER'), log.get('main done', 'NEVER'),
            )
        )


# V2 ##########################################################################
def v2():
    seen = []

    async def main():
        await (time == 2 ** 53 + 1)
        seen.append(time.now)
        await (time + 0.5)
        seen.append(time.now)

    run(main())
    if seen[1] < seen[0]:
        return "clock read %r, then after 'await (time + 0.5)' it read %r" % (
            seen[0], seen[1]
        )


# V3 ##########################################################################
def v3():
    period, work, start = 0.4, 0.1, -1
    ticks = []

    async def main():
        last = time.now
        async for now in interval(period):
            ticks.append((last, now))
            if len(ticks) == 6:
                break
            last = now
            await (time + work)

    run(main(), start=start)
    for last, now in ticks:
        if now != last + period:
            return 'interval(%r): tick after %r came at %r, not at %r' % (
                period, last, now, last + period
            )


def main():
    signal.alarm(20)
    status = 0
    for name, check in (('V1', v1), ('V1b', v1b), ('V2', v2), ('V3', v3)):
        problem = check()
        if problem:
            status = 1
            print('%s: C01 violated by the unchanged library: %s' % (name, problem))
        else:
            print('%s: not reproduced' % name)
    signal.alarm(0)
    return status


if __name__ == '__main__':
    sys.exit(main())
