"""
Baseline candidate 2 (unchanged tree): cancelling child A silently aborts the parent scope and an unrelated
sibling when another child B of the same scope is awaiting A.

Property clause: "Cancelling a child never aborts its parent scope or its siblings" (quantified over every
number and timing of awaiters - here the awaiter is a sibling task).
B receives TaskCancelled(A) from `await A` and does not handle it. The Task wrapper records this as a *failure*
of B (failed=True -> Scope.__cancel__), so the scope body is interrupted and all siblings are closed - but
TaskCancelled is in Scope.SUPPRESS_CONCURRENT, so nothing is raised: the scope just ends early, silently.
In addition B.status reports CANCELLED although nobody cancelled B.
"""
import sys
from usim import run, time, Scope, TaskState

log = []


async def a():
    await (time + 10)


async def b(task):
    await task   # unhandled TaskCancelled of *another* task


async def sibling():
    try:
        await (time + 20)
        log.append('sibling finished at t=%s' % time.now)
    except BaseException as err:
        log.append('sibling aborted by %s at t=%s' % (type(err).__name__, time.now))
        raise


async def main():
    raised = None
    try:
        async with Scope() as scope:
            task_a = scope.do(a())
            task_b = scope.do(b(task_a))
            task_s = scope.do(sibling())
            await (time + 1)
            task_a.cancel()
            await (time + 30)
            log.append('scope body finished at t=%s' % time.now)
    except BaseException as err:
        raised = err
    log.append('scope left at t=%s, raised=%r' % (time.now, raised))
    log.append('status a=%s b=%s sibling=%s' % (task_a.status, task_b.status, task_s.status))
    return task_s


run(main(), till=1000)
for line in log:
    print(line)
ok = any(line.startswith('sibling finished') for line in log) \
    and any(line.startswith('scope body finished') for line in log)
print('expected: cancelling A leaves the scope body and the unrelated sibling running '
      '(or at least the abort is reported as an exception of B)')
print('observed: %s' % ('scope and sibling unaffected' if ok else
                        'scope body interrupted and sibling closed at t=1, no exception raised'))
sys.exit(0 if ok else 1)
