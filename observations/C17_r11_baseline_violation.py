"""
Baseline violation of C17 on the UNCHANGED library:
a real ``except`` clause does not agree with ``isinstance`` / ``issubclass``.

exit status 1 if the violation shows, 0 if not
"""
import signal
import sys

signal.alarm(20)

import usim  # noqa: E402
from usim import Concurrent, Scope, run, time  # noqa: E402

print('usim from', usim.__file__, 'on Python', sys.version.split()[0])


def caught_by(handler, failure) -> bool:
    """Whether a real ``except handler:`` clause selects ``failure``"""
    try:
        raise failure
    except handler:
        return True
    except BaseException:
        return False


problems = []
cases = [
    # identical specialisation and the bare class: these do agree
    (Concurrent, (KeyError,)),
    (Concurrent[KeyError], (KeyError,)),
    (Concurrent[KeyError, IndexError], (IndexError, KeyError)),
    # subclasses count
    (Concurrent[LookupError], (KeyError,)),
    (Concurrent[LookupError], (KeyError, IndexError)),
    (Concurrent[Exception], (ValueError,)),
    # trailing ``...``
    (Concurrent[KeyError, ...], (KeyError,)),
    (Concurrent[KeyError, ...], (KeyError, IndexError)),
    (Concurrent[KeyError, IndexError, ...], (KeyError, IndexError, ValueError)),
    # nested
    (Concurrent[Concurrent[LookupError]], (lambda: Concurrent(KeyError()),)),
]
for handler, child_types in cases:
    failure = Concurrent(*(make() for make in child_types))
    by_instance = isinstance(failure, handler)
    by_subclass = issubclass(type(failure), handler)
    by_except = caught_by(handler, failure)
    verdict = 'ok' if by_instance == by_subclass == by_except else 'DISAGREE'
    print(
        f'{verdict:8} {failure!r} vs {handler!r}: isinstance {by_instance}, '
        f'issubclass {by_subclass}, except {by_except}'
    )
    if verdict != 'ok':
        problems.append((handler, failure))


# the example of the ``Concurrent`` docstring, without the randomness
async def async_raise(exc):
    await (time + 1)
    raise exc


handled = []


async def docstring_example():
    try:
        async with Scope() as scope:
            scope.do(async_raise(KeyError('concurrent')))
            scope.do(async_raise(ValueError('concurrent')))
    except Concurrent[KeyError]:
        handled.append('Failed only key lookup')
    except Concurrent[KeyError, IndexError]:
        handled.append('Failed key lookup and indexing')
    except Concurrent[KeyError, ...]:
        handled.append('Failed key lookup and something else')

try:
    run(docstring_example())
except BaseException as err:
    print(f'docstring example: nothing handled {err!r}, it escaped from run()')
    problems.append(('docstring', err))
else:
    print('docstring example:', handled)

if problems:
    print(f'{len(problems)} cases in which `except` disagrees with isinstance/issubclass')
    sys.exit(1)
sys.exit(0)
