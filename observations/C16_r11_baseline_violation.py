"""
Violations of C16 by the UNCHANGED library (see baseline_violation.txt).

exit 1 if at least one violation shows, exit 0 otherwise
"""
import signal
import sys

import usim
from usim import run, time, first, collect, until, Scope, Concurrent

signal.alarm(20)  # never hang


async def loser(log, steps=30):
    """Bounded activity that logs every sign of life"""
    try:
        for _ in range(steps):
            await (time + 1)
            log.append((time.now, 'tick'))
    finally:
        log.append((time.now, 'left'))


async def after(delay, value):
    await (time + delay)
    return value


async def fail_after(delay):
    await (time + delay)
    raise KeyError(delay)


async def slow_consumer(log):
    """Keeps the iterator in a variable and works 10 time units on every result"""
    results = first(loser(log), after(1, 'winner'), count=2)
    async for _ in results:
        await (time + 10)


# V1: the caller is interrupted by ``until`` while it works on a result
async def v1(log, marks):
    async with until(time + 3):
        await slow_consumer(log)
    marks['back'] = time.now  # first() is abandoned from here on
    await (time + 5)
    marks['end'] = time.now


# V1b: the caller is interrupted by the failure of a sibling in an enclosing scope
async def v1b(log, marks):
    async def body():
        async with Scope() as scope:
            scope.do(fail_after(3))
            await slow_consumer(log)
    try:
        await body()
    except Concurrent:
        pass
    marks['back'] = time.now
    await (time + 5)
    marks['end'] = time.now


# V2: count=1, the consumer needs 4 time units to handle the one and only result
async def v2(log, marks):
    async for _ in first(loser(log), after(1, 'winner'), count=1):
        marks['back'] = time.now  # the k-th result has been delivered: first() "stops"
        await (time + 4)
    marks['end'] = time.now
    await (time + 5)


def check_silence(name, scenario):
    log, marks = [], {}
    run(scenario(log, marks))
    late = [entry for entry in log if entry[0] > marks['back']]
    if late:
        print('VIOLATION %s: caller left first() at time %s, but the loser went on: '
              '%d ticks up to time %s (scenario ended at %s)' % (
                  name, marks['back'], sum(1 for e in late if e[1] == 'tick'),
                  late[-1][0], marks['end']))
        return 1
    print('ok        %s' % name)
    return 0


# V3: collect() with a failure of a type that Scope suppresses
def check_collect_failure():
    outcome = []

    async def awaits(task):
        return await task

    async def scenario():
        async with Scope() as scope:
            cancelled = scope.do(after(100, 'never'))
            await (time + 1)
            cancelled.cancel()
            try:
                await collect(after(5, 'sibling'), awaits(cancelled))
            except BaseException as err:
                outcome.append((time.now, type(err).__name__, str(err)[:40]))
            else:
                outcome.append((time.now, 'no failure'))
    run(scenario())
    if outcome[0][1] != 'TaskCancelled' and outcome[0][1] != 'Concurrent':
        print('VIOLATION V3: an activity of collect() failed with TaskCancelled, '
              'but collect() raised %r' % (outcome[0],))
        return 1
    print('ok        V3')
    return 0


def main():
    print('usim from', usim.__file__)
    found = 0
    found += check_silence('V1 (until interrupts a slow consumer)', v1)
    found += check_silence('V1b (scope failure interrupts a slow consumer)', v1b)
    found += check_silence('V2 (slow consumer of the last result)', v2)
    found += check_collect_failure()
    return 1 if found else 0


if __name__ == '__main__':
    sys.exit(main())
