"""
C12 on the UNCHANGED library: valid programs for which resources are not conserved.

 1. float amounts: ``level - x + x`` is not ``level``. One single borrower of
    0.2 from ``Capacities(a=0.9)`` leaves 0.8999999999999999 behind: a part of the
    supply is leaked for good, borrowing the whole capacity never succeeds again.
    With 0.3 the level ends *above* the capacity (0.9000000000000001).
 2. a borrowed share (``async with supply.borrow(...) as share``) that is used by an
    activity which outlives the block (TODO in ``BorrowedResources.__aexit__``):
    the share's level drops below zero, the supply is refilled completely although
    part of the share is still held, so more than the supply is in use at once.
 3. ``Resources(a=inf)``: borrowing ``inf`` turns the level into ``nan`` for good,
    afterwards no amount at all is ever available again.
 4. a supply that is used in two consecutive simulations: blocks that are unwound
    when the first simulation ends (here: by a failure of the root activity) never
    return what they borrowed - the give-back is only *scheduled* and never runs.

Exit status 1 if any of these shows.
"""
import math
import signal
import sys
import warnings

from usim import run, time, Scope, Capacities, Resources, until

signal.alarm(15)
warnings.simplefilter('ignore', RuntimeWarning)
problems = []


async def float_leak():
    for amount in (0.2, 0.3):
        supply = Capacities(a=0.9)
        async with supply.borrow(a=amount):
            await (time + 1)
        await (time + 1)
        level = supply.levels.a
        if level != 0.9:
            problems.append(
                f'1. Capacities(a=0.9) after one borrow(a={amount}) was returned:'
                f' level {level!r} != 0.9 at quiescence'
            )
        got_all = False
        async with until(time + 10):
            async with supply.borrow(a=0.9):
                got_all = True
        if not got_all:
            problems.append(
                f'1. Capacities(a=0.9) after one borrow(a={amount}) was returned:'
                f' the whole capacity cannot be borrowed anymore (waited 10)'
            )


async def outlived_share():
    supply = Resources(a=10)
    in_use = {'nested': 0, 'other': 0}

    async def nested(share):
        async with share.borrow(a=3):
            in_use['nested'] = 3
            await (time + 10)
            in_use['nested'] = 0

    async def other():
        await (time + 6)
        async with until(time + 1):
            async with supply.borrow(a=10):
                in_use['other'] = 10
                if sum(in_use.values()) > 10:
                    problems.append(
                        f'2. {sum(in_use.values())} units of Resources(a=10) are in use'
                        f' at once at time {time.now}: {in_use}'
                    )
                await (time + 1)
        in_use['other'] = 0

    async with Scope() as outer:
        async with supply.borrow(a=5) as share:
            outer.do(nested(share))
            outer.do(other())
            await (time + 5)
        # the block is left, ``nested`` still holds 3 of its share
        if share.levels.a < 0:
            problems.append(
                f'2. level of the borrowed share dropped below zero: {share.levels}'
            )
        if supply.levels.a != 10 - in_use['nested']:
            problems.append(
                f'2. supply level {supply.levels.a} although {in_use["nested"]}'
                f' of 10 are still held'
            )


async def infinite():
    supply = Resources(a=math.inf)
    async with supply.borrow(a=math.inf):
        await (time + 1)
    await (time + 1)
    if not supply.levels.a >= 0:
        problems.append(f'3. Resources(a=inf) after borrow(a=inf): level {supply.levels.a}')
    got = False
    async with until(time + 10):
        async with supply.borrow(a=1):
            got = True
    if not got:
        problems.append('3. Resources(a=inf) after borrow(a=inf): borrow(a=1) never succeeds')


def two_simulations():
    supply = Capacities(a=1)

    async def holder():
        async with supply.borrow(a=1):
            await (time + 100)

    async def failing_root():
        async with Scope() as scope:
            scope.do(holder())
            await (time + 1)
            raise KeyError('the simulation fails')

    try:
        run(failing_root())
    except KeyError:
        pass
    # the simulation is over, all its activities are unwound
    if supply.levels.a != 1:
        problems.append(
            f'4. after the end of the simulation: level {supply.levels.a} != 1'
        )
    got = []

    async def second():
        async with supply.borrow(a=1):
            got.append(time.now)

    run(second(), till=10)
    if not got:
        problems.append('4. the supply cannot be borrowed in the next simulation')


run(float_leak())
run(outlived_share())
run(infinite())
two_simulations()
if problems:
    print('C12 violated by the unchanged library:')
    for problem in problems:
        print(' -', problem)
    sys.exit(1)
print('ok')
sys.exit(0)
