"""
Baseline (unchanged tree): a task that nobody cancelled reports status CANCELLED, and
this "cancelled" child aborts its parent scope and its sibling - silently.

`relay` awaits another task `a` (child of an *outer* scope).  `a` is cancelled, so
`await a` raises TaskCancelled(a) inside relay, which lets it propagate: relay's task `b`
ends by an unhandled exception.  Nobody ever called b.cancel().
"""
import signal
import sys
from usim import run, time, Scope, TaskCancelled, TaskState

signal.signal(signal.SIGALRM, lambda *a: (print("hang"), sys.exit(1)))
signal.alarm(30)
out = {}


async def sleeper():
    await (time + 100)


async def relay(other):
    await other   # fails with the TaskCancelled of *other*


async def main():
    async with Scope() as scope:
        a = scope.do(sleeper())
        try:
            async with Scope() as inner:
                b = inner.do(relay(a))
                sib = inner.do(sleeper())
                await (time + 1)
                a.cancel('x')
                await (time + 1)
                out['inner body reached its end'] = True
        except BaseException as err:  # noqa: B902
            out['inner raised'] = repr(err)
        out['inner left at'] = time.now
        out['b'] = b.status
        out['sib'] = sib.status
        try:
            await b
        except TaskCancelled as err:
            out['b outcome subject is b'] = err.subject is b


try:
    run(main(), till=500)
except BaseException as err:  # noqa: B902
    print("run raised", repr(err))
    sys.exit(1)
print(out)
bad = []
if out.get('b') == TaskState.CANCELLED:
    bad.append("b was never cancelled (it failed with a foreign exception) but reports "
               "status CANCELLED; its awaiters get TaskCancelled whose subject is not b")
if not out.get('inner body reached its end') and 'inner raised' not in out:
    bad.append("the scope of b was aborted at %s (body interrupted, sibling %s) and then "
               "ended silently: a child with status CANCELLED aborted its parent scope "
               "and its sibling" % (out.get('inner left at'), out.get('sib')))
for line in bad:
    print("VIOLATION:", line)
sys.exit(1 if bad else 0)
