"""
Baseline finding 2 (unchanged tree): with ``till=...``, run() does not report a root
activity's unreceived return value as an error - the value is silently dropped.

C15: run() "... reports a root activity's unreceived return value as an error".
Without ``till`` an ActivityLeak is raised; with ``till`` (reached or not) the root
activities become tasks of an internal scope and their result is never looked at.
"""
import sys

from usim import run, time


async def returning(value):
    await (time + 1)
    return value


def outcome(**kwargs):
    try:
        run(returning(1138), **kwargs)
    except BaseException as err:
        return err
    return None


def main():
    violated = False
    for kwargs in ({}, {'till': 10}):
        received = outcome(**kwargs)
        reported = received is not None and getattr(received, 'result', None) == 1138
        print('run(returning(1138), %s): expected an error reporting 1138, observed %r -> %s' % (
            ', '.join('%s=%r' % item for item in kwargs.items()), received,
            'ok' if reported else 'VIOLATION'
        ))
        violated |= not reported
    return 1 if violated else 0


if __name__ == '__main__':
    sys.exit(main())
