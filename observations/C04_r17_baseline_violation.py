"""Baseline (unchanged tree): in a deep tree of nested scopes the tasks below about
200 levels survive the exit of the outermost scope and run code afterwards."""
import sys, signal
signal.signal(signal.SIGALRM, lambda *a: (print("TIMEOUT"), sys.exit(1)))
signal.alarm(60)
from usim import run, Scope, time

DEPTH = 400
seen = {}


async def nest(depth, unwound, late):
    try:
        async with Scope() as s:
            if depth:
                s.do(nest(depth - 1, unwound, late))
            await (time + 10)
            late.append((depth, time.now))   # code of a task in the tree
    finally:
        unwound.append(depth)


async def main():
    unwound, late = [], []
    try:
        async with Scope() as s:
            s.do(nest(DEPTH, unwound, late))
            await (time + 1)
            raise KeyError('abort the tree')
    except BaseException as err:
        seen['exit'] = (type(err).__name__, time.now)
    seen['unwound_at_exit'] = len(unwound)
    await (time + 50)
    seen['late'] = list(late)
    seen['unwound_later'] = len(unwound)


try:
    run(main(), till=1000)
    print("outer scope left by", seen.get('exit'), "- tasks of the tree unwound by then:",
          seen.get('unwound_at_exit'), "of", DEPTH + 1)
    print("tasks of the tree that ran code after the scope was left:",
          len(seen.get('late', ())), seen.get('late', ())[:3])
    if seen.get('unwound_at_exit') != DEPTH + 1 or seen.get('late'):
        print("VIOLATION: tasks started in the scope were not done when control left it"
              " (and went on running afterwards)")
        sys.exit(1)
    sys.exit(0)
except SystemExit:
    raise
except BaseException as err:
    print("unexpected", repr(err))
    sys.exit(1)
