"""
C12 on the UNCHANGED tree: four programs for which the statement does not hold.
Exits 1 if any of the violations shows, 0 if none does.
"""
import signal
import sys
import warnings


def _timeout(*_):
    print('FAIL: timeout')
    sys.exit(1)


signal.signal(signal.SIGALRM, _timeout)
signal.alarm(60)
warnings.simplefilter('ignore', RuntimeWarning)  # "coroutine ... was never awaited" in (C)

try:
    from usim import run, time, instant, eternity, first, Scope, Capacities, Resources,\
        Flag, until

    violations = []

    # (A) level of a borrowed share drops below zero -----------------------------------
    # A block borrows 5, a *volatile* task of a nested scope borrows 3 of that share.
    # Everything is left normally. (Same with the losers of first(), or when the block
    # is left by an exception/cancellation while children of a nested scope hold parts.)
    async def case_a():
        supply = Capacities(a=10)
        samples = []
        shares = []

        async def helper(share):
            async with share.borrow(a=3):
                await eternity

        async def poll():  # look at the levels between the activations of one time step
            for _ in range(30):
                samples.append((shares[0].levels.a, supply.levels.a))
                await instant

        async with Scope() as outer:
            outer.do(poll(), after=1)
            async with supply.borrow(a=5) as share:
                shares.append(share)
                async with Scope() as scope:
                    scope.do(helper(share), volatile=True)
                    await (time + 1)
        lowest = min(level for level, _ in samples)
        print('(A) levels (share, supply) seen during the time step of leaving:',
              sorted(set(samples)))
        if lowest < 0:
            violations.append(
                '(A) the level of the borrowed share dropped to %s < 0' % lowest)

    run(case_a(), till=100)

    # (B) nested borrowing exceeds the share / supply is over-committed -----------------
    # The part of a share held by a task that outlives the borrow block stays in use
    # while the block hands the complete share back to the supply.
    async def case_b():
        supply = Capacities(a=10)
        state = {}

        async def kid(share):
            async with share.borrow(a=3):
                state['kid holds'] = True
                await (time + 10)
            state['kid holds'] = False

        async with Scope() as scope:
            async with supply.borrow(a=5) as share:
                scope.do(kid(share))
                await (time + 1)
            state['share'] = share.levels.a
            state['supply'] = supply.levels.a
            try:
                async with supply.claim(a=10):
                    state['claim'] = state['kid holds']
            except BaseException:
                state['claim'] = None
        print('(B) after the block: share level %(share)s, supply level %(supply)s, '
              'claim of all 10 granted while 3 are still held: %(claim)s' % state)
        if state['share'] < 0 or state['claim']:
            violations.append(
                '(B) share level %(share)s < 0 and 10 of 10 claimed while a nested '
                'borrower still held 3 (held 13 > supply 10)' % state)

    run(case_b(), till=100)

    # (C) forceful close at the end of a simulation never returns -----------------------
    # run() unwinds activities that are still suspended when the simulation is over;
    # the hand-back of their borrow blocks is dispatched to a loop that has stopped.
    supply_c = Capacities(a=10)

    async def case_c_holder():
        async with supply_c.borrow(a=4):
            await Flag()  # never set: the simulation runs out of events

    run(case_c_holder())
    left = supply_c.levels.a
    got = []

    async def case_c_again():
        async with until(time == 5):
            async with supply_c.borrow(a=10):
                got.append(time.now)

    run(case_c_again())
    print('(C) level after the simulation ended and its holder was unwound: %s of 10; '
          'borrow(a=10) in the next simulation granted: %s' % (left, bool(got)))
    if left != 10 or not got:
        violations.append(
            '(C) block left by forceful close at the end of run(): 4 of 10 never '
            'returned (level %s)' % left)

    # (D) level at quiescence differs from the supply for float amounts ------------------
    async def case_d():
        supply = Resources(a=1.0)

        async def job(amount, duration):
            async with supply.borrow(a=amount):
                await (time + duration)

        async with Scope() as scope:
            scope.do(job(0.1, 3))
            scope.do(job(0.2, 2))
            scope.do(job(0.3, 1))
        print('(D) supply 1.0, borrowed 0.1 0.2 0.3, returned in reverse order: level',
              repr(supply.levels.a))
        if supply.levels.a != 1.0:
            violations.append(
                '(D) level at quiescence is %r, not the supply 1.0' % supply.levels.a)
            try:
                async with supply.claim(a=1.0):
                    pass
            except BaseException as err:
                print('    claim(a=1.0) at quiescence:', type(err).__name__)

    run(case_d(), till=100)

    if violations:
        print('VIOLATIONS of C12 by the unchanged tree:')
        for line in violations:
            print('  ' + line)
        sys.exit(1)
    print('no violation observed')
    sys.exit(0)
except SystemExit:
    raise
except BaseException as err:  # noqa
    print('FAIL: unexpected %r' % (err,))
    sys.exit(1)
