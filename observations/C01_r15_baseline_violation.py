"""
Baseline (UNCHANGED tree) candidate violation of C01: a date condition object that is
used by an outer simulation *and* by a simulation nested in it (``usim.run`` called
from an activity) makes the nested event loop resume the activities of the outer
simulation.

An activity of the outer simulation waits for ``time >= 10``.  At outer time 3 another
activity runs a nested simulation (own clock, starts at 0) in which the same condition
object is awaited.  Expected: the outer waiter resumes when the clock of *its*
simulation reads 10 - after the nested simulation is long over (outer time 3) and
after the nesting activity went on at 4.  The clock readings taken by the activities of
the outer simulation must never decrease.
"""
import signal
import sys


def _hang(*_):
    print("VIOLATION: did not finish within 30s of wall-clock time")
    sys.exit(1)


signal.signal(signal.SIGALRM, _hang)
signal.alarm(30)

try:
    from usim import run, time, Scope

    events = []  # (who, clock reading) in the order of execution

    async def inner(deadline):
        await deadline

    async def waiter(deadline):
        await deadline
        events.append(('outer waiter: resumed from `time >= 10`', time.now))
        await (time + 5)
        events.append(('outer waiter: resumed from `time + 5`', time.now))

    async def nester(deadline):
        await (time + 3)
        events.append(('outer nester: before nested run', time.now))
        run(inner(deadline))  # a nested simulation, starting at its own time 0
        events.append(('outer nester: after nested run', time.now))
        await (time + 1)
        events.append(('outer nester: resumed from `time + 1`', time.now))

    async def main():
        deadline = time >= 10
        async with Scope() as scope:
            scope.do(waiter(deadline))
            scope.do(nester(deadline))

    run(main(), till=100)

    for event in events:
        print("  %-45s clock reads %s" % event)
    failures = []
    readings = [reading for _, reading in events]
    if any(later < earlier for earlier, later in zip(readings, readings[1:])):
        failures.append(
            "the clock readings of the activities of ONE simulation decrease: %s" % readings
        )
    names = [name for name, _ in events]
    resumed = 'outer waiter: resumed from `time >= 10`'
    if resumed not in names:
        failures.append("the outer waiter never resumed")
    elif names.index(resumed) < names.index('outer nester: after nested run'):
        failures.append(
            "the outer waiter was resumed from `time >= 10` while the nested run() was "
            "still going on, i.e. while the clock of its own simulation read 3"
        )
    if failures:
        print("VIOLATION of C01 by the unchanged tree:")
        for failure in failures:
            print("  -", failure)
        sys.exit(1)
    print("OK")
    sys.exit(0)
except SystemExit:
    raise
except BaseException as err:  # noqa: B902
    print("VIOLATION: unexpected failure %r" % (err,))
    sys.exit(1)
