"""Baseline probe for C20 on the UNCHANGED tree: operations that complete at once by *failing*
(or by leaving a scope with an exception) do not let the other runnable activities run.

Each probe runs an operation K times in a row, in a state in which it completes without
waiting, while a bystander is runnable in the same time step, and counts the repetitions
during which the bystander did not get a turn. Exit status 1 if any probe shows a stall.
"""
import sys
import signal

signal.signal(signal.SIGALRM, lambda *a: (print('TIMEOUT: hang'), sys.exit(1)))
signal.alarm(30)

from usim import run, Scope, time, Queue, Channel, Resources, Lock, instant, Flag, until
from usim import StreamClosed, ResourcesUnavailable

K = 20
report = {}


async def main():
    ticks = [0]
    stop = [False]

    async def bystander():
        while not stop[0] and ticks[0] < 100000:
            ticks[0] += 1
            await instant

    async def probe(name, operation):
        stalls = 0
        for _ in range(K):
            before = ticks[0]
            await operation()
            if ticks[0] == before:
                stalls += 1
        report[name] = stalls

    queue, channel = Queue(), Channel()
    resources = Resources(cores=1)
    lock = Lock()
    flag = Flag()

    async def get_closed_queue():
        try:
            await queue
        except StreamClosed:
            pass

    async def put_closed_queue():
        try:
            await queue.put(1)
        except StreamClosed:
            pass

    async def get_closed_channel():
        try:
            await channel
        except StreamClosed:
            pass

    async def put_closed_channel():
        try:
            await channel.put(1)
        except StreamClosed:
            pass

    async def claim_unavailable():
        try:
            async with resources.claim(cores=2):
                pass
        except ResourcesUnavailable:
            pass

    async def leave_scope_by_exception():
        try:
            async with Scope():
                raise KeyError
        except KeyError:
            pass

    async def leave_until_by_exception():
        try:
            async with until(flag):
                raise KeyError
        except KeyError:
            pass

    async def lock_block():
        async with lock:
            pass

    async with Scope() as scope:
        scope.do(bystander())
        await queue.close()
        await channel.close()
        await probe('await queue (closed, empty) -> StreamClosed', get_closed_queue)
        await probe('queue.put (closed) -> StreamClosed', put_closed_queue)
        await probe('await channel (closed) -> StreamClosed', get_closed_channel)
        await probe('channel.put (closed) -> StreamClosed', put_closed_channel)
        await probe('resources.claim (unavailable) -> ResourcesUnavailable', claim_unavailable)
        await probe('leaving Scope block by an exception of the body', leave_scope_by_exception)
        await probe('leaving until block by an exception of the body', leave_until_by_exception)
        await probe('acquire + release of a free Lock (not named in C20)', lock_block)
        stop[0] = True

try:
    run(main(), till=100)
    bad = False
    for name, stalls in report.items():
        print('%-62s repetitions without a turn for the bystander: %d/%d' % (name, stalls, K))
        if stalls and 'Lock' not in name:
            bad = True
    if bad:
        print('VIOLATION of the letter of C20: these operations complete (by raising) in a'
              ' state in which they need not wait, without yielding - a loop of them starves'
              ' every other activity and keeps the clock from advancing')
        sys.exit(1)
    sys.exit(0)
except SystemExit:
    raise
except BaseException as err:
    print('unexpected failure: %r' % (err,))
    sys.exit(1)
