"""
Baseline finding for C13 (UNCHANGED library): the sum of all active limits overflows.

Two transfers with the (finite, positive, hence valid) limit 1e308 share a Pipe(1).
By the fluid model each runs at 1e308 * 1 / 2e308 = 0.5, so 1 unit each ends at time 2.
In the library ``sum(limits)`` is ``inf``, the common scale becomes ``1 / inf == 0.0``,
every window throughput is 0.0 and ``transfer`` dies with ZeroDivisionError.
The same happens by underflow for limits 1e-200 and 1e200 in a Pipe(1): the scale is
1e-200, the rate of the small transfer 1e-400 == 0.0.
"""
import signal
import sys

import usim
from usim import Pipe, Scope, time, run

signal.alarm(15)
violations = []


def attempt(name, limits, expected_ends):
    ends = {}

    async def one(pipe, index, limit):
        await pipe.transfer(total=1, throughput=limit)
        ends[index] = time.now

    async def main():
        pipe = Pipe(throughput=1)
        async with Scope() as scope:
            for index, limit in enumerate(limits):
                scope.do(one(pipe, index, limit))

    try:
        run(main())
    except BaseException as err:  # usim wraps the failure into Concurrent
        print('%s: limits %r: transfer failed with %r' % (name, limits, err))
        violations.append(name)
        return
    for index, expected in expected_ends.items():
        got = ends.get(index)
        if got is None or abs(got - expected) > 1e-9 * expected:
            print('%s: transfer %d ended at %r, expected %r' % (name, index, got, expected))
            violations.append(name)
    print('%s: limits %r: ends %r' % (name, limits, ends))


def main():
    assert usim.__file__.startswith('/tmp/s6_C13/'), usim.__file__
    # both run at 0.5
    attempt('overflow', [1e308, 1e308], {0: 2.0, 1: 2.0})
    # the big one gets (all but 1e-400 of) the pipe and ends at 1; the small one needs
    # another 1e200 time units afterwards, which we do not wait for
    attempt('underflow', [1e200, 1e-200], {0: 1.0})
    # control with an extreme, but harmless spread: ends at 1 and 1 + 1000
    attempt('control', [1e300, 1e-3], {0: 1.0, 1: 1001.0})
    if violations:
        print('VIOLATION in: %s' % ', '.join(violations))
        return 1
    return 0


if __name__ == '__main__':
    sys.exit(main())
