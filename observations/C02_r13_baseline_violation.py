"""
C02 violations of the UNCHANGED library (reproduced on the clean worktree)

Three independent checks; each replays one valid program under configurations that
must not matter and compares the event logs.

  1. awaiting a task that ended by an exception (failed / cancelled / closed):
     the frames of the awaiter that received the exception LAST stay referenced by
     the exception stored in the task; they are released by the cyclic garbage
     collector only. What these frames own (here: a partly consumed async generator
     holding a usim Lock) is released at a time that depends on the collector.
  2. a Scope / until block entered inside an ``except`` block keeps the exception
     being handled forever (``Scope._handled_on_entry``); scope, exception, traceback
     and frame form a cycle, so the frames unwound by that exception are again only
     released by the collector.
  3. the class (name, ``specialisations``) of the Concurrent raised by a scope lists the
     exception types in the iteration order of a frozenset of classes, i.e. in
     memory-address order.

Regimes for 1 and 2:
    A  automatic garbage collection disabled during the run
    B  automatic collection on, an unrelated activity allocates junk
    C  an unrelated activity calls gc.collect() in every time step

exit status 1 if any violation shows, else 0.
"""
import gc
import signal
import sys

from usim import run, time, Scope, Lock, Concurrent, TaskCancelled

signal.alarm(20)  # never hang


def now():
    try:
        return time.now
    except RuntimeError:  # finalised after the simulation has ended
        return 'after the run'


def replay(program, regime):
    """Run ``program(note)`` plus an unrelated bystander under a memory regime"""
    log = []

    def note(*what):
        log.append((now(),) + what)

    async def bystander():
        for _ in range(12):
            await (time + 1)
            if regime == 'B':
                junk = [[i] for i in range(20000)]
                for item in junk:
                    item.append(junk)
                del junk, item
            elif regime == 'C':
                gc.collect()

    was_enabled = gc.isenabled()
    gc.collect()
    gc.disable() if regime == 'A' else gc.enable()
    try:
        run(program(note), bystander())
    finally:
        gc.enable() if was_enabled else gc.disable()
    # only what happens during the simulation is part of the trace
    return [entry for entry in log if entry[0] != 'after the run']


async def feed(lock):
    """Async iterator that holds ``lock`` for as long as it is alive"""
    async with lock:
        count = 0
        while True:
            count += 1
            yield count


async def successor(lock, name, note):
    async with lock:
        note(name, 'got the lock')


# 1 ----------------------------------------------------------------------------------
def awaited_failure(how):
    def program(note):
        async def job():
            await (time + 2)
            if how == 'failed':
                raise KeyError('job')
            await (time + 100)

        async def reader(task, lock, name):
            stream = feed(lock)  # partly consumed iterator in a local variable
            async for item in stream:
                if item == 2:
                    break
            try:
                await task
            except (KeyError, TaskCancelled):
                note(name, 'saw the job end')
            await (time + 1)
            note(name, 'ends')
            # Python finalises ``stream`` when this frame is released: lock is free

        async def run_job(scope, locks):
            try:
                async with Scope() as jobs:
                    task = jobs.do(job())
                    scope.do(reader(task, locks[0], 'reader-1'))
                    scope.do(reader(task, locks[1], 'reader-2'))
                    if how == 'cancelled':
                        await (time + 2)
                        task.cancel()
            except Concurrent:
                note('main', 'job failed')

        async def main():
            locks = Lock(), Lock()
            async with Scope() as scope:
                await run_job(scope, locks)
                await (time + 1)
                waiting = [
                    scope.do(successor(locks[0], 'successor-1', note)),
                    scope.do(successor(locks[1], 'successor-2', note)),
                ]
                await (time + 8)
                note('main', 'closes')
                # do not wait for a successor that never got its lock
                for task in waiting:
                    task.cancel()
        return main()
    return program


# 2 ----------------------------------------------------------------------------------
def scope_in_except(note):
    async def stage(lock):
        stream = feed(lock)
        async for item in stream:
            if item == 2:
                break
        await (time + 1)
        raise KeyError('stage')

    async def worker(lock, name, with_scope):
        try:
            await stage(lock)
        except KeyError:
            if with_scope:
                async with Scope() as scope:  # e.g. concurrent clean-up
                    scope.do(time + 1)
            else:
                await (time + 1)
        # the except block is over: Python drops the exception and the frames it had
        # unwound, ``stream`` of ``stage`` is finalised and releases the lock
        note(name, 'has handled the failure')

    async def main():
        locks = Lock(), Lock()
        async with Scope() as scope:
            scope.do(worker(locks[0], 'worker-1', with_scope=False))
            scope.do(worker(locks[1], 'worker-2', with_scope=True))
            await (time + 1)
            waiting = [
                scope.do(successor(locks[0], 'successor-1', note)),
                scope.do(successor(locks[1], 'successor-2', note)),
            ]
            await (time + 8)
            note('main', 'closes')
            # do not wait for a successor that never got its lock
            for task in waiting:
                task.cancel()
    return main()


def check_regimes(title, program):
    logs = {regime: replay(program, regime) for regime in 'ABC'}
    if len({tuple(log) for log in logs.values()}) == 1:
        print('ok   %s: same event log in all regimes' % title)
        return False
    print('FAIL %s: the event log depends on the garbage collector' % title)
    for regime, log in logs.items():
        print('   regime %s:' % regime)
        for entry in log:
            print('      ', entry)
    return True


# 3 ----------------------------------------------------------------------------------
def concurrent_names():
    seen = set()
    keep = []
    for attempt in range(40):
        # unrelated allocations shift the addresses of the classes defined next
        keep.append([bytearray(3000 + 17 * attempt) for _ in range(attempt % 5)])

        class ErrA(Exception):
            pass

        class ErrB(Exception):
            pass

        keep.append((ErrA, ErrB))

        async def fail(error):
            await (time + 1)
            raise error

        async def main(err_a=ErrA, err_b=ErrB):
            try:
                async with Scope() as scope:
                    scope.do(fail(err_a('a')))
                    scope.do(fail(err_b('b')))
            except Concurrent as failure:
                seen.add((
                    type(failure).__name__,
                    tuple(cls.__name__ for cls in type(failure).specialisations),
                    tuple(type(child).__name__ for child in failure.children),
                ))

        run(main())
    if len(seen) == 1:
        print('ok   Concurrent: same class name for the same program')
        return False
    print('FAIL Concurrent: class name / specialisations depend on memory addresses')
    for entry in sorted(seen):
        print('      ', entry)
    return True


def main():
    failed = False
    failed |= check_regimes('awaiting a failed task', awaited_failure('failed'))
    failed |= check_regimes('awaiting a cancelled task', awaited_failure('cancelled'))
    failed |= check_regimes('scope inside an except block', scope_in_except)
    failed |= concurrent_names()
    return 1 if failed else 0


if __name__ == '__main__':
    sys.exit(main())
