"""
Violations of property C15 by the UNCHANGED library (see baseline_violation.txt)

 1. nested    an activity of a finished nested simulation goes on running inside
              the enclosing simulation, on the enclosing clock
 2. swallowed run(..., till=) neither reports a root activity that fails with
              TaskCancelled nor goes on: it returns early and silently
 3. outranked run(..., till=) reports a later AssertionError instead of the first
              exception that escaped a root activity

exit status 1 if at least one of them shows, 0 if none does
"""
import signal
import sys
import warnings

import usim
from usim import run, time, eternity, Scope, Resources, TaskCancelled

signal.alarm(18)  # never hang
warnings.simplefilter('ignore', RuntimeWarning)


def nested():
    """a nested run() that ended keeps acting in the enclosing simulation"""
    log = []

    async def holder(resources):
        async with resources.borrow(cpu=1):
            await eternity  # never hands the cpu back

    async def waiter(resources):
        await (time + 1)
        async with resources.borrow(cpu=1):  # has to wait forever
            log.append(('inner waiter got the cpu at', time.now))
            await (time + 1)
            log.append(('inner waiter goes on at', time.now))

    async def outer():
        await (time + 100)
        resources = Resources(cpu=1)
        # the inner simulation starts at 0 and ends at quiescence at time 1:
        # the holder sleeps forever, the waiter waits for the holder
        run(holder(resources), waiter(resources))
        log.append(('outer: nested run() returned at', time.now))
        await (time + 5)
        log.append(('outer: done at', time.now))

    run(outer())
    expected = [('outer: nested run() returned at', 100), ('outer: done at', 105)]
    if log != expected:
        return 'enclosing simulation disturbed by an ended nested one:\n' \
               '      expected %r\n      got      %r' % (expected, log)


def swallowed():
    """a root activity failing with TaskCancelled under till"""
    def activities(log):
        async def victim():
            async with Scope() as scope:
                task = scope.do(time + 10)
                task.cancel()
                await task  # raises TaskCancelled

        async def other():
            for _ in range(5):
                await (time + 10)
                log.append(time.now)
        return victim(), other()

    def outcome(**options):
        log = []
        acts = activities(log)
        try:
            run(*acts, **options)
        except BaseException as err:
            result = type(err).__name__
        else:
            result = 'returned normally'
        for act in acts:
            act.close()
        return result, log

    plain, with_till = outcome(), outcome(till=100)
    if plain[0] != with_till[0]:
        return 'run(victim, other) %s, but run(victim, other, till=100) %s; ' \
               'with till, `other` made these steps before run() returned: %r ' \
               '(it could have gone on to 50, till is 100)' % (
                   'raised ' + plain[0], with_till[0], with_till[1])


def outranked():
    """an AssertionError raised later (same time step) than a KeyError"""
    def outcome(**options):
        raised = []

        async def failing(kind, at):
            await (time + at)
            raised.append(kind('failure %d' % len(raised)))
            raise raised[-1]

        acts = failing(KeyError, 5), failing(AssertionError, 5)
        try:
            run(*acts, **options)
        except BaseException as err:
            result = err
        for act in acts:
            act.close()
        return result, raised

    for options in ({}, {'till': 100}):
        reported, raised = outcome(**options)
        if reported is not raised[0]:
            return 'run(..., %r) reported %r, the first exception was %r' % (
                options, reported, raised[0])


def main():
    print('usim from', usim.__file__)
    status = 0
    for check in (nested, swallowed, outranked):
        problem = check()
        if problem:
            status = 1
            print('VIOLATION %-9s: %s' % (check.__name__, problem))
        else:
            print('ok        %-9s' % check.__name__)
    return status


if __name__ == '__main__':
    sys.exit(main())
