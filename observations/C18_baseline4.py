"""
Baseline finding 4 (unchanged tree, lower confidence / arguably by design):
a process that yields a native activity which fails with ``usim.Concurrent``
(i.e. a scope with a failing child) never gets that exception raised at its
yield; the whole environment dies with the Concurrent instead.

Property: "activities and processes can wait for each other's ... coroutines
with the same results" - an activity awaiting the same coroutine can catch
``Concurrent``. ``AwaitableEvent`` only translates ``Exception``, and
``Concurrent`` derives from ``BaseException``.
"""
import sys

from usim import Scope, time, Concurrent
from usim.py import Environment

env = Environment()
trace = []


async def failing_child():
    await (time + 1)
    raise KeyError('k')


async def activity():
    async with Scope() as scope:
        scope.do(failing_child())


def proc(env):
    try:
        yield activity()
    except Concurrent as err:
        trace.append(('caught', type(err).__name__, env.now))
    yield env.timeout(1)
    trace.append(('alive', env.now))


env.process(proc(env))
try:
    env.run(until=10)
except BaseException as err:  # noqa
    print('VIOLATION')
    print("   expected: process catches Concurrent[KeyError] at time 1 and lives on")
    print(f'   observed: run ended with {type(err).__name__}: {err}; trace={trace}')
    sys.exit(1)
if trace != [('caught', 'Concurrent[KeyError]', 1), ('alive', 2)]:
    print('VIOLATION: observed', trace)
    sys.exit(1)
print('no violation observed')
