"""
Baseline observation (unchanged tree): run(..., start=S, till=T) with S > T.

Property C07 ends with: "`run(..., till=T)` executes nothing at a virtual time
later than T".  run() implements `till` as `until(time == T)`; a moment that is
already in the past never fires, so with start > till the deadline is silently
ignored: every activity runs, all of it at virtual times later than T, and an
endless activity is never stopped.  (Degenerate input: start later than till.)
"""
import sys
from usim import run, time

seen = []


async def ticker():
    for _ in range(5):      # bounded, so that the program terminates
        seen.append(time.now)
        await (time + 1)


run(ticker(), start=10, till=5)
late = [t for t in seen if t > 5]
print('expected: nothing executed at a time later than till=5')
print('observed: activity steps at times', seen)
if late:
    print('VIOLATION: run(start=10, till=5) executed %d steps after till' % len(late))
    sys.exit(1)
print('no violation')
sys.exit(0)
