"""
Baseline observation (UNCHANGED library): a lock acquired inside an async
generator stays owned by an activity that has ended, as long as the generator
object is still referenced from somewhere else.

exit 1 when the violation shows, exit 0 otherwise
"""
import signal
import sys

from usim import run, time, Lock, Scope

signal.alarm(15)
log = []
state = {}


class Meter:
    """Some long-lived object that keeps the reading generator of its user"""
    def __init__(self, lock):
        self.lock = lock
        self.readings = None

    async def read(self):
        async with self.lock:  # exclusive access while reading
            while True:
                await (time + 1)
                yield time.now


async def user(meter: Meter):
    meter.readings = meter.read()
    async for now in meter.readings:
        log.append(('reading', now))
        await (time + 100)  # work on the reading; cancelled here


async def waiter(lock: Lock):
    async with lock:
        log.append(('waiter in', time.now))


async def main():
    lock = Lock()
    meter = Meter(lock)
    async with Scope() as scope:
        task = scope.do(user(meter))
        await (time + 2)
        waiting = scope.do(waiter(lock), volatile=True)
        await (time + 2)
        task.cancel()
        await task.done
        await (time + 10)
        state['user status'] = task.status
        state['available'] = lock.available
        state['waiter entered'] = ('waiter in', 4) in log
        state['lock'] = repr(lock)


run(main())
print(state)
print(log)
if not state['waiter entered'] or not state['available']:
    print('VIOLATION: the holder has ended by cancellation at time 4, yet the lock is '
          'still owned by it: the waiter never enters and the lock is not available')
    sys.exit(1)
sys.exit(0)
