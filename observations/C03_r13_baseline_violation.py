"""
Violations of C03 by the UNCHANGED library (clean tree).

Every scenario is a program that only makes valid, documented API calls.  For each
one the script reports how ``usim.run`` ended; it exits with status 1 if at least
one scenario ended with something the program never raised (an internal signal, an
internal assertion of the kernel, a coroutine-misuse error) or did not end at all.
"""
import signal
import sys
import warnings

from usim import run, time, Scope, until, eternity, Lock, Resources, delay
from usim.py import Environment
from usim._core.loop import Interrupt

warnings.simplefilter('ignore')


class Abort(BaseException):
    """A program-defined exception that is not derived from Exception"""


class CleanupFailed(Exception):
    """A program-defined failure of some clean-up code"""


def own(err) -> bool:
    """Whether ``err`` is (made up of) exceptions that the program raised itself"""
    children = getattr(err, 'children', None)
    if children is not None:
        return all(own(child) for child in children)
    return isinstance(err, (Abort, CleanupFailed, KeyError))


# 1. a child task fails with a BaseException that is not an Exception -------------
async def s1_child():
    await (time + 1)
    raise Abort('stop everything')


async def s1():
    async with Scope() as scope:
        scope.do(s1_child())
        await (time + 5)


# 2. clean-up code fails while its activity is closed, inside ``async with lock`` --
async def s2_holder(lock):
    async with lock:
        try:
            await eternity
        finally:
            raise CleanupFailed('cannot switch off the device')


async def s2():
    lock = Lock()
    async with Scope() as scope:
        scope.do(s2_holder(lock), volatile=True)
        await (time + 1)


# 3. the same inside ``async with resources.borrow(...)`` -------------------------
async def s3_holder(resources):
    async with resources.borrow(cores=1):
        try:
            await eternity
        finally:
            raise CleanupFailed('cannot switch off the device')


async def s3():
    resources = Resources(cores=2)
    async with Scope() as scope:
        scope.do(s3_holder(resources), volatile=True)
        await (time + 1)


# 4. an Environment whose start was interrupted is used afterwards ----------------
def s4_process(env):
    yield env.timeout(1)
    raise KeyError('process failed')


async def s4():
    env = Environment(initial_time=5)
    async with until(time + 1):
        async with env:  # waits for time == 5, interrupted at time == 1
            await eternity
    env.process(s4_process(env))
    await (time + 10)


# 5. a block that yields to its consumer from inside ``until`` --------------------
async def s5_ticks():
    async with until(time + 1):
        while True:
            yield time.now


async def s5():
    async for _ in s5_ticks():
        await (time + 5)


# 6. a ticker whose (positive) period is below the resolution of the clock --------
ticks = []


async def s6():
    async for now in delay(1):
        ticks.append(now)


# 7. (related, outside the letter of C03) an exception object recorded by one ------
#    activity and raised by another: the kernel clears the frames of the traceback
#    of a failed task - and thereby silently closes the (live) recording activity
errors = []
finished = []


async def s7_checker():
    try:
        raise KeyError('sensor 7 missing')
    except KeyError as err:
        errors.append(err)  # note the problem, keep on working
    await (time + 10)
    finished.append('checker')


async def s7_reporter():
    await (time + 1)
    raise errors[0]  # escalate the recorded problem


async def s7():
    async with Scope() as outer:
        outer.do(s7_checker())
        try:
            async with Scope() as inner:
                inner.do(s7_reporter())
        except BaseException as err:
            assert own(err), err
    finished.append('main')


def on_alarm(signum, frame):
    raise TimeoutError()


def scenario(title, activity, **kwargs):
    signal.alarm(4)
    try:
        run(activity, **kwargs)
    except TimeoutError:
        print('VIOLATION  %-48s did not end' % title, end='')
        if ticks:
            print(' (%d steps of the ticker, clock still at %r)'
                  % (len(ticks), ticks[-1]), end='')
        print()
        return False
    except BaseException as err:
        if own(err):
            print('ok         %-48s run() raised the program\'s own %r' % (title, err))
            return True
        kind = 'internal signal' if isinstance(err, Interrupt) else \
            'internal assertion' if isinstance(err, AssertionError) else 'internal error'
        print('VIOLATION  %-48s run() raised %s %r' % (title, kind, err))
        return False
    finally:
        signal.alarm(0)
    print('ok         %-48s run() ended normally' % title)
    return True


def main():
    signal.signal(signal.SIGALRM, on_alarm)
    results = [
        scenario('1 child fails with non-Exception BaseException', s1()),
        scenario('2 clean-up fails while closed, inside a Lock', s2()),
        scenario('3 clean-up fails while closed, inside borrow()', s3()),
        scenario('4 Environment used after an interrupted start', s4()),
        scenario('5 yield inside until() [borderline]', s5()),
        scenario('6 ticker period below clock resolution, till=', s6(),
                 start=2.0 ** 53, till=2.0 ** 53 + 64),
    ]
    scenario('7 recorded exception raised by another task', s7())
    if finished != ['checker', 'main']:
        print('RELATED    7: run() returned although only %r finished: the checker was '
              'closed by the kernel while waiting, main waits for it forever' % finished)
    return 0 if all(results) else 1


if __name__ == '__main__':
    sys.exit(main())
