"""
Baseline (unchanged tree): the StreamClosed error formats every buffered item.

StreamClosed.__init__ builds its message with '%r' % stream and Queue.__repr__ joins
repr(item) of all buffered items. Items are opaque payload, yet refusing a put on a
closed queue (or ending a stream) therefore depends on the items' __repr__:
an item whose repr fails (here: a request object whose repr shows the queue it
travels in, i.e. a reference cycle through Queue.__repr__, which has no recursion
guard) makes put() on the closed queue raise RecursionError instead of StreamClosed.
"""
import signal
import sys

signal.signal(signal.SIGALRM, lambda *_: (print("hung"), sys.exit(1)))
signal.alarm(30)

try:
    from usim import run, Queue, StreamClosed

    class Request:
        def __init__(self, payload, via):
            self.payload, self.via = payload, via

        def __repr__(self):
            return "Request(%r, via=%r)" % (self.payload, self.via)

    outcome = []

    async def main():
        queue = Queue()
        await queue.put(Request("a", via=queue))
        await queue.close()
        try:
            await queue.put(Request("b", via=queue))
        except StreamClosed:
            outcome.append("StreamClosed")
        except BaseException as err:  # noqa: B902
            outcome.append(type(err).__name__)

    run(main(), till=10)
    print("put on a closed queue holding a buffered item raised: %r" % outcome)
    if outcome != ["StreamClosed"]:
        print("VIOLATION: 'put on a closed queue raises StreamClosed' - it raised "
              "something else because the error message formats the buffered payload")
        sys.exit(1)
    sys.exit(0)
except SystemExit:
    raise
except BaseException as err:  # noqa: B902
    print("VIOLATION: unexpected %r" % (err,))
    sys.exit(1)
