"""
Baseline (unchanged tree) violation of C04: descendants of a closed task keep running
when they were started through ``usim.first`` and the iterator is still referenced.

``first(...)`` is an async generator that opens a ``Scope`` and runs every contestant
as a (volatile) child of it.  The scope belongs to the activity that iterates.  When
that activity is closed while it is suspended in the *body* of its ``async for``
(the generator itself is suspended at ``yield winner``), nothing closes the
generator: Python would only unwind it - and thereby leave its ``async with Scope()``
and close the contestants - when the generator object is collected.  Any other
reference to the iterator (here: a list, e.g. kept for later inspection; equally a
stored exception whose traceback leads to a frame holding it as a local) therefore
lets the contestants run on, although

* the activity that owns the scope inside ``first`` has been closed, and
* control has left the ``until`` block in which the consumer task - the ancestor of
  all of them - was started.

Exit status 1 when the violation shows, 0 otherwise.
"""
import signal
import sys


def _alarm(*_):
    print("ERROR: timed out")
    sys.exit(1)


signal.signal(signal.SIGALRM, _alarm)
signal.alarm(30)

try:
    from usim import run, until, time, eternity, first
except BaseException as err:  # noqa
    print("ERROR: cannot import usim: %r" % (err,))
    sys.exit(1)

left_at = []
late = []
kept = []


async def racer(name, steps):
    try:
        for _ in range(steps):
            await (time + 1)
            stamp = "t=%s racer %s: tick" % (time.now, name)
            if left_at:
                late.append(stamp)
                stamp += "   <-- AFTER the until block was left at t=%s" % left_at[0]
            print("  ", stamp)
        return name
    finally:
        print("   t=%s racer %s: finished/closed" % (time.now, name))


async def consumer():
    results = first(racer("a", 2), racer("b", 8), count=2)
    kept.append(results)  # any further reference to the iterator
    async for winner in results:
        print("   t=%s consumer: got winner %r, now busy with it" % (time.now, winner))
        await eternity


async def main():
    async with until(time == 3) as scope:
        task = scope.do(consumer())
    left_at.append(time.now)
    print("   t=%s control left the until block; consumer task done=%s"
          % (time.now, bool(task.done)))
    await (time + 10)


try:
    run(main(), till=100)
except BaseException as err:  # noqa
    print("ERROR: simulation failed: %r" % (err,))
    sys.exit(1)

if late:
    print("VIOLATION of C04 by the unchanged tree:")
    print(" the consumer task was started in 'async with until(time == 3)' and closed")
    print(" when that block was left at t=%s, yet its descendants (the contestants of" % left_at[0])
    print(" the first() it was iterating) ran %d more times afterwards:" % len(late))
    for stamp in late:
        print("   -", stamp)
    sys.exit(1)
print("OK: nothing ran after the block was left")
sys.exit(0)
