"""
C20 on the UNCHANGED library: operations that complete although an activity
that was runnable when they started did not get a turn.

Every finding is checked by its own small simulation; the program prints what it
observed and exits with status 1 if at least one violation shows (0 otherwise).
See baseline_violation.txt for the explanation.
"""
import signal
import sys

from usim import (
    run, Scope, until, instant, time, Flag, Lock, Queue, Channel, Resources,
    StreamClosed, ResourcesUnavailable, Concurrent,
)

signal.alarm(20)  # never hang

findings = []


def report(label, violated, detail):
    print('%-9s %s: %s' % ('VIOLATED' if violated else 'ok', label, detail))
    if violated:
        findings.append(label)


# ---------------------------------------------------------------------------
# 1. leaving a scope block whose interrupt is already queued
# ---------------------------------------------------------------------------
def finding_1a():
    """until-block: the notification fired while the body was postponed"""
    log = []

    async def setter(flag):
        log.append('setter sets the flag')
        await flag.set()  # queues the interrupt of the until-block, then postpones
        log.append('setter resumed')

    async def main():
        flag = Flag()
        async with Scope() as scope:
            scope.do(setter(flag))
            async with until(flag):
                await instant  # the setter runs now; we are resumed by our own wake-up
                log.append('body ends')  # the setter is queued = runnable
            log.append('block left')

    run(main())
    violated = log.index('block left') < log.index('setter resumed')
    report(
        '1a leaving an until-block (normal end of the body)', violated,
        ' -> '.join(log)
    )


def finding_1b():
    """plain Scope: a child failed while the body was postponed"""
    log = []

    async def late_starter(started):
        started.append(time.now)

    async def failing():
        raise KeyError('child failure')

    async def main():
        started = []
        async with Scope() as outer:
            try:
                async with Scope() as scope:
                    scope.do(failing())
                    await instant  # the child fails now and queues our interrupt
                    # another activity becomes runnable before the body ends
                    outer.do(late_starter(started))
                    log.append('body ends')
                log.append('block left normally')
            except Concurrent:
                log.append('block left by Concurrent, the runnable activity has %s' % (
                    'run' if started else 'NOT run'
                ))

    run(main())
    violated = any('NOT run' in entry for entry in log)
    report(
        '1b leaving a Scope whose child has failed', violated, ' -> '.join(log)
    )


# ---------------------------------------------------------------------------
# helpers for 2. - 4.: two spinners are runnable all the time
# ---------------------------------------------------------------------------
def with_spinners(operations):
    """Run ``operations(watch)`` next to two spinners, return the starved labels"""
    counts = [0, 0]
    starved = []

    async def spinner(idx):
        for _ in range(2000):
            counts[idx] += 1
            await instant

    class watch:
        def __init__(self, label):
            self.label = label

        def __enter__(self):
            self.before, self.then = list(counts), time.now

        def __exit__(self, exc_type, exc_val, exc_tb):
            if time.now == self.then and any(
                after <= before for after, before in zip(counts, self.before)
            ):
                starved.append(self.label)
            return False

    async def main():
        async with Scope() as scope:
            for idx in range(2):
                scope.do(spinner(idx), volatile=True)
            await instant
            await operations(watch)

    run(main())
    return starved


# ---------------------------------------------------------------------------
# 2. Lock: acquiring a free lock and releasing a lock never postpone
# ---------------------------------------------------------------------------
def finding_2():
    async def operations(watch):
        lock = Lock()
        with watch('async with lock (free lock, enter + exit)'):
            async with lock:
                pass
        with watch('100 x async with lock'):
            for _ in range(100):
                async with lock:
                    pass

    starved = with_spinners(operations)
    report(
        '2  Lock', bool(starved),
        'no turn for the runnable spinners during: %s' % starved if starved
        else 'spinners ran'
    )


# ---------------------------------------------------------------------------
# 3. refused operations complete (by their exception) without postponing
# ---------------------------------------------------------------------------
def finding_3():
    async def operations(watch):
        queue, channel = Queue(), Channel()
        await queue.close()
        await channel.close()
        resources = Resources(cores=1)
        with watch('await queue.put(1) on a closed Queue'):
            try:
                await queue.put(1)
            except StreamClosed:
                pass
        with watch('await queue on a closed, empty Queue'):
            try:
                await queue
            except StreamClosed:
                pass
        with watch('await channel.put(1) on a closed Channel'):
            try:
                await channel.put(1)
            except StreamClosed:
                pass
        with watch('await channel on a closed Channel'):
            try:
                await channel
            except StreamClosed:
                pass
        with watch('async with resources.claim(cores=2) (unavailable)'):
            try:
                async with resources.claim(cores=2):
                    pass
            except ResourcesUnavailable:
                pass
        # the natural polling loop: it neither lets anybody run nor time pass
        with watch('100 x "try to claim, else carry on"'):
            for _ in range(100):
                try:
                    async with resources.claim(cores=2):
                        pass
                except ResourcesUnavailable:
                    pass

    starved = with_spinners(operations)
    report(
        '3  refused operations', bool(starved),
        'no turn for the runnable spinners during: %s' % starved if starved
        else 'spinners ran'
    )


# ---------------------------------------------------------------------------
# 4. leaving a scope block by an exception of the body does not postpone
# ---------------------------------------------------------------------------
def finding_4():
    async def operations(watch):
        with watch('async with Scope(): raise KeyError'):
            try:
                async with Scope():
                    raise KeyError
            except KeyError:
                pass
        with watch('async with until(time + 10): raise KeyError'):
            try:
                async with until(time + 10):
                    raise KeyError
            except KeyError:
                pass

    starved = with_spinners(operations)
    report(
        '4  leaving a scope by an exception', bool(starved),
        'no turn for the runnable spinners during: %s' % starved if starved
        else 'spinners ran'
    )


if __name__ == '__main__':
    finding_1a()
    finding_1b()
    finding_2()
    finding_3()
    finding_4()
    if findings:
        print('\nC20 violated by the unchanged library: %d finding(s)' % len(findings))
        sys.exit(1)
    print('\nno violation observed')
    sys.exit(0)
