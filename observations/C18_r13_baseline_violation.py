"""
Violations of C18 by the UNCHANGED library (see baseline_violation.txt).

Every check is a small, deterministic program that uses documented API only.
Exit status 1 if at least one of the violations V1..V4 shows, else 0.
O5/O6 are reported as observations only (their reading of the property is
debatable), they do not influence the exit status.
"""
import signal
import sys

from usim import Scope, time, Concurrent
from usim.py import Environment, Interrupt

signal.alarm(20)
violations = []
observations = []


# ---------------------------------------------------------------------------
# V1: a process that HANDLED the failure of an event is silently terminated
#     when, later in the same time step, an activity dies of the failure of
#     another process that died of the same exception.
# ---------------------------------------------------------------------------
def v1():
    log = []

    def careful(env, event):
        """handles the failure, then goes on working for 10 more time units"""
        try:
            yield event
        except KeyError as err:
            log.append((env.now, 'careful handled', repr(err)))
        try:
            yield env.timeout(10)
            log.append((env.now, 'careful finished its work'))
            return 'careful result'
        finally:
            log.append((env.now, 'careful left its try block'))

    def careless(env, event):
        yield event  # dies of the failure
        return 'never'

    def trigger(env, event):
        yield env.timeout(1)
        event.fail(KeyError('boom'))

    async def waiter(process):
        await process  # dies of the failure of ``careless``

    async def guarded(process):
        try:
            async with Scope() as scope:
                scope.do(waiter(process))
        except Concurrent as err:
            return 'handled %s' % type(err).__name__

    def supervisor(env, process):
        result = yield guarded(process)
        log.append((env.now, 'supervisor', result))

    env = Environment()
    event = env.event()
    first = env.process(careful(env, event))
    second = env.process(careless(env, event))
    env.process(supervisor(env, second))
    env.process(trigger(env, event))
    env.run()
    expected = [
        (1, 'careful handled', "KeyError('boom')"),
        (1, 'supervisor', 'handled Concurrent[KeyError]'),
        (11, 'careful finished its work'),
        (11, 'careful left its try block'),
    ]
    if first.value != 'careful result' or sorted(log) != sorted(expected):
        return (
            'the process that handled the failure was closed behind its back: '
            'value=%r (expected %r), history=%r'
            % (first.value, 'careful result', log)
        )


# ---------------------------------------------------------------------------
# V2: a process cannot handle the failure of a yielded activity when that
#     failure is a ``Concurrent`` (what every failing ``Scope`` raises): it is
#     not thrown into the generator but kills the whole environment. An
#     activity that awaits the same coroutine can handle it.
# ---------------------------------------------------------------------------
def v2():
    async def failing_child():
        await (time + 1)
        raise KeyError('child')

    async def activity():
        async with Scope() as scope:
            scope.do(failing_child())

    log = []

    def process(env):
        try:
            yield activity()
        except Concurrent as err:
            log.append((env.now, 'handled', type(err).__name__))
        yield env.timeout(1)
        log.append((env.now, 'done'))
        return 'fine'

    env = Environment()
    proc = env.process(process(env))
    try:
        env.run()
    except BaseException as err:
        return (
            'the failure of the yielded activity was not raised in the process, '
            'the run died of %r instead (history %r, process alive: %r)'
            % (err, log, proc.is_alive)
        )
    if log != [(1, 'handled', 'Concurrent[KeyError]'), (2, 'done')]:
        return 'unexpected history %r' % (log,)


# ---------------------------------------------------------------------------
# V3: an unhandled failed event does not end the run when it is processed in
#     the time step in which the ``until`` event fires (although it was
#     triggered, and processed, BEFORE the until event).
# ---------------------------------------------------------------------------
def v3():
    def main(env, other):
        yield env.timeout(2)
        other.fail(KeyError('nobody handles this'))
        return 'main done'

    env = Environment()
    other = env.event()
    proc = env.process(main(env, other))
    try:
        result = env.run(until=proc)
    except KeyError:
        return None  # what SimPy does: the failed event is processed first
    return (
        'run(until=process) returned %r although the failed event was processed '
        '(processed=%r) unhandled (defused=%r) before the until event'
        % (result, other.processed, other.defused)
    )


# ---------------------------------------------------------------------------
# V4: of two interrupts, the second is silently dropped when the next yield
#     is an activity that finishes without suspending; with an (already
#     processed) event at the same yield it is raised.
# ---------------------------------------------------------------------------
def v4():
    results = {}
    for kind in ('event', 'activity'):
        log = []
        env = Environment()
        done = env.event().succeed('old')

        async def fast():
            return 'fast'

        def victim(env, kind=kind, log=log, done=done):
            try:
                yield env.timeout(5)
            except Interrupt as interrupt:
                log.append((env.now, 'interrupt', interrupt.cause))
            try:
                value = yield (done if kind == 'event' else fast())
                log.append((env.now, 'value', value))
            except Interrupt as interrupt:
                log.append((env.now, 'interrupt', interrupt.cause))
            return 'end'

        def attacker(env, target):
            yield env.timeout(1)
            target.interrupt('a')
            target.interrupt('b')

        target = env.process(victim(env))
        env.process(attacker(env, target))
        env.run()
        results[kind] = log
    expected = [(1, 'interrupt', 'a'), (1, 'interrupt', 'b')]
    if results['event'] != expected or results['activity'] != expected:
        return (
            'two interrupts, one per yield: yielding an event gives %r, '
            'yielding an activity gives %r' % (results['event'], results['activity'])
        )


# ---------------------------------------------------------------------------
# O5 (debatable): run(until=event) RETURNS the exception of a failed until
#     event that nobody handles (SimPy raises it).
# O6 (debatable): the callbacks of the until event never run.
# ---------------------------------------------------------------------------
def o5():
    def bad(env):
        yield env.timeout(2)
        raise KeyError('bad')

    env = Environment()
    proc = env.process(bad(env))
    try:
        result = env.run(until=proc)
    except KeyError:
        return None
    return 'run(until=failing process) returned %r instead of raising it' % (result,)


def o6():
    env = Environment()
    event = env.timeout(3, 'value')
    calls = []
    event.callbacks.append(lambda _: calls.append(env.now))
    result = env.run(until=event)
    if calls != [3]:
        return (
            'run(until=event) returned %r, but the callbacks of the event ran %r '
            '(processed=%r)' % (result, calls, event.processed)
        )


for name, check in (('V1', v1), ('V2', v2), ('V3', v3), ('V4', v4)):
    problem = check()
    if problem is not None:
        violations.append('%s: %s' % (name, problem))
for name, check in (('O5', o5), ('O6', o6)):
    problem = check()
    if problem is not None:
        observations.append('%s: %s' % (name, problem))

for line in violations:
    print('VIOLATION', line)
for line in observations:
    print('observation', line)
if violations:
    sys.exit(1)
print('no violation shown')
sys.exit(0)
