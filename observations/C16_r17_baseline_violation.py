"""
Baseline (unchanged tree): collect() does not raise the failure of an activity that
failed with TaskCancelled - it raises the TaskClosed of an innocent, aborted sibling
(or, if the failing activity comes first in the argument list, it is at least the
bare TaskCancelled, never Concurrent).

An activity that awaits a Task of some other scope fails with TaskCancelled when
that task is cancelled: an ordinary way for an activity to fail.
"""
import signal
import sys

signal.signal(signal.SIGALRM, lambda *_: (print("TIMEOUT"), sys.exit(1)))
signal.alarm(30)

from usim import run, time, collect, Scope, Concurrent, TaskCancelled  # noqa: E402

problems = []


async def work(value, delay):
    await (time + delay)
    return value


async def main():
    async with Scope() as outer:
        job = outer.do(work('job', 100))

        async def wait_for_job():
            await (time + 2)
            return await job  # fails with TaskCancelled: the job is cancelled at 1

        async def cancel_job():
            await (time + 1)
            job.cancel()
            return 'cancelled the job'

        try:
            result = await collect(work('slow', 5), wait_for_job(), cancel_job())
        except BaseException as err:  # noqa: B902
            print(f"collect raised {type(err).__name__} at {time.now}: {str(err)[:90]}")
            failure_raised = (
                isinstance(err, TaskCancelled)
                or (isinstance(err, Concurrent)
                    and any(isinstance(c, TaskCancelled) for c in err.children))
            )
            if not failure_raised:
                problems.append(
                    "wait_for_job() failed with TaskCancelled at 2 and the siblings were "
                    f"aborted, but collect raised {type(err).__name__} - the abort "
                    "notice of the innocent sibling work('slow', 5) - not the failure"
                )
        else:
            problems.append(f"collect returned {result} although an activity failed")


try:
    run(main(), till=1000)
except BaseException as err:  # noqa: B902
    print("run ended with", repr(err)[:200])

if problems:
    print("PROPERTY C16 VIOLATED (baseline):")
    for problem in problems:
        print(" -", problem)
    sys.exit(1)
print("the failure was raised")
sys.exit(0)
