"""
C09 on the UNCHANGED library: a holder that leaves by forceful close does not always
give the lock up.

``Lock.__aexit__`` starts with

    assert exc_type is GeneratorExit or self._owner == __USIM_STATE__.loop.activity

and only then releases. While an activity is closed forcefully (volatile child at the end
of its scope, any child of a scope that is abandoned, end of the simulation), the loop's
current activity is the *closing* activity. The assertion therefore only holds if the
exception that reaches ``__aexit__`` is still the GeneratorExit. If the block's own clean-up
replaces it - a ``finally:`` that fails, or an ``except GeneratorExit:`` that ends the
activity quietly, both without awaiting anything - the assertion fails *before* the release:
the lock stays owned by a dead activity for ever, all waiters starve, and the scope reports
a bare AssertionError instead of the clean-up's failure.

Scenario 1: clean-up in ``finally:`` raises while the holder is closed.
Scenario 2: the holder swallows GeneratorExit and ends (without awaiting).
Scenario 3 (same root cause, other direction): the clean-up of a closed activity runs with
            the closer as "current activity"; if the closer holds the lock, the closed
            activity enters the block, too (``async with lock`` does not suspend then):
            two activities inside, and `available` is True for the intruder.
Exit status 1 if any of these shows, 0 otherwise.
"""
import signal
import sys

from usim import Lock, Scope, time, run, until, eternity

found = []


def starving(lock, label):
    """Activity that tries to get the lock afterwards, with a timeout"""
    async def probe():
        got = []
        if not lock.available:
            found.append('%s: nobody holds or waits, but lock.available is False' % label)
        async with until(time + 10):
            async with lock:
                got.append(time.now)
        if not got:
            found.append('%s: lock could not be acquired within 10 time units' % label)
    return probe()


def scenario_1():
    lock = Lock()

    def release_device():
        raise RuntimeError('device already gone')

    async def holder():
        async with lock:
            try:
                await (time + 100)
            finally:
                release_device()  # clean-up fails; nothing is awaited

    async def main():
        try:
            async with Scope() as scope:
                scope.do(holder(), volatile=True)
                await (time + 5)
        except BaseException as err:  # noqa: B902
            print('scenario 1: scope raised %r' % (err,))
            if isinstance(err, AssertionError):
                found.append('1: scope raised a bare AssertionError instead of the failure')
        await starving(lock, '1')

    run(main(), till=100)


def scenario_2():
    lock = Lock()

    async def holder():
        async with lock:
            try:
                await eternity
            except GeneratorExit:
                pass  # end quietly; nothing is awaited

    async def main():
        try:
            async with Scope() as scope:
                scope.do(holder(), volatile=True)
                await (time + 5)
        except BaseException as err:  # noqa: B902
            print('scenario 2: scope raised %r' % (err,))
            if isinstance(err, AssertionError):
                found.append('2: scope raised a bare AssertionError')
        await starving(lock, '2')

    run(main(), till=100)


def scenario_3():
    lock = Lock()
    inside = []

    async def child():
        try:
            await eternity
        finally:
            # the lock is held by the parent; a waiting `async with` would be refused
            # during a close, so only enter if the lock says we may
            if lock.available:
                found.append(
                    '3: lock.available is True for the child while %s inside' % inside
                )
                async with lock:
                    if inside:
                        found.append('3: child entered the block while %s inside' % inside)

    async def main():
        async with lock:
            inside.append('parent')
            async with Scope() as scope:
                scope.do(child(), volatile=True)
                await (time + 5)
            inside.remove('parent')

    run(main(), till=100)


if __name__ == '__main__':
    signal.alarm(15)
    for scenario in (scenario_1, scenario_2, scenario_3):
        try:
            scenario()
        except BaseException as err:  # noqa: B902
            found.append('%s: simulation failed with %r' % (scenario.__name__, err))
    if found:
        print('Lock property C09 violated by the unchanged library:')
        for item in found:
            print(' -', item)
        sys.exit(1)
    print('ok')
    sys.exit(0)
