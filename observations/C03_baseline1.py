"""
Baseline finding (UNCHANGED tree), property C03: internal error escapes the kernel.

``Pipe.transfer(total, throughput=float('inf'))`` is a valid call ('throughput must
be positive or None'; infinite throughputs are used by the test suite and by
UnboundedPipe).  On a *bounded* pipe the infinite demand makes
``Pipe._throttle_subscribers`` compute ``_throughput_scale = throughput / inf = 0.0``.
Every other, perfectly ordinary transfer that is running at that moment is woken to
re-compute its window and divides by ``throughput * 0.0``:
``ZeroDivisionError`` is raised inside ``Pipe.transfer`` of an activity that did
nothing wrong, and ``run()`` ends with it (wrapped in ``Concurrent``) although the
program never raises anything.

expected: run() ends normally
observed: Concurrent[ZeroDivisionError] ('float division by zero') from usim/_basics/pipe.py
"""
import signal
import sys
import traceback

from usim import run, time, Pipe, Scope

signal.alarm(60)


async def main():
    pipe = Pipe(throughput=3)
    async with Scope() as scope:
        scope.do(pipe.transfer(total=10, throughput=2))  # ordinary transfer
        await (time + 1)
        # a second transfer that does not limit itself
        scope.do(pipe.transfer(total=10, throughput=float('inf')))


if __name__ == '__main__':
    try:
        run(main())
    except BaseException as err:  # noqa: B902
        traceback.print_exc()
        print('expected: run() ends normally (the program raises nothing)')
        print('observed: run() ended with %s: %s' % (type(err).__name__, err))
        sys.exit(1)
    print('expected: run() ends normally; observed: run() ended normally')
    sys.exit(0)
