"""
OBSERVATION on the UNCHANGED tree - NOT filed as a baseline<k>.py, because it needs a
condition object that is shared by two consecutive simulations, which is outside the
quantification stated for C08.

The helper activity of a nested connective (Connective._watcher) is a bare coroutine,
not a Task: when a simulation ends (``run(..., till=...)``) while the nested connective
``a & b`` inside ``(a & b) | c`` is still false, its helper stays subscribed to ``a``
and ``b`` forever. Using the flags again in a second simulation resumes that stale
helper in the new event loop; with assertions enabled this ends the second ``run`` with
"AssertionError: Break points cannot be passed to other coroutines", so the waiter of
the (now true) condition is never resumed.
Expected: second simulation resumes the waiter at time 1. Exits 1 if that fails.
"""
import sys

from usim import run, Scope, Flag, time

a, b, c = Flag(), Flag(), Flag()
cond = (a & b) | c
log = []


async def sim(tag, make_true):
    async def waiter():
        await cond
        log.append((tag, time.now, bool(cond)))
    async with Scope() as scope:
        scope.do(waiter())
        await (time + 1)
        if make_true:
            await a.set()
            await b.set()


run(sim('first', False), till=5)  # condition never true: the waiter is closed at 5
try:
    run(sim('second', True), till=5)
except BaseException as err:
    print('second simulation failed with %r' % err)
print('expected: [("second", 1, True)]')
print('observed:', log)
sys.exit(0 if log == [('second', 1, True)] else 1)
