"""
Baseline violation of C10 (unchanged library, CPython 3.12):
a consumer that is closed by its scope while it waits in ``async for ... in queue``
keeps the queue's read mutex forever if its stream iterator is still referenced
(here: a local variable of a frame kept alive by a stored exception's traceback).
Items accepted by ``put`` afterwards can never be received by anybody.
"""
import signal
import sys

from usim import run, Queue, Flag, time, until

signal.alarm(15)

errors = []
received = []


async def main():
    queue = Queue()
    stop = Flag()

    async def consumer():
        stream = queue.__aiter__()
        async for item in stream:
            try:
                raise ValueError(item)  # "processing" the item fails ...
            except ValueError as err:
                errors.append(err)      # ... and the failure is kept for a report

    async with until(stop) as scope:
        scope.do(consumer())
        await queue.put('x')
        await (time + 1)
        await stop.set()
    # the scope has ended and closed the consumer, which waited for the next item
    await queue.put('a')
    async with until(time + 5):
        received.append(await queue)


run(main())
if received != ['a']:
    print("VIOLATION: item 'a' was accepted by put, but a receiver that is the only one")
    print("waiting did not get it within 5 time units; received =", received)
    sys.exit(1)
print('ok', received)
