"""
Baseline finding (unchanged tree): a transfer whose own limit is float('inf') on a Pipe
with FINITE throughput.

Pipe.transfer() accepts throughput=float('inf') (the assertion only demands > 0, and
UnboundedPipe.transfer documents/handles exactly this value). In the fluid model such a
transfer is limited by the pipe only: alone on Pipe(2) it runs at rate 2, so volume 10
takes 5 time units. Observed: scale = 2 / inf = 0.0, window_throughput = inf * 0.0 = nan,
delay = nan, `delay > 0` is False -> postpone() -> the transfer "completes" in zero time.
While it is subscribed every other transfer sees scale 0.0 and dies with ZeroDivisionError.
"""
import sys
from usim import run, time, Pipe, Scope

observed = {}


async def alone():
    pipe = Pipe(throughput=2)
    start = time.now
    await pipe.transfer(total=10, throughput=float('inf'))
    observed['alone'] = time.now - start


async def joined():
    pipe = Pipe(throughput=2)
    start = time.now
    try:
        async with Scope() as scope:
            victim = scope.do(pipe.transfer(total=10, throughput=1))
            await (time + 1)
            scope.do(pipe.transfer(total=10, throughput=float('inf')))
            await victim
            observed['victim'] = time.now - start
    except BaseException as err:  # Concurrent[ZeroDivisionError]
        observed['victim'] = repr(err)


async def main():
    await alone()
    await joined()


run(main(), till=10000)
bad = False
print('lone transfer(total=10, throughput=inf) on Pipe(2): expected 5.0 (rate capped at 2), '
      'observed %r' % (observed.get('alone'),))
if observed.get('alone') != 5.0:
    bad = True
print('transfer(total=10, throughput=1) joined at t=1 by an inf-limit transfer on Pipe(2): '
      'expected a finite end time >= 10 (never faster than its limit), observed %r'
      % (observed.get('victim'),))
if not isinstance(observed.get('victim'), float):
    bad = True
if bad:
    print('VIOLATION')
    sys.exit(1)
print('no violation')
