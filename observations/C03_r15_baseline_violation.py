"""
Violation of property C03 by the UNCHANGED tree.

A child activity holds borrowed resources (``async with resources.borrow(...)``) and is
closed forcefully by its scope (a volatile child at the end of the scope; the same happens
to a regular child when a sibling fails, and to everything at ``run(till=...)``).
Its clean-up does not await anything - it merely fails with an exception of the program.

Expected (and what happens without the borrow, or with a ``usim.Lock`` instead): the scope
reports the program's own exception, ``Concurrent[CleanupFailed]``.
Observed with ``borrow``/``claim``: run() ends with ``RuntimeError('coroutine ignored
GeneratorExit')`` - a coroutine-misuse error that no code of the program raised - the
program's exception is lost and the child is left suspended half-way through its clean-up
(the borrowed resources are handed back only if that coroutine is collected while the event
loop is still running).
"""
import signal
import sys

from usim import run, time, Scope, Resources, Capacities, Lock, eternity, Concurrent


def _hang(*_):
    print("VIOLATION: hang")
    sys.exit(1)


signal.signal(signal.SIGALRM, _hang)
signal.alarm(30)


class CleanupFailed(Exception):
    """the program's own failure"""


class NoContext:
    async def __aenter__(self):
        return self

    async def __aexit__(self, *exc_info):
        return False


async def holder(context):
    async with context:
        try:
            await eternity
        finally:
            # the clean-up does not await or yield anything: it just fails
            raise CleanupFailed('clean-up of the body failed')


async def volatile_child(context):
    async with Scope() as scope:
        scope.do(holder(context), volatile=True)
        await (time + 1)


async def failing_sibling(context):
    async def sibling():
        await (time + 1)
        raise CleanupFailed('sibling failed')

    async with Scope() as scope:
        scope.do(holder(context))
        scope.do(sibling())


def leaves(exc):
    if isinstance(exc, Concurrent):
        for child in exc.children:
            yield from leaves(child)
    else:
        yield exc


violations = 0
for scenario in (volatile_child, failing_sibling):
    resources = Resources(cores=2)
    capacities = Capacities(cores=2)
    for name, context, pool in (
        ('no context manager', NoContext(), None),
        ('usim.Lock', Lock(), None),
        ('Resources.borrow', resources.borrow(cores=1), resources),
        ('Resources.claim', resources.claim(cores=1), resources),
        ('Capacities.borrow', capacities.borrow(cores=1), capacities),
    ):
        try:
            run(scenario(context), till=10)
            outcome = []
        except BaseException as err:  # noqa: B902
            outcome = list(leaves(err))
        foreign = [exc for exc in outcome if not isinstance(exc, CleanupFailed)]
        print('%-16s %-20s -> %r%s' % (
            scenario.__name__, name, outcome,
            '' if pool is None else '   levels afterwards: %r' % (pool.levels,)
        ))
        if foreign:
            violations += 1
            print(
                "   VIOLATION: run() ended with %r, raised by no code of the program:\n"
                "   BorrowedResources.__aexit__ awaited while its activity was being closed."
                % (foreign,)
            )
    if resources.levels.cores != 2 or capacities.levels.cores != 2:
        print("   (and the borrowed resources were never returned: %r, %r)" % (
            resources.levels, capacities.levels))

if violations:
    sys.exit(1)
print("OK: every scenario ended with the program's own exception")
sys.exit(0)
