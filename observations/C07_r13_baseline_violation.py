"""
C07 on the UNCHANGED library: an until-block whose notification fired while it was
active has its body resumed later on and ends long after the trigger time.

Finding 1 (main): the interrupt of an outer until-block is lost when
  * it is unwinding the body through a `finally:` whose clean-up handles an ordinary
    exception (`try: ... except StreamClosed: await ...`) and is suspended in that handler,
  * and an inner until-block fires right then.
The inner block looks for a replaced foreign interrupt only at the head of the
`__context__` chain of its own interrupt; here an ordinary exception sits in between
(inner-int -> StreamClosed -> outer-int), so the outer interrupt is dropped.

Finding 2 (secondary, debatable validity): run(..., start=S, till=T) with T < S never
terminates the simulation and executes everything at times later than T.
"""
import signal
import sys

from usim import run, time, until, eternity, Queue, StreamClosed

signal.alarm(15)

problems = []

# ---------------------------------------------------------------- finding 1
log = []


async def worker(reports: Queue):
    async with until(time == 5):                 # shift ends at 5
        async with until(time == 6):             # watchdog of this job
            try:
                await eternity                   # abandoned at 5 by the shift's end
            finally:
                log.append(('cleanup starts', time.now))
                try:
                    await reports.put('aborted')  # report queue is closed already
                except StreamClosed:
                    await (time + 2)             # back off - watchdog fires here, at 6
                    log.append(('cleanup finished', time.now))
        log.append(('next job started although the shift ended at 5', time.now))
        await (time + 10)
        log.append(('next job finished', time.now))
    log.append(('shift block ended', time.now))


async def main():
    reports = Queue()
    await reports.close()
    await worker(reports)


failure = None
try:
    run(main())
except BaseException as err:  # noqa: B902
    failure = err
print('finding 1 log:', log)
if failure is not None:
    problems.append('finding 1: simulation raised %r' % (failure,))
if any('next job' in entry[0] for entry in log):
    problems.append(
        'finding 1: until(time == 5) fired at 5 while active, yet its body was resumed: %r'
        % [entry for entry in log if 'next job' in entry[0]]
    )
ended = [when for what, when in log if what == 'shift block ended']
if ended != [6]:
    # abandoned at 5, its clean-up is cut short by the watchdog at 6
    problems.append('finding 1: until(time == 5) block ended at %r, expected 6' % ended)

# ---------------------------------------------------------------- finding 2
late = []


async def ticker():
    for _ in range(5):
        late.append(time.now)
        await (time + 1)


try:
    run(ticker(), start=10, till=5)
except BaseException as err:  # noqa: B902
    problems.append('finding 2: run(start=10, till=5) raised %r' % (err,))
print('finding 2 times of execution with start=10, till=5:', late)
if [now for now in late if now > 5]:
    problems.append(
        'finding 2 (debatable input): run(start=10, till=5) executed at times %r > till'
        % [now for now in late if now > 5]
    )

if problems:
    print('C07 VIOLATED by the unchanged library:')
    for problem in problems:
        print(' -', problem)
    sys.exit(1)
print('ok')
sys.exit(0)
