"""
Violations of C02 ("the trace is a function of the program alone") by the
UNCHANGED tree.  Three independent findings, each checked below; exit status 1
if any of them shows, 0 otherwise.

A. The exception with which a Scope fails, Concurrent[X, Y, Z], gets its type
   name / str() from iterating a frozenset of exception *types* - i.e. in the
   order of their memory addresses.  The same program reports
   "Concurrent[KeyError, ValueError, IndexError]" in one process and
   "Concurrent[KeyError, IndexError, ValueError]" in the next.
B. The ResourceLevels class of a Resources(...) comes from a *weak* cache keyed
   by (names, type(zero), zero): whether a class made for an equal-but-different
   zero (0.0 / -0.0, Decimal('0') / Decimal('0E+3')) by an unrelated, already
   dropped Resources is re-used depends on whether a cyclic garbage collection
   happened to run in between (classes only die by the cyclic GC).
C. A suspended async generator of usim (first(), interval(), delay(), stream
   iterators) that its consumer left early and that is referenced from a
   reference cycle is only unwound when the cyclic GC finds it: the activities
   that first() runs inside keep producing events until then.
"""
import gc
import os
import signal
import subprocess
import sys


def _hang(*_):
    print("VIOLATION: did not terminate")
    sys.exit(1)


signal.signal(signal.SIGALRM, _hang)
signal.alarm(120)

PROGRAM_A = r'''
from usim import run, Scope, time, Concurrent
async def fail(exc, delay):
    await (time + delay)
    raise exc
async def main():
    try:
        async with Scope() as scope:
            scope.do(fail(KeyError('k'), 1))
            scope.do(fail(IndexError('i'), 1))
            scope.do(fail(ValueError('v'), 1))
    except Concurrent as err:
        print(time.now, 'scope failed with', type(err).__name__, '|', err)
run(main())
'''


def finding_a_processes():
    """same program, same configuration, several processes"""
    outputs = {}
    for attempt in range(16):
        result = subprocess.run(
            [sys.executable, '-c', PROGRAM_A], env=dict(os.environ),
            stdout=subprocess.PIPE, stderr=subprocess.STDOUT, timeout=60,
        )
        outputs.setdefault(result.stdout.decode().strip(), []).append(attempt)
    for output, attempts in outputs.items():
        print("  A/process: %2d x %s" % (len(attempts), output))
    return len(outputs) > 1


def finding_a_heap():
    """same scenario replayed in one process, unrelated allocations in between"""
    from usim import run, Scope, time, Concurrent

    def scenario():
        class ErrA(Exception):
            pass

        class ErrB(Exception):
            pass

        class ErrC(Exception):
            pass
        trace = []

        async def fail(exc, delay):
            await (time + delay)
            raise exc

        async def main():
            try:
                async with Scope() as scope:
                    scope.do(fail(ErrA('a'), 1))
                    scope.do(fail(ErrB('b'), 1))
                    scope.do(fail(ErrC('c'), 1))
            except Concurrent as err:
                trace.append((time.now, type(err).__name__, str(err)))
        run(main())
        return tuple(trace)

    ballast, traces = [], {}
    for replay in range(60):
        ballast.append([type('Unrelated', (), {}) for _ in range(replay % 5)])
        traces.setdefault(scenario(), []).append(replay)
    for trace, replays in traces.items():
        print("  A/heap:    %2d x %s" % (len(replays), trace))
    return len(traces) > 1


def finding_b():
    from decimal import Decimal
    from usim import run, Resources, time

    def scenario(collect_in_between):
        trace = []

        def unrelated():
            Resources(0.0, cores=4.0, memory=8.0)
            Resources(Decimal('0'), cores=Decimal(4), memory=Decimal(8))
        unrelated()  # ... and dropped again
        if collect_in_between:
            gc.collect()  # stands for: enough unrelated allocations to trigger the GC

        async def floats():
            resources = Resources(-0.0, cores=4.0, memory=8.0)
            async with resources.borrow(cores=1.0) as borrowed:
                trace.append((time.now, 'borrowed', repr(borrowed.limits)))

        async def decimals():
            resources = Resources(Decimal('0E+3'), cores=Decimal(4), memory=Decimal(8))
            async with resources.borrow(cores=Decimal(1)):
                trace.append((time.now, 'borrowed', repr(resources.levels)))
        import warnings
        with warnings.catch_warnings():
            warnings.simplefilter('ignore')
            run(floats())
            try:
                run(decimals())
            except TypeError as err:
                trace.append(('simulation failed', repr(err)))
        return trace

    gc.collect()
    gc.disable()
    try:
        lazy = scenario(collect_in_between=False)
        gc.collect()
        eager = scenario(collect_in_between=True)
    finally:
        gc.enable()
    print("  B/no GC in between:", lazy)
    print("  B/   GC in between:", eager)
    return lazy != eager


def finding_c():
    from usim import run, Scope, time, first, interval

    def scenario(collect_at):
        trace = []

        async def once(name):
            await (time + 1)
            return name

        async def ticker(name):
            try:
                async for now in interval(1):
                    trace.append((now, name, 'tick'))
            finally:
                trace.append((time.now, name, 'unwound'))

        class Component:
            pass

        async def consumer():
            component = Component()
            component.owner = component  # objects referring to each other
            component.results = first(once('a'), ticker('b'))
            async for winner in component.results:
                trace.append((time.now, 'consumer', 'got', winner))
                break
            trace.append((time.now, 'consumer', 'done'))

        async def main():
            async with Scope() as scope:
                scope.do(consumer())
                for _ in range(6):
                    await (time + 1)
                    if time.now == collect_at:
                        gc.collect()  # stands for: the GC happens to run now
        gc.collect()
        gc.disable()
        try:
            run(main(), till=20)
        finally:
            gc.enable()
        return trace

    early, late = scenario(2), scenario(4)
    print("  C/GC at 2:", early)
    print("  C/GC at 4:", late)
    return early != late


try:
    shown = []
    for name, check in (
        ('A (process)', finding_a_processes), ('A (heap)', finding_a_heap),
        ('B', finding_b), ('C', finding_c),
    ):
        print("finding %s:" % name)
        try:
            violated = check()
        except Exception as err:
            print("  check itself failed: %r" % (err,))
            violated = False
        print("  -> %s" % (
            "VIOLATION: the same program gave different traces" if violated
            else "not shown this time"))
        if violated:
            shown.append(name)
    if shown:
        print("C02 violated by the unchanged tree: findings %s" % ', '.join(shown))
        sys.exit(1)
    print("no violation shown")
    sys.exit(0)
except SystemExit:
    raise
except BaseException as err:  # noqa: B902
    print("unexpected %r" % (err,))
    sys.exit(1)
