"""
Two violations of C07 by the UNCHANGED library (exit status 1 if either shows).

1. Three nested ``until`` blocks whose notifications fire one after the other while
   the body is still unwinding (it suspends in ``finally`` clauses): the interrupt of
   the OUTERMOST block is lost, its body goes on long after the notification fired.
2. An ``until`` block that is used *inside* a ``finally`` clause while the interrupt
   of an enclosing ``until`` block is unwinding the activity: when its own
   notification fires, the inner block does not end silently but raises the
   interrupt of the enclosing block - the rest of the clean-up is skipped.
"""
import signal
import sys

import usim
from usim import run, time, until, eternity

signal.alarm(15)


def check(name, activity, expected):
    log = []
    try:
        run(activity(log))
    except BaseException as err:  # noqa: B902
        log.append(('run() raised', repr(err)))
    if log != expected:
        print('%s: property C07 violated' % name)
        print('  expected trace:', expected)
        print('  observed trace:', log)
        return False
    print('%s: ok' % name, log)
    return True


async def three_levels(log):
    async with until(time == 1):
        async with until(time == 2):
            async with until(time == 3):
                try:
                    try:
                        await eternity
                    finally:
                        log.append(('first clean-up', time.now))
                        await (time + 10)  # cut short at 2 by the middle block
                finally:
                    log.append(('second clean-up', time.now))
                    await (time + 10)  # cut short at 3 by the innermost block
            log.append(('body of middle block goes on', time.now))
            await (time + 100)
        # the outermost notification fired at 1: we must never get here
        log.append(('body of outermost block goes on', time.now))
        await (time + 100)
        log.append(('body of outermost block completed', time.now))
    log.append(('outermost block ended', time.now))


async def until_in_cleanup(log):
    async with until(time == 1):
        try:
            await eternity
        finally:
            log.append(('clean-up started', time.now))
            async with until(time + 5):  # clean up for at most 5
                await eternity
            # the block above must end without raising when its delay has passed
            log.append(('clean-up completed', time.now))
    log.append(('outer block ended', time.now))


def main():
    print('usim from', usim.__file__)
    ok = check('1 (three nested deadlines)', three_levels, [
        ('first clean-up', 1), ('second clean-up', 2), ('outermost block ended', 3),
    ])
    ok &= check('2 (until inside a clean-up)', until_in_cleanup, [
        ('clean-up started', 1), ('clean-up completed', 6), ('outer block ended', 6),
    ])
    return 0 if ok else 1


if __name__ == '__main__':
    sys.exit(main())
