"""
Baseline finding (unchanged tree): a real ``except`` clause does NOT agree with
isinstance/issubclass for Concurrent specialisations.

Property C17: "`isinstance`, `issubclass` and an `except` clause all agree with
this rule" (Concurrent[A, B] matches iff every listed type is matched by some child,
subclasses count; with ``...`` extra children are allowed).

On Python 3 the ``except`` clause does not consult ``__subclasscheck__`` but the real
MRO (PyErr_GivenExceptionMatches -> PyType_IsSubtype), so only the *identical*
specialisation (or bare Concurrent) is caught.
"""
import sys
from usim import Concurrent

CASES = [
    # (description, failure factory, handler)
    ("Concurrent[LookupError] vs Concurrent(KeyError())",
     lambda: Concurrent(KeyError()), Concurrent[LookupError]),
    ("Concurrent[KeyError, ...] vs Concurrent(KeyError(), IndexError())",
     lambda: Concurrent(KeyError(), IndexError()), Concurrent[KeyError, ...]),
    ("Concurrent[LookupError] vs Concurrent(KeyError(), IndexError())",
     lambda: Concurrent(KeyError(), IndexError()), Concurrent[LookupError]),
    ("Concurrent[Concurrent[LookupError]] vs Concurrent(Concurrent(KeyError()))",
     lambda: Concurrent(Concurrent(KeyError())), Concurrent[Concurrent[LookupError]]),
]

bad = 0
for text, make, handler in CASES:
    failure = make()
    by_isinstance = isinstance(failure, handler)
    by_issubclass = issubclass(type(failure), handler)
    try:
        try:
            raise failure
        except handler:
            by_except = True
    except Concurrent:
        by_except = False
    print(f"{text}: expected match=True; isinstance={by_isinstance} "
          f"issubclass={by_issubclass} except-clause={by_except}")
    if not (by_isinstance == by_issubclass == by_except):
        bad += 1

if bad:
    print(f"VIOLATION: {bad} case(s) where the except clause disagrees with "
          f"isinstance/issubclass")
    sys.exit(1)
print("no disagreement observed")
