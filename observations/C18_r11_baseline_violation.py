"""
Violations of property C18 by the UNCHANGED library (exit 1 if any shows).

1. negative start time: ``Environment(initial_time=-5)`` reports ``now == -5``
   before the run, but runs on the clock of a loop started at 0 - a timeout of 3
   created at -5 fires at 3 (8 later), and ``run(until=-1)`` is refused as
   "in the past".
2. an event that failed earlier *in the same time step* (triggered, but its
   callbacks not processed yet) is yielded by a process that handles the
   failure: the exception is raised in the process and handled there - and the
   run still ends with that exception as if it was unhandled.
"""
import signal
import sys

import usim
from usim.py import Environment

signal.alarm(20)
problems = []


def negative_start():
    env = Environment(initial_time=-5)
    created_at = env.now
    log = []

    def proc(env):
        start = env.now
        yield env.timeout(3)
        log.append((start, env.now))

    env.process(proc(env))
    env.run()
    if created_at != -5:
        problems.append('negative start: env.now before the run is %r' % created_at)
    if log != [(-5, -2)]:
        problems.append(
            'negative start: Environment(-5), process started/resumed after'
            ' timeout(3) at %r instead of [(-5, -2)]' % log)
    env = Environment(initial_time=-5)
    try:
        env.run(until=-1)
    except ValueError as err:
        problems.append(
            'negative start: Environment(-5).run(until=-1) raised %r' % err)
    else:
        if env.now != -1:
            problems.append(
                'negative start: Environment(-5).run(until=-1) stopped at %r' % env.now)


def failed_in_same_step():
    env = Environment()
    log = []

    def breaker(env, event):
        yield env.timeout(1)
        event.fail(KeyError('broken'))

    def handler(env, event):
        yield env.timeout(1)
        # the event has failed in this time step already (breaker runs first)
        try:
            yield event
        except KeyError as err:
            log.append(('handled', env.now, err.args))
        yield env.timeout(1)
        log.append(('continued', env.now))

    event = env.event()
    env.process(breaker(env, event))
    env.process(handler(env, event))
    try:
        env.run()
    except KeyError as err:
        problems.append(
            'failed in same step: the failure was handled by the waiting process'
            ' (log %r), but the run ended with %r' % (log, err))
    if log != [('handled', 1, ('broken',)), ('continued', 2)]:
        problems.append('failed in same step: log is %r' % log)


if __name__ == '__main__':
    print('usim from', usim.__file__)
    negative_start()
    failed_in_same_step()
    if problems:
        print('PROPERTY VIOLATED by the unchanged library:')
        for problem in problems:
            print(' *', problem)
        sys.exit(1)
    print('no violation')
    sys.exit(0)
