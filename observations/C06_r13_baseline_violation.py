"""
C06 on the UNCHANGED library: four reproducible deviations, most serious first

V1  cancelling a child silently aborts its parent scope and its siblings when another
    child was awaiting it
V2  a task with a start delay that is cancelled in the time step of its start date,
    before it has started, still runs its payload - to completion
V3  the status of a task closed by its scope moves CANCELLED -> FAILED
V4  an awaiter changes the exception that later awaiters of the same task receive

Exit status 1 if any of them shows (as it does on the unchanged tree), 0 otherwise.
"""
import signal
import sys

from usim import run, time, instant, eternity, Scope, Concurrent
from usim import TaskState, TaskCancelled

signal.alarm(20)  # never hang

violations = []


def violated(label, message):
    violations.append('%s: %s' % (label, message))


# V1 ---------------------------------------------------------------------------------
async def sleep(duration):
    await (time + duration)
    return duration


async def relay(task):
    return await task


async def v1():
    events = []
    raised = None
    try:
        async with Scope() as scope:
            target = scope.do(sleep(10))
            waiter = scope.do(relay(target))      # a sibling that awaits the target
            bystander = scope.do(sleep(20))       # a sibling that has nothing to do with it
            await (time + 1)
            target.cancel('not needed')           # cancel *one* child
            await (time + 30)
            events.append('body completed')
    except BaseException as err:  # noqa: B902
        raised = err
    left_at = time.now
    if 'body completed' not in events and raised is None:
        violated('V1', 'cancelling one child aborted the body of its parent scope at '
                       'time %s - silently, the scope raised nothing' % left_at)
    if bystander.status is not TaskState.SUCCESS:
        violated('V1', 'an unrelated sibling of the cancelled child ended as %s'
                       % bystander.status)
    if waiter.status is TaskState.CANCELLED:
        try:
            await waiter
        except TaskCancelled as err:
            if err.subject is not waiter:
                violated('V1', 'the sibling that awaited the cancelled child reports '
                               'CANCELLED although nobody cancelled it, and its '
                               'awaiters get a TaskCancelled carrying another task')


# V2 ---------------------------------------------------------------------------------
async def v2():
    events = []
    box = {}

    async def payload():
        events.append(('payload runs at', time.now))
        return 'payload result'

    async def canceller():
        await (time + 5)
        task = box['task']
        events.append(('cancel() at', time.now, 'payload started:',
                       any(e[0] == 'payload runs at' for e in events)))
        task.cancel('too late?')

    async with Scope() as scope:
        scope.do(canceller())
        await instant
        box['task'] = task = scope.do(payload(), after=5)
    cancel_event = [e for e in events if e[0] == 'cancel() at'][0]
    assert cancel_event[3] is False  # cancel() came before the payload's first statement
    if ('payload runs at', 5) in events:
        violated('V2', 'task cancelled before its (delayed) start still executed its '
                       'payload; final status %s, events %r' % (task.status, events))


# V3 ---------------------------------------------------------------------------------
async def v3():
    seen = []
    box = {}

    async def child():
        try:
            await eternity
        finally:
            seen.append(box['task'].status)  # look at our own status ...
            raise KeyError('clean-up failed')  # ... and fail to clean up

    try:
        async with Scope() as scope:
            box['task'] = task = scope.do(child(), volatile=True)
            await (time + 1)
    except Concurrent:
        pass
    seen.append(task.status)
    if seen[0] is TaskState.CANCELLED and seen[1] is not TaskState.CANCELLED:
        violated('V3', 'status went %s -> %s for a task closed by its scope whose '
                       'clean-up raises' % (seen[0], seen[1]))


# V4 ---------------------------------------------------------------------------------
async def v4():
    async def fail():
        await (time + 1)
        raise KeyError('task failure')

    try:
        async with Scope() as scope:
            task = scope.do(fail())
    except Concurrent:
        pass
    try:
        await task
    except KeyError as err:
        before = err.__context__
    try:
        raise ValueError('business of the second awaiter')
    except ValueError:
        try:
            await task       # e.g. awaited in an error handler
        except KeyError:
            pass
    try:
        await task
    except KeyError as err:
        after = err.__context__
    if after is not before:
        violated('V4', 'the failure delivered to awaiters changed after the task was '
                       'done: __context__ %r -> %r' % (before, after))


for scenario in (v1, v2, v3, v4):
    run(scenario())

if violations:
    print('C06 is violated by the unchanged library:')
    for violation in violations:
        print(' *', violation)
    sys.exit(1)
print('none of the C06 deviations showed')
sys.exit(0)
