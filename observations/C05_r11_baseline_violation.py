"""
Baseline finding for C05 (unchanged library): a child that fails with an exception
which is not an ``Exception`` subclass (a user-defined ``BaseException``, or e.g.
``asyncio.CancelledError``) makes the scope end with an ``AssertionError`` that
nobody raised - instead of a ``Concurrent`` carrying the child's exception, and even
instead of the body's own exception.

Exit status 1 if the violation shows, 0 otherwise.
"""
import asyncio
import signal
import sys

import usim
from usim import Scope, Concurrent, time, run

signal.alarm(20)
problems = []


class Shutdown(BaseException):
    """An application level signal, deliberately not an ``Exception``"""


async def fail(exc, after):
    await (time + after)
    raise exc


async def main():
    for child_error in (Shutdown('child'), asyncio.CancelledError('child')):
        name = type(child_error).__name__
        # 1. only the child fails: expect Concurrent(child_error)
        try:
            async with Scope() as scope:
                scope.do(fail(child_error, 1))
                await (time + 5)
        except Concurrent as err:
            if not (len(err.children) == 1 and err.children[0] is child_error):
                problems.append('%s: Concurrent carries %r' % (name, err.children))
        except BaseException as err:
            problems.append(
                '%s: child failed with %r, but the block ended with %s: %s' % (
                    name, child_error, type(err).__name__, err))
        else:
            problems.append('%s: block ended without exception' % name)
        # 2. the child fails, then the body fails in the same time step:
        #    expect the very exception of the body
        body_error = KeyError('body')
        try:
            async with Scope() as scope:
                scope.do(fail(child_error, 5))
                await (time + 1)
                await (time + 4)
                raise body_error
        except BaseException as err:
            if err is not body_error:
                problems.append(
                    '%s: body failed with %r, but the block ended with %s: %s' % (
                        name, body_error, type(err).__name__, err))


assert usim.__file__.startswith('/tmp/s6_C05/'), usim.__file__
try:
    run(main())
except BaseException as err:
    problems.append('simulation ended with %r' % (err,))
if problems:
    print('C05 violated by the unchanged library:')
    for problem in problems:
        print(' -', problem)
    sys.exit(1)
print('ok')
sys.exit(0)
