"""C17 baseline: the `except` clause does not agree with isinstance/issubclass."""
import signal
import sys

signal.signal(signal.SIGALRM, lambda *_: sys.exit(1))
signal.alarm(30)

try:
    from usim import Concurrent, Scope, run, time

    async def fail(exc):
        await (time + 1)
        raise exc

    def caught(handler, exc):
        try:
            raise exc
        except handler:
            return True
        except BaseException:
            return False

    results = []

    async def main():
        # failure with children {KeyError, IndexError}, produced by a real Scope
        try:
            async with Scope() as scope:
                scope.do(fail(KeyError('k')))
                scope.do(fail(IndexError('i')))
        except Concurrent as err:
            two = err
        try:
            async with Scope() as scope:
                scope.do(fail(KeyError('k')))
        except Concurrent as err:
            one = err
        for handler, exc, expected in [
            (Concurrent[LookupError], one, True),           # subclasses count
            (Concurrent[KeyError, ...], two, True),         # extra children allowed
            (Concurrent[LookupError], two, True),           # every child matches LookupError
            (Concurrent[KeyError, IndexError, ...], two, True),
            (Concurrent[KeyError], one, True),              # exact set: works (same class)
            (Concurrent[KeyError], two, False),
        ]:
            results.append((handler, exc, expected, isinstance(exc, handler),
                            issubclass(type(exc), handler), caught(handler, exc)))

    run(main(), till=100)
    bad = 0
    for handler, exc, expected, isinst, issub, exc_clause in results:
        ok = isinst == issub == exc_clause == expected
        bad += not ok
        print(f"{'ok ' if ok else 'BAD'} handler={handler} failure={exc!r} expected={expected} "
              f"isinstance={isinst} issubclass={issub} except-clause={exc_clause}")
    if bad or len(results) != 6:
        print("VIOLATION: `except Concurrent[...]` selects a different set of failures than "
              "isinstance/issubclass and than the documented rule")
        sys.exit(1)
    print("no violation")
    sys.exit(0)
except SystemExit:
    raise
except BaseException as exc:  # noqa
    print("UNEXPECTED:", type(exc), exc)
    sys.exit(1)
