"""
C20 on the UNCHANGED library: operations that complete without letting the other
runnable activities run.  Every case starts SPINNERS activities that are runnable
during the whole (single) time step, performs ONE operation in the main activity and
checks that every spinner got a turn before the operation completed.

exit 1 if any case shows a violation, exit 0 otherwise.
"""
import signal
import sys

import usim
from usim import (
    Scope, run, time, instant, until, Flag, Lock, Queue, Channel, Resources,
    ResourcesUnavailable, StreamClosed,
)

signal.alarm(20)

SPINNERS = 3
log = []
NAMES = {'spinner-%d' % idx for idx in range(SPINNERS)}


async def spinner(name, turns=6):
    for _ in range(turns):
        log.append(name)
        await instant


class Probe:
    """``with Probe(label):`` around ONE operation of the main activity"""
    results = []

    def __init__(self, label):
        self.label = label

    def __enter__(self):
        self.mark, self.start = len(log), time.now

    def __exit__(self, exc_type, exc_val, exc_tb):
        seen = set(log[self.mark:])
        ok = time.now > self.start or seen == NAMES
        self.results.append((self.label, ok, sorted(NAMES - seen)))
        return False


async def with_spinners(case):
    log.clear()
    async with Scope() as scope:
        for name in sorted(NAMES):
            scope.do(spinner(name))
        await instant  # the spinners are running, and runnable, from now on
        await case()


# --- the cases ---------------------------------------------------------------------
async def case_until_already_triggered():
    """leaving an ``until`` block whose notification fired before the block was left"""
    flag = Flag()
    await flag.set()
    await instant
    with Probe('leave `async with until(flag)` with flag set, spinners runnable'):
        async with until(flag):
            pass


async def case_until_runnable_started_inside():
    """
    an activity made runnable inside the block is overtaken by the scope's interrupt
    """
    flag = Flag()
    await flag.set()
    ran = []

    async def child():
        ran.append(True)

    async with Scope() as outer:
        async with until(flag):
            outer.do(child())
        Probe.results.append((
            'leave `async with until(set_flag)`: activity started in an OUTER scope '
            'from inside the block', bool(ran), [] if ran else ['child']
        ))


async def case_lock():
    lock = Lock()
    with Probe('`async with lock:` (acquire + release of a free lock)'):
        async with lock:
            pass


async def case_claim_unavailable():
    resources = Resources(cores=1)
    with Probe('`async with resources.claim(cores=2)` failing with ResourcesUnavailable'):
        try:
            async with resources.claim(cores=2):
                pass
        except ResourcesUnavailable:
            pass


async def case_put_closed():
    queue = Queue()
    await queue.close()
    with Probe('`await queue.put(1)` on a closed queue (StreamClosed)'):
        try:
            await queue.put(1)
        except StreamClosed:
            pass
    channel = Channel()
    await channel.close()
    with Probe('`await channel.put(1)` on a closed channel (StreamClosed)'):
        try:
            await channel.put(1)
        except StreamClosed:
            pass


async def case_get_closed():
    queue, channel = Queue(), Channel()
    await queue.close()
    await channel.close()
    with Probe('`await queue` on a closed, empty queue (StreamClosed)'):
        try:
            await queue
        except StreamClosed:
            pass
    with Probe('`await channel` on a closed channel (StreamClosed)'):
        try:
            await channel
        except StreamClosed:
            pass


async def case_scope_exception():
    with Probe('leaving `async with Scope()` by an exception of the body'):
        try:
            async with Scope():
                raise KeyError
        except KeyError:
            pass


CASES = [
    case_until_already_triggered, case_until_runnable_started_inside, case_lock,
    case_claim_unavailable, case_put_closed, case_get_closed, case_scope_exception,
]


async def main():
    for case in CASES:
        await with_spinners(case)


if __name__ == '__main__':
    print('usim from', usim.__file__)
    run(main())
    failed = False
    for label, ok, missing in Probe.results:
        print('%-9s %s%s' % (
            'ok' if ok else 'VIOLATION', label,
            '' if ok else ' -- no turn for %s' % missing))
        failed = failed or not ok
    sys.exit(1 if failed else 0)
