"""
Baseline (unchanged tree) violation of C09: a waiter that is forcefully closed while it
waits for a lock *inside an async generator that somebody else still references* stays
in the lock's queue; the next release hands the lock to that dead activity, whose
wake-up the loop discards.  The lock is then owned for ever by an activity that has
ended: nobody holds it, nobody waits for it, and yet it is not free.

Exits 1 if the violation shows, 0 otherwise.
"""
import signal
import sys
import traceback


def _alarm(*_):
    print("VIOLATION: the simulation did not finish (hang)")
    sys.exit(1)


signal.signal(signal.SIGALRM, _alarm)
signal.alarm(30)

from usim import run, time, Lock, Scope  # noqa: E402

problems = []
log = []


async def guarded_steps(lock):
    """Async generator: every step is produced under the lock"""
    for step in range(3):
        async with lock:
            log.append((time.now, 'steps', 'produced step %d under the lock' % step))
            yield step


async def consume(steps):
    async for _ in steps:
        await (time + 1)


async def late_user(lock):
    log.append((time.now, 'late', 'asks, available=%s' % lock.available))
    async with lock:
        log.append((time.now, 'late', 'enters'))


async def main():
    lock = Lock()
    # the generator is created here and handed to a helper: this frame keeps a reference
    steps = guarded_steps(lock)
    async with lock:
        async with Scope() as scope:
            # the helper asks for the lock (inside the generator) and has to wait
            helper = scope.do(consume(steps), volatile=True)
            await (time + 1)
        # the scope has ended: the volatile helper was closed while waiting for the lock
        log.append((time.now, 'main', 'helper closed, status=%s' % helper.status))
    # we have left the block: nobody holds the lock, and the only waiter is gone
    log.append((time.now, 'main', 'released: available=%s, %r' % (lock.available, lock)))
    if not lock.available:
        problems.append(
            "t=%s: nobody holds the lock and its only waiter was closed, but it is not "
            "free: %r" % (time.now, lock)
        )
    async with Scope() as scope:
        late = scope.do(late_user(lock), after=1)
        await (time + 5)
        if not late.done:
            problems.append(
                "t=%s: a later contender still waits for the lock that nobody is "
                "inside of: %r" % (time.now, lock)
            )
            late.cancel()
    del steps


try:
    run(main(), till=50)
except BaseException as err:  # noqa: B902
    print('simulation ended by',
          ''.join(traceback.format_exception_only(type(err), err)).strip())
    problems.append("simulation failed: %r" % (err,))

for entry in log:
    print("t=%-3s %-6s %s" % entry)
if problems:
    print("VIOLATION of C09 (a waiter leaves by forceful close -> ownership must pass "
          "on; the lock is free\nwhenever nobody holds or waits for it):")
    for problem in problems:
        print("  " + problem)
    sys.exit(1)
print("OK: the lock was free after its holder left and its waiter was closed")
sys.exit(0)
