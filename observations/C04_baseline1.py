"""
Baseline finding for C04 (unchanged tree): descendants of a child survive the scope
when the child owns a scope through an async generator (e.g. ``usim.first``) that is
still referenced from the child's frame when the child ends with an exception.

``first(...)`` opens a ``Scope`` inside an async generator and runs the contestants
as volatile tasks of it.  A child iterates it via a local variable and then fails
(variant 1) or is individually cancelled (variant 2) while suspended in the loop body.
The child is done, but the exception (stored as the task's result, in the parent's
``_child_failures`` and, for a cancellation, as ``TaskCancelled.__cause__``) keeps the
child's frame - and with it the suspended generator - alive.  Python only unwinds the
generator (which is what closes the inner scope) when it is collected, so the
contestant tasks keep running after the child is done and even after the enclosing
scope has been left.

Expected: once the outer ``async with Scope()`` is left, every task started in it
is done and no code of these tasks *or their descendants* runs anymore.
Observed: contestant 'b' keeps running for its full remaining duration.
"""
import sys

from usim import run, time, eternity, Scope, first, Concurrent

problems = []


async def contestant(log, name, steps):
    for _ in range(steps):
        await (time + 1)
        log.append((name, time.now))
    return name


async def failing_child(log):
    results = first(contestant(log, 'a', 1), contestant(log, 'b', 10), count=2)
    async for _ in results:
        raise KeyError('child failed while iterating')


async def waiting_child(log):
    results = first(contestant(log, 'a', 1), contestant(log, 'b', 10), count=2)
    async for _ in results:
        await eternity


async def variant_child_fails():
    log = []
    try:
        async with Scope() as scope:
            scope.do(failing_child(log))
    except Concurrent:
        pass
    exit_time, exit_len = time.now, len(log)
    await (time + 20)
    print('child fails      : scope left at t=%s; expected no activity afterwards,'
          ' observed %r' % (exit_time, log[exit_len:]))
    if log[exit_len:]:
        problems.append('child fails')


async def variant_child_cancelled():
    log = []
    async with Scope() as scope:
        task = scope.do(waiting_child(log))
        await (time + 3)
        task.cancel()
    exit_time, exit_len = time.now, len(log)
    await (time + 20)
    print('child cancelled  : scope left at t=%s; expected no activity afterwards,'
          ' observed %r' % (exit_time, log[exit_len:]))
    if log[exit_len:]:
        problems.append('child cancelled')


async def main():
    await variant_child_fails()
    await variant_child_cancelled()


if __name__ == '__main__':
    run(main(), till=10000)  # safety bound
    if problems:
        print('VIOLATION of C04 on the unchanged tree in: %s' % ', '.join(problems))
        sys.exit(1)
    print('no violation observed')
    sys.exit(0)
