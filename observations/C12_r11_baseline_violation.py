"""
Violations of C12 by the UNCHANGED library (exit 1 if any of them shows).

1. A nested borrower that outlives the block of the share it borrowed from:
   the share is overdrawn (negative level) and the supply reports resources as
   available which are still in use.
2. Borrowing an infinite amount from an infinite supply: the level turns NaN
   and never recovers; every later borrow waits forever.
3. Float amounts: the supply is not restored exactly at quiescence.
"""
import math
import signal
import sys

import usim
from usim import Scope, Resources, Capacities, time, until, run


def outliving_nested_borrower(kind, problems):
    async def hold(share):
        async with share.borrow(a=3):
            await (time + 10)

    async def main():
        supply = kind(a=10)
        async with Scope() as scope:
            async with supply.borrow(a=5) as share:
                scope.do(hold(share))
                await (time + 1)
            # the block is left, 3 units of it are still held by ``hold``
            if share.levels.a < 0:
                problems.append(
                    f'{kind.__name__}: level of the left share is {share.levels.a}'
                )
            if supply.levels.a > 10 - 3:
                problems.append(
                    f'{kind.__name__}: supply shows {supply.levels.a} of 10 available'
                    ' while 3 units are still held'
                )
                # ... so that they can be lent out a second time
                async with until(time + 1):
                    async with supply.borrow(a=10):
                        problems.append(
                            f'{kind.__name__}: borrowed all 10 units at time'
                            f' {time.now} while 3 units are still held'
                        )
    return main()


def infinite_amount(problems):
    async def main():
        supply = Resources(a=math.inf)
        async with supply.borrow(a=math.inf):
            pass
        if not supply.levels.a == math.inf:
            problems.append(
                f'Resources(a=inf): level is {supply.levels.a} after borrow(a=inf)'
            )
        entered = False
        async with until(time + 5):
            async with supply.borrow(a=1):
                entered = True
        if not entered:
            problems.append(
                'Resources(a=inf): borrow(a=1) did not succeed within 5 time units'
            )
    return main()


def float_amounts(problems):
    async def borrow(supply, amount, duration):
        async with supply.borrow(a=amount):
            await (time + duration)

    async def main():
        supply = Resources(a=1.0)
        async with Scope() as scope:
            scope.do(borrow(supply, 0.1, 3))
            scope.do(borrow(supply, 0.2, 1))
            scope.do(borrow(supply, 0.3, 2))
        if supply.levels.a != 1.0:
            problems.append(
                f'Resources(a=1.0): level is {supply.levels.a!r} at quiescence'
            )
    return main()


def main():
    assert usim.__file__.startswith('/tmp/s6_C12/'), usim.__file__
    signal.alarm(15)
    problems = []
    run(outliving_nested_borrower(Resources, problems))
    run(outliving_nested_borrower(Capacities, problems))
    run(infinite_amount(problems))
    run(float_amounts(problems))
    if problems:
        print('the unchanged library violates C12:')
        for problem in problems:
            print('  ', problem)
        return 1
    print('ok')
    return 0


if __name__ == '__main__':
    sys.exit(main())
