"""
Violations of C04 (no task outlives its scope) by the UNCHANGED library.

A. deep nesting: tearing down a chain of ~200 nested child activities hits Python's
   recursion limit inside the library's synchronous close cascade; the RecursionError
   is swallowed, the block is left without any error, and the deeper tasks live on.
B. a child activity ends (successfully) while a ``first(...)`` iterator it has used is
   still referenced - here merely through the traceback of an exception that the child
   has caught and put into a list. The activities started by ``first`` - descendants
   of the child - keep running after the child is done and after the scope that
   started the child has been left.
C. usim.py: an ``Environment`` is a Scope. When it is left, the tasks of its processes
   are closed, but the generators of the processes are not: the process still says
   ``is_alive``, and its ``finally:`` clean-up runs whenever the garbage collector
   happens to find it - long after the block was left.

Exit status 1 if any of the violations shows, 0 otherwise.
"""
import gc
import signal
import sys

from usim import run, time, Scope, until, first, eternity
from usim.py import Environment

signal.alarm(60)
problems = []


# A ------------------------------------------------------------------------------------
def deep_nesting(depth):
    ticks = []
    tasks = {}

    async def ticker(level):
        while time.now < 10:
            await (time + 1)
            ticks.append((level, time.now))

    async def nest(level):
        async with Scope() as scope:
            if level < depth:
                tasks['nest', level + 1] = scope.do(nest(level + 1))
            tasks['ticker', level] = scope.do(ticker(level))
            await eternity

    async def main():
        outcome = "no exception"
        try:
            async with until(time == 3) as scope:
                tasks['nest', 0] = scope.do(nest(0))
        except BaseException as err:  # noqa: B902
            outcome = repr(err)
        left_at = time.now
        alive = [key for key, task in tasks.items() if not task.done]
        await (time + 5)
        late = sorted({level for level, when in ticks if when > left_at})
        if alive or late:
            problems.append(
                f"A (depth {depth}): block left at time {left_at} with {outcome}, but "
                f"{len(alive)} tasks started below it are not done, e.g. {alive[:3]}; "
                f"tickers of {len(late)} levels ran afterwards, e.g. levels {late[:3]}"
            )

    run(main())


for nesting_depth in (50, 400):
    deep_nesting(nesting_depth)


# B ------------------------------------------------------------------------------------
def lingering_first():
    steps = []
    errors = []

    async def query(name, duration):
        for _ in range(duration):
            await (time + 1)
            steps.append((name, time.now))
        return name

    async def child():
        results = first(query('fast', 2), query('slow', 8), count=2)
        async for winner in results:
            try:
                raise ValueError(winner)  # say, the result is unusable
            except ValueError as err:
                errors.append(err)  # remember why, and give up
                break

    async def main():
        async with Scope() as scope:
            task = scope.do(child())
        left_at = time.now
        if not task.done:
            problems.append("B: child not done")
        await (time + 20)
        late = [step for step in steps if step[1] > left_at]
        if late:
            problems.append(
                f"B: scope left at time {left_at}, its only child is done "
                f"({task.status}), but an activity started by that child via first() "
                f"ran afterwards: {late}"
            )

    run(main())


lingering_first()


# C ------------------------------------------------------------------------------------
def simpy_process():
    trace = []

    def process(env):
        try:
            while True:
                yield env.timeout(1)
                trace.append(('tick', time.now))
        finally:
            trace.append(('clean-up', time.now))

    async def main():
        async with until(time == 3):
            async with Environment() as env:
                proc = env.process(process(env))
                await (time + 100)
        left_at = time.now
        alive = proc.is_alive
        await (time + 5)
        del proc, env
        gc.collect()
        await (time + 5)
        late = [entry for entry in trace if entry[1] > left_at]
        if alive or late:
            problems.append(
                f"C: Environment left at time {left_at}: process.is_alive={alive}, "
                f"code of the process ran afterwards: {late}"
            )

    run(main())


simpy_process()

if problems:
    print("C04 violated by the unchanged library:")
    for problem in problems:
        print("  ", problem)
    sys.exit(1)
print("no violation observed")
