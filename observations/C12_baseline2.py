"""
Baseline finding 2 (unchanged tree, low severity / float rounding): with float
amounts the level does not return to the supply at quiescence.

Levels are updated by ``value - amount`` / ``value + amount`` per borrow. For
``Resources(a=1.0)`` borrowing 0.1 and, nested, 0.2 and releasing both leaves
0.9999999999999999: at quiescence the level differs from the supply, a claim for
the whole supply raises ResourcesUnavailable although nothing is held, and a
``borrow(a=1.0)`` would wait forever.
"""
import sys

from usim import run, time, Resources, ResourcesUnavailable

log = {}


async def main():
    supply = Resources(a=1.0)
    async with supply.borrow(a=0.1):
        async with supply.borrow(a=0.2):
            pass
    await (time + 1)
    log['level at quiescence'] = supply.levels.a
    try:
        async with supply.claim(a=1.0):
            log['claim of whole supply'] = 'ok'
    except ResourcesUnavailable:
        log['claim of whole supply'] = 'ResourcesUnavailable'
    log['finished'] = True


run(main(), till=1000)
print("expected: level at quiescence 1.0, claim of whole supply 'ok'")
print('observed:', log)
if (
    not log.get('finished')
    or log['level at quiescence'] != 1.0
    or log['claim of whole supply'] != 'ok'
):
    print('VIOLATION')
    sys.exit(1)
print('no violation')
