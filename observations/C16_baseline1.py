"""
Baseline finding (unchanged tree): a failing activity is swallowed by first()/collect()
when its exception is a TaskCancelled / TaskClosed - which an activity gets quite
naturally by awaiting a helper task that has been cancelled.

C16: "if any activity fails, the others are aborted at that time and the failure is
raised"; "first(..., count=k) ... stops after k results".
Observed: first(count=3) stops *normally* after 1 result at the time of the failure, no
exception at all; collect() raises the bare TaskCancelled instead of usim.Concurrent.
"""
import sys
import warnings
from usim import run, time, Scope, first, collect, Concurrent

warnings.simplefilter('ignore')
problems = []


async def sleeper(value, delay):
    await (time + delay)
    return value


async def needs_helper(helper, delay):
    await (time + delay)
    return await helper  # raises TaskCancelled: the helper was cancelled


async def main():
    async with Scope() as scope:
        helper = scope.do(sleeper('help', 100))
        helper.cancel()
        await (time + 1)
        start = time.now
        seen = []
        try:
            async for value in first(
                sleeper('a', 1), needs_helper(helper, 2), sleeper('c', 3), count=3
            ):
                seen.append((value, time.now - start))
            end = 'finished normally at +%s' % (time.now - start)
        except Concurrent as err:
            end = 'Concurrent'
        except BaseException as err:
            end = 'raised %s' % type(err).__name__
        print('first(count=3): results', seen, '->', end)
        print('   expected   : results [(\'a\', 1)] -> Concurrent (at +2)')
        if end != 'Concurrent':
            problems.append('first() did not raise the failure: %s after %d of 3 results'
                            % (end, len(seen)))
        try:
            got = await collect(sleeper('a', 1), needs_helper(helper, 2), sleeper('c', 3))
            end = 'returned %r' % (got,)
        except Concurrent as err:
            end = 'Concurrent'
        except BaseException as err:
            end = 'raised bare %s' % type(err).__name__
        print('collect(): ', end, '; expected Concurrent')
        if end != 'Concurrent':
            problems.append('collect() did not raise usim.Concurrent: %s' % end)


run(main(), till=10000)
if problems:
    print('VIOLATION')
    for problem in problems:
        print(' -', problem)
    sys.exit(1)
print('no violation')
