"""
Baseline violation of C16 (unchanged tree): a failure whose exception type is one of
Scope.SUPPRESS_CONCURRENT (TaskCancelled, TaskClosed, GeneratorExit) is not raised by
first()/collect().

An activity that awaits another, cancelled task fails with TaskCancelled - the documented
result of `await task` for a cancelled task.  Passed to first()/collect() this is "an
activity that fails".  Expected: the others are aborted at that time and *the failure* is
raised.  Observed:
  * first(slow, failing, count=2) aborts `slow` at the time of the failure and then simply
    ends: 0 results although 2 were requested, no exception at all;
  * collect(slow, failing) raises TaskClosed('closed at end of scope ...') - the exception
    with which collect() itself aborted the *innocent* sibling - not the failure;
    collect(failing, slow) raises the bare TaskCancelled (not usim.Concurrent).
Exit status 1 if the violation shows, 0 otherwise.
"""
import signal
import sys


def _hang(*_):
    print("TIMEOUT")
    sys.exit(1)


signal.signal(signal.SIGALRM, _hang)
signal.alarm(30)

try:
    from usim import run, time, first, collect, Scope, Concurrent, TaskCancelled, \
        TaskClosed, eternity

    findings = []

    async def slow(name, duration):
        await (time + duration)
        return name

    async def needs(task, delay):
        await (time + delay)
        return await task          # the task was cancelled: raises TaskCancelled

    async def main():
        async with Scope() as scope:
            victim = scope.do(eternity)
            await (time + 1)
            victim.cancel()
            await (time + 1)

            # --- first -----------------------------------------------------------
            start, got, raised = time.now, [], None
            try:
                async for result in first(slow('a', 10), needs(victim, 1), count=2):
                    got.append((time.now - start, result))
            except BaseException as err:  # noqa: B902
                raised = err
            print("first(slow 10, failing at 1, count=2): results=%r raised=%r after %s"
                  % (got, raised, time.now - start))
            if raised is None and len(got) < 2:
                findings.append(
                    "first(..., count=2) ended after %d result(s) at +%s without raising: "
                    "the failure (TaskCancelled) of an activity was swallowed"
                    % (len(got), time.now - start))

            # --- collect ---------------------------------------------------------
            for order in ('slow first', 'failing first'):
                start, raised, value = time.now, None, None
                activities = [slow('a', 10), needs(victim, 1)]
                if order == 'failing first':
                    activities.reverse()
                try:
                    value = await collect(*activities)
                except BaseException as err:  # noqa: B902
                    raised = err
                print("collect(%s): returned=%r raised=%s after %s"
                      % (order, value, type(raised).__name__, time.now - start))
                if isinstance(raised, TaskClosed):
                    findings.append(
                        "collect(slow, failing) raised %s(%.40r...): that is the abort of "
                        "the innocent sibling, not the failure" %
                        (type(raised).__name__, str(raised)))
                elif not isinstance(raised, Concurrent):
                    findings.append(
                        "collect(%s) raised %s instead of usim.Concurrent"
                        % (order, type(raised).__name__))

    run(main(), till=1000)
    if findings:
        print("BASELINE VIOLATION of C16:")
        for finding in findings:
            print(" *", finding)
        sys.exit(1)
    print("no violation observed")
    sys.exit(0)
except SystemExit:
    raise
except BaseException as err:  # noqa: B902
    print("UNEXPECTED %s: %s" % (type(err).__name__, err))
    sys.exit(1)
