"""
Violations of property C06 by the UNCHANGED tree. Exits 1 if any of them shows.

(A) Cancelling one child silently aborts its parent scope and an unrelated sibling,
    as soon as some other child merely awaits the cancelled one without catching
    TaskCancelled. That awaiting child ends "CANCELLED" although nobody cancelled it,
    and its own awaiters get a TaskCancelled that carries a *different* task.
(B) A task created with ``at=``/``after=`` that is cancelled in the time step of its
    start date, before any of its code has run, still runs its code (to completion,
    status SUCCESS, if it does not suspend) when the canceller's activation precedes
    the task's start in that time step.
"""
import signal
import sys


def _alarm(*_):
    print("VIOLATION: simulation hangs")
    sys.exit(1)


signal.signal(signal.SIGALRM, _alarm)
signal.alarm(30)

problems = []
try:
    from usim import run, Scope, time, TaskCancelled, TaskState

    # ---------------------------------------------------------------- (A)
    seen = {}

    async def job():
        await (time + 10)

    async def follower(task):
        await task  # TaskCancelled of ``task`` is not handled here

    async def bystander(log):
        try:
            await (time + 20)
            log.append('bystander finished')
        except BaseException as err:  # noqa: B902
            log.append('bystander aborted by %r' % (err,))
            raise

    async def scenario_a():
        log = []
        error = None
        try:
            async with Scope() as scope:
                t_job = scope.do(job())
                t_follower = scope.do(follower(t_job))
                t_bystander = scope.do(bystander(log))
                await (time + 1)
                t_job.cancel('tok')  # cancel ONE child
                await (time + 50)
                log.append('scope body finished')
        except BaseException as err:  # noqa: B902
            error = err
        seen.update(
            log=log, error=error, end=time.now, job=t_job, follower=t_follower,
            bystander=t_bystander,
        )
        try:
            await t_follower
        except BaseException as err:  # noqa: B902
            seen['follower_outcome'] = err

    run(scenario_a(), till=1000)
    print("(A) log:", seen['log'], "| scope raised:", repr(seen['error']),
          "| scope left at t =", seen['end'])
    print("(A) status job/follower/bystander:", seen['job'].status,
          seen['follower'].status, seen['bystander'].status)
    outcome = seen.get('follower_outcome')
    print("(A) awaiter of follower got %r, subject is follower: %s, subject is job: %s" % (
        outcome, getattr(outcome, 'subject', None) is seen['follower'],
        getattr(outcome, 'subject', None) is seen['job'],
    ))
    if 'scope body finished' not in seen['log'] and seen['error'] is None:
        problems.append(
            "(A) cancelling a child aborted the body of its parent scope at t=%s - "
            "silently, the scope raised nothing" % seen['end']
        )
    if seen['bystander'].status != TaskState.SUCCESS:
        problems.append(
            "(A) cancelling a child aborted an unrelated sibling: %s, %s"
            % (seen['bystander'].status, seen['log'])
        )
    if seen['follower'].status == TaskState.CANCELLED:
        problems.append(
            "(A) a task that nobody cancelled (it died of an unhandled exception) "
            "reports status CANCELLED"
        )
    if isinstance(outcome, TaskCancelled) and outcome.subject is not seen['follower']:
        problems.append(
            "(A) awaiters of a task with status CANCELLED get a TaskCancelled that "
            "carries another task"
        )

    # ---------------------------------------------------------------- (B)
    ran = []
    box = []
    info = {}

    async def payload():
        ran.append(time.now)  # never suspends
        return 'done'

    async def canceller():
        await (time + 5)  # queued for t=5 *before* the start of the task below
        info['status at cancel'] = box[0].status
        info['code ran before cancel'] = list(ran)
        box[0].cancel('never run')

    async def scenario_b():
        async with Scope() as scope:
            scope.do(canceller())
            await (time + 1)
            box.append(scope.do(payload(), at=5))

    run(scenario_b(), till=1000)
    print("(B) at cancel(): status %s, code ran so far %s; afterwards: code ran at %s, "
          "status %s" % (info['status at cancel'], info['code ran before cancel'], ran,
                         box[0].status))
    if not info['code ran before cancel'] and ran:
        problems.append(
            "(B) a task cancelled before any of its code had run (it was waiting "
            "for its start date) ran its code nevertheless, and ended %s"
            % box[0].status
        )
except SystemExit:
    raise
except BaseException as err:  # noqa: B902
    print("unexpected %r" % (err,))
    sys.exit(1)

if problems:
    for problem in problems:
        print("VIOLATION of C06:", problem)
    sys.exit(1)
print("no violation observed")
sys.exit(0)
