"""
Baseline (unchanged library): Pipe computes the common factor ``pipe throughput / sum of
limits`` as an intermediate float.  For valid magnitudes whose *rates* and *durations*
are perfectly ordinary this intermediate overflows, underflows or becomes subnormal:
the transfer crashes with ZeroDivisionError or ends measurably off the fluid-model time.

Exit status 1 if any of the three cases deviates from the fluid model.
"""
import signal
import sys

from usim import run, Scope, time, Pipe


def attempt(name, expected, build):
    ends = {}

    async def transfer(pipe, key, volume, limit):
        await pipe.transfer(total=volume, throughput=limit)
        ends[key] = time.now

    async def main():
        pipe, transfers = build()
        async with Scope() as scope:
            for key, (volume, limit) in enumerate(transfers):
                scope.do(transfer(pipe, key, volume, limit))

    try:
        run(main())
    except BaseException as err:  # usim.Concurrent wraps the ZeroDivisionError
        print('%s: VIOLATION - simulation failed with %r, fluid model: all end at %r' % (
            name, err, expected
        ))
        return False
    wrong = {
        key: end for key, end in ends.items() if abs(end - expected) > 1e-9 * expected
    }
    if wrong or not ends:
        print('%s: VIOLATION - ended at %r, fluid model: all end at %r' % (
            name, ends, expected
        ))
        return False
    print('%s: ok %r' % (name, ends))
    return True


def main():
    signal.alarm(15)
    ok = True
    # control: the same shape with everyday numbers
    ok &= attempt('control', 2.0, lambda: (Pipe(10), [(10, 1e3), (10, 1e3)]))
    # 1. two transfers with a huge ("unlimited") own limit on Pipe(10): each must get 5
    #    and end at t = 2.  sum of limits = inf -> scale = 0.0 -> rate 0 -> division by 0
    ok &= attempt('sum overflows', 2.0, lambda: (Pipe(10), [(10, 1e308), (10, 1e308)]))
    # 2. ONE transfer on a slow pipe: rate = min(1e200, pipe) = 1e-200, volume 1e-200
    #    -> ends at t = 1.  scale = 1e-200 / 1e200 underflows to 0.0 -> division by 0
    ok &= attempt('scale underflows', 1.0, lambda: (Pipe(1e-200), [(1e-200, 1e200)]))
    # 3. the same with 1e-160 / 1e160: scale = 1e-320 is subnormal (3-4 digits left);
    #    the transfer ends at 1.0000111... instead of 1 (error 1e-5, not 1e-16)
    ok &= attempt('scale subnormal', 1.0, lambda: (Pipe(1e-160), [(1e-160, 1e160)]))
    sys.exit(0 if ok else 1)


if __name__ == '__main__':
    main()
