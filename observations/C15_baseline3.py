"""
Baseline finding 3 (unchanged tree, edge case): run(..., start=T, till=T) starts none
of its root activities.

C15: run() "starts all root activities at `start` in argument order". With
``till == start`` the internal ``until(time == till)`` scope is interrupted before its
children get their first turn; they are closed without ever running. (With
``till > start`` everything scheduled for ``start`` runs, and with e.g. start=0, till=1
even the steps of time 1 that were scheduled before do run - so ``till`` is not
generally exclusive.)
"""
import sys

from usim import run, time


def started(**kwargs):
    log = []

    async def activity(name):
        log.append((name, time.now))
        await (time + 1)

    run(activity('a'), activity('b'), **kwargs)
    return log


def main():
    violated = False
    for kwargs in ({'start': 5}, {'start': 5, 'till': 6}, {'start': 5, 'till': 5}):
        expected = [('a', 5), ('b', 5)]
        observed = started(**kwargs)
        ok = observed == expected
        print('run(a, b, %s): expected starts %r, observed %r -> %s' % (
            ', '.join('%s=%r' % item for item in kwargs.items()), expected, observed,
            'ok' if ok else 'VIOLATION'
        ))
        violated |= not ok
    return 1 if violated else 0


if __name__ == '__main__':
    sys.exit(main())
