"""
Baseline violation of C17 on the UNCHANGED library:
a real ``except Concurrent[...]`` clause does not agree with isinstance/issubclass.

The documentation (docstring of ``usim.Concurrent`` and docs/source/topics/exceptions.rst)
tells users to write ``except Concurrent[KeyError, ...]:`` or ``except Concurrent[LookupError]:``.
Python 3 does not consult ``type(handler).__subclasscheck__`` when it matches an
``except`` clause (it walks the real MRO of the raised class), so only the bare
``Concurrent`` and the *identical* exact specialisation are ever selected.

exit status 1 = violation shows, 0 = no violation
"""
import signal
import sys

from usim import Concurrent, Scope, run, time

signal.alarm(20)


async def araise(exc, delay=1):
    await (time + delay)
    raise exc


async def fail(*exc_types):
    async with Scope() as scope:
        for exc_type in exc_types:
            scope.do(araise(exc_type("concurrent")))


#: (types raised by the children, handler, handler is expected to select the failure)
CASES = [
    # the examples of the documentation
    ((KeyError,), lambda: Concurrent[KeyError], True),
    ((KeyError, IndexError), lambda: Concurrent[KeyError, IndexError], True),
    ((KeyError, IndexError), lambda: Concurrent[KeyError, ...], True),
    ((KeyError, IndexError, ValueError), lambda: Concurrent[KeyError, ...], True),
    ((KeyError,), lambda: Concurrent[LookupError], True),
    ((IndexError,), lambda: Concurrent[LookupError], True),
    ((KeyError, IndexError), lambda: Concurrent[LookupError], True),
    ((KeyError,), lambda: Concurrent[KeyError, ...], True),
    ((KeyError,), lambda: Concurrent[Exception], True),
    ((KeyError,), lambda: Concurrent, True),
    ((KeyError,), lambda: Concurrent[...], True),
    # negative cases
    ((KeyError, IndexError), lambda: Concurrent[KeyError], False),
    ((ValueError,), lambda: Concurrent[LookupError], False),
    ((ValueError,), lambda: Concurrent[KeyError, ...], False),
]

problems = []


async def main():
    for raised, make_handler, expected in CASES:
        handler = make_handler()
        selected_by_except = None
        failure = None
        try:
            try:
                await fail(*raised)
            except handler as err:
                selected_by_except = True
                failure = err
        except Concurrent as err:
            selected_by_except = False
            failure = err
        by_isinstance = isinstance(failure, handler)
        by_issubclass = issubclass(type(failure), handler)
        line = (
            f"children {[t.__name__ for t in raised]} vs {handler.__name__}: "
            f"expected={expected} isinstance={by_isinstance} "
            f"issubclass={by_issubclass} except-clause={selected_by_except}"
        )
        print(line)
        if not (expected == by_isinstance == by_issubclass == selected_by_except):
            problems.append(line)


run(main())
if problems:
    print("\nC17 VIOLATED by the unchanged library - the except clause disagrees:")
    for line in problems:
        print("  ", line)
    sys.exit(1)
print("no violation")
sys.exit(0)
