"""
Baseline (unchanged tree) violation of C07.

Activities that are started inside the body of an until-block by ``first()`` are
NOT closed when the block is abandoned while the consumer is in its loop body:
they go on executing after the block has ended - and after ``run(..., till=T)``
has cut the simulation - for as long as the ``first()`` iterator object is
referenced somewhere.
"""
import os
import signal
import sys

from usim import run, time, until, first


def _alarm(*_):
    print("VIOLATION: simulation hangs")
    sys.stdout.flush()
    os._exit(1)


signal.signal(signal.SIGALRM, _alarm)
signal.alarm(30)


def make_job(log):
    async def job(i):
        # job 0 delivers a result at time 1, jobs 1 and 2 work for a long time
        for _ in range(1 if i == 0 else 12):
            await (time + (1 + i))
            log.append((i, time.now))
        return i
    return job


def part1():
    """``async with until(time + 5)`` around a loop over ``first(...)``"""
    log, marks = [], {}
    job = make_job(log)

    async def main():
        async with until(time + 5):
            results = first(job(0), job(1), job(2), count=None)
            async for _ in results:      # first result arrives at time 1
                await (time + 100)       # the block is cut here at time 5
        marks['end'] = time.now
        await (time + 20)                # the activity simply goes on
        marks['later'] = time.now

    run(main(), till=200)
    late = [entry for entry in log if entry[1] > marks['end']]
    print("part 1: until(time + 5) ended at", marks['end'],
          "- jobs started in its body ran at", [t for _, t in log])
    if late:
        print("VIOLATION of C07: the block ended at time %s, but activities started "
              "in its body were not closed; they executed %d more steps, up to "
              "time %s" % (marks['end'], len(late), max(t for _, t in late)))
        return 1
    return 0


def part2():
    """``run(..., till=5)``; the iterator object is also referenced from outside"""
    log, keep = [], []
    job = make_job(log)

    async def main():
        results = first(job(0), job(1), job(2), count=None)
        keep.append(results)
        async for _ in results:
            await (time + 100)

    run(main(), till=5)
    late = [entry for entry in log if entry[1] > 5]
    print("part 2: run(till=5) - jobs ran at", [t for _, t in log])
    if late:
        print("VIOLATION of C07: run(..., till=5) executed %d steps of user code at "
              "virtual times later than 5, up to time %s"
              % (len(late), max(t for _, t in late)))
        return 1
    return 0


if __name__ == '__main__':
    try:
        status = 1 if (part1() | part2()) else 0
    except BaseException as err:  # noqa
        print("VIOLATION: unexpected failure %r" % (err,))
        status = 1
    if not status:
        print("OK: nothing ran after the end of the blocks")
    sys.exit(status)
